#!/bin/bash
# Builds /verif/.venv offline: python 3.12 (the repo's interpreter) + solver/contract wheels from the
# local wheelhouse + a .pth that makes /venv's site-packages (numpy, torch, lxml, shapely, ...) importable.
# Idempotent; called by MANIFEST.setup_cmd and by ./check when .venv is missing.
set -e
cd "$(dirname "$0")"
export PIP_NO_INDEX=1 PIP_DISABLE_PIP_VERSION_CHECK=1
V=.venv
if [ -x "$V/bin/python" ] && "$V/bin/python" -c "import z3, cvc5, jsonschema, numpy, deal, icontract" 2>/dev/null; then
    echo "setup: $V already complete"
    exit 0
fi
rm -rf "$V"
/venv/bin/python -m venv "$V"
"$V/bin/python" -m pip install -q --no-index --find-links /opt/veriftools/wheels \
    z3-solver cvc5 jsonschema deal icontract crosshair-tool
SP=$("$V/bin/python" -c "import sysconfig; print(sysconfig.get_paths()['purelib'])")
echo "import site; site.addsitedir('/venv/lib/python3.12/site-packages')" > "$SP/zz_repo_deps.pth"
"$V/bin/python" -c "import z3, cvc5, jsonschema, numpy, deal, icontract; print('setup: ok, z3', z3.get_version_string())"
