"""A recognised line with MORE than 1000 logit frames (a crop wider than 4000 px: batch sizes above 8 allow it) whose last characters
lie beyond frame 1050 — shared by the C06 and C16 checks (genuine defect fixed in /repo c076aee: a fixed sentinel 1000 as the "end of
the line" made the confidence window of the last character empty)."""


def long_line(np, sparse, layout, frames=1300):
    chars = ['a', 'b', 'c', ' ']
    lg = np.full((frames, 5), -8.0)
    lg[:, 4] = 4.0
    text = 'ab ca b'
    pos = [10, frames // 4, frames // 2, frames - 200, frames - 150, frames - 100, frames - 50]
    for p, ch in zip(pos, text):
        lg[p, :] = -8.0
        lg[p, chars.index(ch)] = 6.0
    line = layout.TextLine(id='l1', baseline=np.array([[10, 50], [4 * frames - 100, 50]]), polygon=np.array([[10, 30], [4 * frames - 100, 30], [4 * frames - 100, 60], [10, 60]]),
                           heights=[20, 10], transcription=text, logits=sparse.csc_matrix(lg), characters=chars + ['~'], logit_coords=[0, frames])
    labels = np.array([chars.index(c) for c in text])
    return line, labels, text


def check_confidence(np, sparse, layout, ce):
    bad = []
    for frames in (600, 1040, 1300, 2100):
        line, labels, text = long_line(np, sparse, layout, frames)
        try:
            conf = ce.get_line_confidence(line, labels)
        except Exception as e:
            bad.append(('line-confidence-in-unit-interval', 'get_line_confidence raised %r on a line of %d frames whose last characters lie near its end' % (e, frames)))
            continue
        if len(conf) != len(text) or np.any(conf < 0) or np.any(conf > 1 + 1e-12):
            bad.append(('line-confidence-in-unit-interval', 'line of %d frames: confidences %r' % (frames, conf)))
        elif np.abs(conf - 1).max() > 1e-3:
            bad.append(('one-hot-posteriors-give-one', 'line of %d frames with (nearly) one-hot posteriors: confidences %r' % (frames, conf.round(4).tolist())))
    return 4, bad


def check_alto(np, sparse, layout, ET):
    bad = []
    for frames in (1040, 1300):
        line, labels, text = long_line(np, sparse, layout, frames)
        pl = layout.PageLayout(id='p', page_size=(200, 4 * frames + 100))
        r = layout.RegionLayout('r1', np.array([[0, 0], [4 * frames, 0], [4 * frames, 100], [0, 100]]))
        r.lines.append(line)
        pl.regions.append(r)
        try:
            s = pl.to_altoxml_string()
        except Exception as e:
            bad.append(('export-succeeds', 'to_altoxml_string raised %r on a page with a line of %d logit frames' % (e, frames)))
            continue
        root = ET.fromstring(s.encode('utf-8'))
        words = [el.get('CONTENT') for el in root.iter() if el.tag.endswith('}String') or el.tag == 'String']
        if words != text.split():
            bad.append(('words-equal-split', 'line of %d frames exported as %r, expected %r' % (frames, words, text.split())))
    return 2, bad
