"""C03 — LM fusion: the LM score is the LM's own score; the result maximises vis + scale * LM.

Proved (unbounded): BagOfHypotheses.best_hyp returns the transcript of the first maximiser of the same LM-weighted
total score that posteriors()/confidence() use (for bags whose hypotheses all carry an LM score, and for bags where
none does).  Bounded: whole-decoder contract with a history-dependent toy LM, exhaustive over a finite grid."""
import itertools
import math
from vf import core, bounded, selftest
from vf.core import Failure, sig
from specs import ctc as S
from props import _ctc

F = 'pero_ocr/decoding/decoders.py'
B = 'pero_ocr/decoding/bag_of_hypotheses.py'
MUTANTS = [
    {'name': 'original-defect: best_hyp ignores the LM weight', 'file': B,
     'old': "        best_idx = max(range(len(total_scores)), key=lambda i: total_scores[i])\n        return self._hyps[best_idx].transcript",
     'new': "        return max(self._hyps, key=lambda hyp: hyp.vis_sc + (hyp.lm_sc if hyp.lm_sc is not None else 0)).transcript"},
    {'name': 'LM state not permuted with the beam', 'file': F, 'old': '    h_new = h_prev[best_inds_l[0]]', 'new': '    h_new = h_prev[np.arange(len(best_inds_l[0])) % len(h_prev)]'},
    {'name': 'insertion bonus dropped', 'file': F, 'old': 'new = Plm_old[:, np.newaxis] + lm_preds + self._insertion_bonus', 'new': 'new = Plm_old[:, np.newaxis] + lm_preds'},
    {'name': 'returned state is that of the visually best hypothesis', 'file': F, 'old': 'idx_of_best = np.argmax(Pom + Plm*self._lm_scale)', 'new': 'idx_of_best = np.argmax(Pom)'},
    {'name': 'ranking ignores the LM scale', 'file': F, 'old': 'total_P = visual_P + total_Plm * self._lm_scale', 'new': 'total_P = visual_P + total_Plm'},
    {'name': 'lm predictions of extended prefixes not refreshed', 'file': F, 'old': '        lm_preds_new[new_prefix_positions] = lm.log_probs(h_replacement)\n', 'new': ''},
    {'name': 'eos score added twice', 'file': F, 'old': '            Plm += eos_scores\n', 'new': '            Plm += eos_scores\n            Plm += eos_scores\n'},
]


def check_c03(np, D, logits, k, scale, bonus, eos, with_init, dec=None, lm=None):
    C = len(logits[0])
    letters = 'ab'
    lm = lm or S.ToyLM(C - 1, salt=7)
    start = ('<s>',)
    init = None
    if with_init:
        start = ('<s>', 1, 0)
        init = np.asarray([lm.state_of((), start)])
    boh, h = _ctc.decode(np, D, logits, k, lm=lm, scale=scale, bonus=bonus, eos=eos, init=init, want_h=True, dec=dec)
    bad = []
    hyps = list(boh)
    for hy in hyps:
        w = tuple(letters.index(ch) for ch in hy.transcript)
        want = lm.score(w, bonus=bonus, eos=eos, start=start)
        if abs(hy.lm_sc - want) > 1e-9:
            bad.append(('lm-score-is-own-score', '%r: lm_sc %.9f, LM says %.9f' % (hy.transcript, hy.lm_sc, want)))
    totals = [hy.vis_sc + scale * hy.lm_sc for hy in hyps]
    best = max(totals)
    winners = [hy.transcript for hy, t in zip(hyps, totals) if abs(t - best) < 1e-9]
    bh = boh.best_hyp()
    if bh not in winners:
        bad.append(('best-maximises-total', 'best_hyp %r, maximisers of vis + %g*lm: %r' % (bh, scale, winners)))
    if len(winners) == 1:
        conf = boh.confidence()
        tc = boh.transcript_confidence(bh)
        if abs(conf - tc) > 1e-9:
            bad.append(('confidence-is-posterior-of-best', 'confidence %.9f vs posterior of best %.9f' % (conf, tc)))
        want_state = lm.state_of(tuple(letters.index(ch) for ch in bh), start)
        if int(h[0]) != want_state:
            bad.append(('returned-state-is-best-hyps', 'returned LM state is %r, state of %r is %r'
                        % (lm.prefixes[int(h[0])], bh, lm.prefixes[want_state])))
    if scale == 0:
        ref, _ = _ctc.decode(np, D, logits, k)
        a = sorted((hy.transcript, round(hy.vis_sc, 9)) for hy in hyps)
        b = sorted((hy.transcript, round(hy.vis_sc, 9)) for hy in ref)
        tie = False
        if a != b:
            # with scale 0 the ranking key is the visual score: the bags may differ only through ties at the k-th place
            _, tie = S.ref_beam_search(logits, k, C - 1, selector=lambda row: [i for i, x in enumerate(row) if x > -10])
            if not tie:
                bad.append(('scale-zero-is-lm-free', 'bag %r vs LM-free bag %r' % (a, b)))
        if not tie and ref.best_hyp() != bh and len(winners) == 1:
            bad.append(('scale-zero-is-lm-free', 'best %r vs LM-free best %r' % (bh, ref.best_hyp())))
    return bad


def _chunk(args):
    mats, grid = args
    core.setup_repo_path()
    import numpy as np
    from pero_ocr.decoding import decoders as D
    out = {'evaluations': 0, 'nontrivial': 0, 'failures': [], 'samples': []}
    for lg in mats:
        for (k, scale, bonus, eos, init) in grid:
            out['evaluations'] += 1
            if len(lg) >= 2 and scale != 1:
                out['nontrivial'] += 1
            try:
                bad = check_c03(np, D, lg, k, scale, bonus, eos, init)
            except Exception as e:
                bad = [('no-exception', 'raised %r' % (e,))]
            for clause, detail in bad:
                out['failures'].append({'clause': clause, 'observed': detail,
                                        'input': {'logits': lg, 'k': k, 'scale': scale, 'bonus': bonus, 'eos': eos, 'init_state': init}})
        if len(out['samples']) < 2 and len(lg) == 2:
            out['samples'].append({'logits': lg, 'grid_point': list(grid[0])})
    # ONE long-lived decoder (as PageDecoder keeps it) decodes a text line, a blank-only line, the text line again, a second text
    # line: every call is held to the same clauses (state kept on the decoder between calls must not leak into the scores)
    two = [lg for lg in mats if len(lg[0]) == 3 and len(lg) >= 2][:2]
    if len(two) == 2:
        blank_only = [[-14.0, -14.0, -1.7e-6]] * 2
        for (k, scale, bonus, eos, init) in grid:
            lm = S.ToyLM(2, salt=7)
            dec = D.CTCPrefixLogRawNumpyDecoder(_ctc.LETTERS2, k=k, lm=lm, lm_scale=scale, insertion_bonus=bonus)
            for step, lg in enumerate((two[0], blank_only, two[0], two[1])):
                out['evaluations'] += 1
                try:
                    bad = check_c03(np, D, lg, k, scale, bonus, eos, init, dec=dec, lm=lm)
                except Exception as e:
                    bad = [('no-exception', 'raised %r' % (e,))]
                for clause, detail in bad:
                    out['failures'].append({'clause': clause, 'observed': 'call #%d of one decoder: %s' % (step + 1, detail),
                                            'input': {'history': [two[0], blank_only, two[0], two[1]][:step + 1], 'k': k, 'scale': scale, 'bonus': bonus, 'eos': eos, 'init_state': init}})
    return out


def bag_cases(BagOfHypotheses):
    """best_hyp / posteriors on hand-enumerated small bags, incl. lm_sc None"""
    bad = []
    vals = [-3.0, -1.0, -0.5, 0.0]
    n = 0
    for w in (0.0, 0.5, 1.0, 3.0):
        for hy in itertools.product(itertools.product(vals, vals), repeat=2):
            for third in (None, (-2.0, -0.25)):
                n += 1
                bag = BagOfHypotheses(lm_weight=w)
                items = list(hy) + ([third] if third else [])
                for i, (v, l) in enumerate(items):
                    bag.add('t%d' % i, v, l)
                tot = [v + w * l for v, l in items]
                want = 't%d' % tot.index(max(tot))
                if bag.best_hyp() != want:
                    bad.append(('best-maximises-total', {'lm_weight': w, 'hyps': items}, 'best_hyp %r, expected %r' % (bag.best_hyp(), want)))
                post = bag.posteriors()
                if abs(sum(math.exp(p) for p in post) - 1) > 1e-9:
                    bad.append(('posteriors-sum-to-one', {'lm_weight': w, 'hyps': items}, 'sum %r' % sum(math.exp(p) for p in post)))
                if abs(bag.confidence() - math.exp(post[tot.index(max(tot))])) > 1e-12:
                    bad.append(('confidence-is-posterior-of-best', {'lm_weight': w, 'hyps': items}, 'confidence %r' % bag.confidence()))
        bag = BagOfHypotheses(lm_weight=w)
        bag.add('x', -1.0, None)
        bag.add('y', -0.5, None)
        n += 1
        if bag.best_hyp() != 'y':
            bad.append(('best-maximises-total', {'lm_weight': w, 'hyps': 'lm_sc None'}, 'best_hyp %r' % bag.best_hyp()))
    return n, bad


def _torch_lm_chunk(cases):
    """the real LMWrapper / HiddenState with a torch LSTM language model (tuple state (h, c), 1 or 2 layers): the LM score the
    decoder reports for a hypothesis must be the model's own score of the transcript, recomputed here with plain torch"""
    core.setup_repo_path()
    import numpy as np
    import torch
    torch.set_num_threads(1)
    from pero_ocr.decoding import decoders as D
    from pero_ocr.decoding.lm_wrapper import LMWrapper
    CH = ['a', 'b', 'c']
    HID = 6
    out = {'evaluations': 0, 'nontrivial': 0, 'failures': [], 'samples': []}

    class Net(torch.nn.Module):
        def __init__(self, layers):
            super().__init__()
            self.embedding = torch.nn.Embedding(len(CH) + 1, HID)
            # with dropout between the layers and in front of the output layer, as trained LSTM language models have: the module
            # arrives in training mode (every freshly built or un-pickled module does) and is NOT switched to eval() here
            self.lstm = torch.nn.LSTM(HID, HID, num_layers=layers, batch_first=True, dropout=0.5 if layers > 1 else 0.0)
            self.layers = layers

        def forward(self, xs, hs):
            return self.lstm(self.embedding(xs), hs)

        def init_hidden(self, bsz):
            return (torch.zeros((self.layers, bsz, HID)), torch.zeros((self.layers, bsz, HID)))

    class Out(torch.nn.Module):
        def __init__(self):
            super().__init__()
            self.dropout = torch.nn.Dropout(0.5)
            self.projection = torch.nn.Linear(HID, len(CH) + 1)

        def forward(self, hs):
            return torch.nn.functional.log_softmax(2.0 * self.projection(self.dropout(hs)), dim=-1)

    class Lm(torch.nn.Module):
        def __init__(self, layers):
            super().__init__()
            self.vocab = {'</s>': 0}
            for c in CH:
                self.vocab[c] = len(self.vocab)
            self.model = Net(layers)
            self.decoder = Out()
            self._unused_prefix_len = 1

    def own_score(lm, text):
        import copy
        lm = copy.deepcopy(lm).eval()            # the model's own (inference) score
        with torch.no_grad():
            h = lm.model.init_hidden(1)
            _, h = lm.model(torch.tensor([[0]]), h)
            total = 0.0
            for ch in text:
                lp = lm.decoder(h[0][-1])[0]
                total += float(lp[lm.vocab[ch]])
                _, h = lm.model(torch.tensor([[lm.vocab[ch]]]), h)
        return total
    for seed, layers, k, scale in cases:
        torch.manual_seed(seed)
        lm = Lm(layers)
        rng = np.random.RandomState(seed)
        # peaked frames cycling through the letters: hypotheses of three and more characters (a state that was extended is
        # extended again, which is where a half-updated (h, c) pair shows)
        T = 5 + seed % 3
        x = rng.uniform(0.05, 0.25, size=(T, len(CH) + 1))
        for t in range(T):
            x[t, (seed + t) % len(CH)] = 1.0
        logits = np.log(x / x.sum(axis=1, keepdims=True))
        wrapper = LMWrapper(lm, CH, torch.device('cpu'))
        dec = D.CTCPrefixLogRawNumpyDecoder(CH + [D.BLANK_SYMBOL], k=k, lm=wrapper, lm_scale=scale)
        out['evaluations'] += 1
        try:
            # "from the given start state": the caller's start state is an argument, not scratch space - the same state object
            # handed in twice (beam widths 1 and k) gives the same scores twice
            for kk in (1, k):
                dk = D.CTCPrefixLogRawNumpyDecoder(CH + [D.BLANK_SYMBOL], k=kk, lm=wrapper, lm_scale=scale)
                h0 = wrapper.initial_h_from_line('ab')
                two = [sorted((h.transcript, round(float(h.lm_sc), 6)) for h in dk(logits, init_h=h0)) for _ in range(2)]
                if two[0] != two[1]:
                    out['failures'].append({'clause': 'lm-score-is-own-score', 'input': {'seed': seed, 'lstm_layers': layers, 'k': kk, 'scale': scale, 'init_state': 'reused'},
                                            'observed': 'decoding twice from the same supplied start state (beam width %d): %r, then %r' % (kk, two[0][:2], two[1][:2])})
                    break
            boh = dec(logits)
            hyps = list(boh)
            if any(len(h.transcript) >= 3 for h in hyps):
                out['nontrivial'] += 1
            for h in hyps:
                want = own_score(lm, h.transcript)
                if abs(h.lm_sc - want) > 1e-4:
                    out['failures'].append({'clause': 'lm-score-is-own-score', 'input': {'seed': seed, 'lstm_layers': layers, 'k': k, 'scale': scale},
                                            'observed': '%r: lm_sc %.6f, the LSTM model itself scores the transcript %.6f' % (h.transcript, h.lm_sc, want)})
                    break
        except Exception as e:
            out['failures'].append({'clause': 'no-exception', 'input': {'seed': seed, 'lstm_layers': layers, 'k': k, 'scale': scale}, 'observed': 'raised %r' % (e,)})
    return out


def run(ctx):
    from pyvc import run as vrun
    thorough = ctx.tier == 'thorough'
    ctx.level = 'other'
    ctx.explanation = (
        'Hybrid. PROVED for all inputs and for EVERY language model whose initial_h / log_probs / advance_h0 / eos_scores act item-wise and '
        'deterministically (the LM is a family of uninterpreted functions): the beam loop of CTCPrefixLogRawNumpyDecoder.__call__ with an LM '
        'keeps h_prev[p] = HSTATE(prefix p) (the state reached from the start state by reading the prefix), lm_preds[p] = the predictions of that '
        'state, and Plm[p] = LMS(prefix p) = sum over the symbols of (score of the symbol in the state before it + insertion bonus) — whatever '
        'route the search took (compute_Plm, update_lm_things and the loop invariant); at the return Plm[p] = LMS(prefix p) (+ the end-of-line '
        'score of HSTATE(prefix p) when requested) and with return_h the state handed on is HSTATE of the arg-max of visual + scale * LM score.  '
        'PROVED for all bags: best_hyp() returns the transcript at the first maximiser of vis_sc + lm_weight * lm_sc '
        '(the key total_scores()/posteriors()/confidence() use), so best_hyp, the bag confidence and scale-0 behaviour agree by '
        'construction. BOUNDED: the decoder with a history-dependent toy LM (state = whole prefix, pseudo-random per-symbol scores) '
        'is run on every matrix of a finite grid x scale x bonus x eos x initial state: each lm_sc equals the LM\'s own sum along the '
        'transcript, best_hyp maximises vis + scale*lm, confidence is its posterior, the returned state is its state, scale 0 '
        'reproduces LM-free decoding.  The decoder proof covers init_h = None; a supplied initial state and the hand-over of the arrays to '
        'build_boh (opaque) are covered by the bounded tier only.')
    core.setup_repo_path()
    try:
        from contracts import boh
        reps = vrun.verify(boh.KEYS_C03, boh.CONTRACTS, root=core.repo_root(), both=thorough)
        ctx.add_proof_reports(reps, clause='best_hyp maximises the LM-weighted total score')
    except ImportError:
        ctx.notes.append('contracts/boh.py not present: best_hyp clause bounded only')
    from contracts import decoders as DC
    reps = vrun.verify(DC.KEYS_LM, DC.CONTRACTS, root=core.repo_root(), both=thorough)
    ctx.add_proof_reports(reps, clause='LM bookkeeping invariant of the beam loop: LM score = the LM\'s own score of the prefix, whatever the route')
    ctx.trusted += ['ASSUMED contract of the LM object: initial_h / log_probs / advance_h0 / eos_scores act item-wise on a batch and are deterministic functions of state (and symbol); log_probs has one column per non-blank symbol',
                    'as in C02: multisort.top_k proved there (its counting consequence in Lean); ASSUMED: the pre-selection callable returns increasing positions, blank probability non-zero per frame',
                    'decoder proved for init_h = None; build_boh is opaque in the decoder proof']
    import numpy as np
    from pero_ocr.decoding import decoders as D
    from pero_ocr.decoding.bag_of_hypotheses import BagOfHypotheses
    nb, bb = bag_cases(BagOfHypotheses)
    fails = []
    for clause, inp, detail in bb[:1]:
        fails.append(Failure(sig('rt', 'BagOfHypotheses', clause), 'bag contract %s fails: %s on %s' % (clause, detail, inp),
                             function='BagOfHypotheses.best_hyp', input=inp, observed=detail, clause=clause))
    ctx.add_bounded('bags', 'bags of 2..3 hypotheses with vis/lm scores from {-3,-1,-.5,0}, weights {0,.5,1,3}; bags without LM scores',
                    nb, nb - 4, True, [{'lm_weight': 0.5, 'hyps': [(-1.0, -3.0), (-3.0, 0.0)]}], fails,
                    rule='all pairs/triples of (vis, lm) from the value set; non-trivial = LM scores present',
                    clause='best_hyp maximises total score; posteriors sum to 1; confidence = posterior of best')
    mats = _ctc.grid(3 if thorough else 2, zero_variants=(S.NEG_INF,))
    if not thorough:
        mats += _ctc.grid(3, extreme_only_from=1)
    grid = [(k, sc, bo, eos, init) for k in ((1, 2, 4) if thorough else (1, 2, 4))
            for sc in (0.0, 0.5, 1.0, 3.0) for bo in (0.0, 1.0) for eos in (False, True) for init in (False, True)]
    if not thorough:
        grid = [g for g in grid if not (g[3] and g[4])]
    mats = bounded.order(mats, ctx.seed)
    res = bounded.pmap(_chunk, [(c, grid) for c in bounded.shard(mats, 48)])
    seen = set()
    fails = []
    for f in sorted(res['failures'], key=lambda f: (len(f['input'].get('logits') or f['input'].get('history') or ()), str(f['input']))):
        s = sig('rt', 'decoder+LM', f['clause'])
        if s in seen:
            continue
        seen.add(s)
        fails.append(Failure(s, 'run-time contract %s fails: %s on %s' % (f['clause'], f['observed'], f['input']),
                             function='CTCPrefixLogRawNumpyDecoder.__call__', input=f['input'], observed=f['observed'], clause=f['clause']))
    ctx.add_bounded('decoder-with-toy-lm', 'matrices as in C02 (T<=%d) x k in {1,2,4} x scale in {0,.5,1,3} x bonus in {0,1} x eos x supplied initial state; toy LM whose state is the whole prefix' % (3 if thorough else 2),
                    res['evaluations'], res['nontrivial'], True, res['samples'], fails,
                    rule='every grid point; non-trivial = at least two frames and scale != 1',
                    clause='lm_sc = LM own score; best maximises vis+scale*lm; confidence/state belong to it; scale 0 = LM-free')
    # the real LMWrapper / HiddenState with a torch LSTM (the toy LM above never touches HiddenState)
    tcases = [(sd, layers, k, sc) for sd in range(6 if not thorough else 12) for layers in (1, 2) for k in (1, 3) for sc in (0.7,)]
    res3 = bounded.pmap(_torch_lm_chunk, bounded.shard(tcases, 8))
    fails3 = []
    if res3['failures']:
        f = res3['failures'][0]
        fails3.append(Failure(sig('rt', 'decoder+LMWrapper', f['clause']), 'decoder with the real LMWrapper and a torch LSTM: %s on %s' % (f['observed'], f['input']),
                              function='CTCPrefixLogRawNumpyDecoder.__call__ / LMWrapper / HiddenState', input=f['input'], observed=f['observed'], clause=f['clause']))
    ctx.add_bounded('decoder-with-torch-lstm', '%d decodings: seeded 1- and 2-layer LSTM language models (tuple state) behind the real LMWrapper, 5-7 peaked frames, k in {1, 3}' % len(tcases),
                    res3['evaluations'], res3['nontrivial'], False, res3['samples'], fails3, rule='seeded models and matrices; non-trivial = a hypothesis of at least three characters',
                    clause='lm_sc of every hypothesis = the LSTM model\'s own score of the transcript')
    bounded.close()
    ctx.trusted += ['toy LM stands for "all history-dependent LMs" (A6: the real LMWrapper/torch LM is not verified)',
                    'executable specs specs/ctc.py']
    if thorough:
        selftest.run(ctx, MUTANTS)


def replay(entry):
    core.setup_repo_path()
    import numpy as np
    from pero_ocr.decoding import decoders as D
    from pero_ocr.decoding.bag_of_hypotheses import BagOfHypotheses
    inp = entry.get('input') or {}
    if 'logits' in inp:
        lg = [[float(x) for x in r] for r in inp['logits']]
        bad = check_c03(np, D, lg, inp['k'], inp['scale'], inp['bonus'], inp['eos'], inp['init_state'])
    elif 'history' in inp:
        lm = S.ToyLM(2, salt=7)
        dec = D.CTCPrefixLogRawNumpyDecoder(_ctc.LETTERS2, k=inp['k'], lm=lm, lm_scale=inp['scale'], insertion_bonus=inp['bonus'])
        bad = []
        for lg in inp['history']:
            bad = check_c03(np, D, [[float(x) for x in r] for r in lg], inp['k'], inp['scale'], inp['bonus'], inp['eos'], inp['init_state'], dec=dec, lm=lm)
    else:
        bad = bag_cases(BagOfHypotheses)[1]
    for b in bad[:5]:
        print('REPLAY-FAIL', b)
    print('replay: %d problem(s)' % len(bad))
    return 1 if bad else 0
