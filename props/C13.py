"""C13 — edit distance, alignments and error summaries are exact and consistent.

Proved (unbounded, pyvc): levenshtein_distance, levenshtein_alignment, levenshtein_alignment_path,
levenshtein_distance_substring against the Wagner-Fischer / Sellers spec functions for all sequences and all
costs >= 1.  Bounded (exhaustive small domain, real functions under the same spec as run-time contract):
every clause again, plus levenshtein_alignment_substring, edit_stats_for_alignment, ErrorsSummary.from_lists /
aggregate, and mixed-type symbols (where numpy's coercion is outside the proof's element model, A5).
"""
import itertools
from vf import core, bounded, selftest
from vf.core import Failure, sig
from specs import lev as L

SA = 'pero_ocr/sequence_alignment.py'
ES = 'pero_ocr/error_summary.py'
MUTANTS = [
    {'name': 'distance: deletion of the first column charged as an insertion', 'file': SA, 'old': '        dist[0] += del_cost\n        for ii in range(len(dist) - 1):', 'new': '        dist[0] += ins_cost\n        for ii in range(len(dist) - 1):'},
    {'name': 'distance: insertion relaxation stops one cell early', 'file': SA, 'old': '        for ii in range(len(dist) - 1):\n            if dist[ii + 1] > dist[ii] + ins_cost:\n                dist[ii + 1] = dist[ii] + ins_cost\n    return dist[-1]',
     'new': '        for ii in range(len(dist) - 2):\n            if dist[ii + 1] > dist[ii] + ins_cost:\n                dist[ii + 1] = dist[ii] + ins_cost\n    return dist[-1]'},
    {'name': 'alignment: substitution and deletion swapped in the emitted pair', 'file': SA, 'old': "        alig.insert(0, (empty_symbol if where < 0 else source[src_pos],\n                        empty_symbol if where > 0 else target[tar_pos]))\n    return alig\n\n\ndef levenshtein_alignment_path",
     'new': "        alig.insert(0, (empty_symbol if where > 0 else source[src_pos],\n                        empty_symbol if where < 0 else target[tar_pos]))\n    return alig\n\n\ndef levenshtein_alignment_path"},
    {'name': 'path: the walk is not reversed', 'file': SA, 'old': '        align.append(where)\n    return list(reversed(align))', 'new': '        align.append(where)\n    return list(align)'},
    {'name': 'original-defect: substring distance starts every prefix at cost 0', 'file': SA,
     'old': "    dist[:-1] = np.arange(len(target) + 1) * ins_cost\n    dist[-1] = dist[-2]\n    for s in source:\n        dist[1:-1] = np.minimum", 'new': "    dist[:-1] = 0\n    dist[-1] = dist[-2]\n    for s in source:\n        dist[1:-1] = np.minimum"},
    {'name': 'substring alignment: free trailing part starts one symbol late', 'file': SA,
     'old': '    for char in source[suffix_beginning - 1:]:', 'new': '    for char in source[suffix_beginning:]:'},
    {'name': 'edit statistics: deletions counted among the substitutions', 'file': SA, 'old': '    nsub = nphn - ncor - ndel', 'new': '    nsub = nphn - ncor'},
    {'name': 'aggregate: substitutions summed from the insertions', 'file': ES, 'old': '            total_nb_subs += err.nb_subs', 'new': '            total_nb_subs += err.nb_inss'},
    {'name': 'line summary: distance computed with substitution cost 2 while the alignment uses unit costs', 'file': ES,
     'old': '        nb_errors = levenshtein_distance(ref, hyp)', 'new': '        nb_errors = levenshtein_distance(ref, hyp, sub_cost=2)'},
    {'name': 'line summary: reference length taken from the hypothesis', 'file': ES, 'old': '        ref_len = len(ref)', 'new': '        ref_len = len(hyp)'},
]
PROOF_KEYS = ['levenshtein_distance', 'levenshtein_alignment', 'levenshtein_alignment_path',
              'levenshtein_distance_substring', 'levenshtein_alignment_substring']

# (sub, ins, del); (4, 1, 1): a substitution dearer than a deletion plus an insertion
COSTS_Q = [(1, 1, 1), (1, 2, 3), (3, 1, 2), (4, 1, 1)]
COSTS_T = [(1, 1, 1), (1, 2, 3), (3, 1, 2), (4, 1, 1), (2, 4, 1), (4, 3, 4), (2, 2, 1), (3, 1, 1)]


def seqs(alphabet, max_len):
    return [list(s) for k in range(max_len + 1) for s in itertools.product(alphabet, repeat=k)]


def clauses_for_pair(sa, es, a, b, costs):
    """all C13 clauses on one pair of sequences; returns list of (clause, function, observed, expected)"""
    bad = []
    for c in costs:
        sub, ins, dele = c
        want = L.lev(a, b, sub, ins, dele)
        got = sa.levenshtein_distance(a, b, sub, ins, dele)
        if got != want:
            bad.append(('distance-is-minimum', 'levenshtein_distance', {'costs': c}, repr(got), want))
        al = sa.levenshtein_alignment(a, b, sub, ins, dele)
        al = [(x, y) for x, y in al]
        if L.proj_src(al) != a or L.proj_tgt(al) != b or L.alignment_cost(al, sub, ins, dele) != want:
            bad.append(('alignment-projects-and-costs', 'levenshtein_alignment', {'costs': c}, repr(al), want))
        path = sa.levenshtein_alignment_path(a, b, sub, ins, dele)
        w = L.path_walk(path, a, b, sub, ins, dele)
        if w is None or w != (len(a), len(b), want):
            bad.append(('path-projects-and-costs', 'levenshtein_alignment_path', {'costs': c}, repr(list(path)), want))
    want = L.substring_distance(a, b)
    got = sa.levenshtein_distance_substring(a, b)
    if got != want:
        bad.append(('substring-distance-optimal', 'levenshtein_distance_substring', {}, repr(got), want))
    al = [(x, y) for x, y in sa.levenshtein_alignment_substring(a, b)]
    mid = L.strip_free(al, len(a) >= len(b))
    if L.proj_src(al) != a or L.proj_tgt(al) != b or L.alignment_cost(mid) != want:
        bad.append(('substring-alignment-cost', 'levenshtein_alignment_substring', {}, repr(al), want))
    # error summary of a line: ref = a, hyp = b
    s = es.ErrorsSummary.from_lists(a, b)
    d = L.lev(a, b)
    if s.nb_subs + s.nb_inss + s.nb_dels != s.nb_errors or s.nb_errors != d or s.ref_len != len(a):
        bad.append(('summary-sums-to-distance', 'ErrorsSummary.from_lists', {},
                    repr((s.nb_subs, s.nb_inss, s.nb_dels, s.nb_errors, s.ref_len)), d))
    return bad


def _chunk_pairs(args):
    pairs, costs, tag = args
    core.setup_repo_path()
    from pero_ocr import sequence_alignment as sa
    from pero_ocr import error_summary as es
    out = {'evaluations': 0, 'nontrivial': 0, 'failures': [], 'samples': []}
    for a, b in pairs:
        out['evaluations'] += 1
        if a and b and a != b:
            out['nontrivial'] += 1
        try:
            bad = clauses_for_pair(sa, es, a, b, costs)
        except Exception as e:
            bad = [('no-exception', 'pero_ocr.sequence_alignment', {}, 'raised %r' % (e,), 'no exception')]
        for clause, fn, extra, got, want in bad:
            out['failures'].append({'clause': clause, 'function': fn, 'input': dict(extra, source=a, target=b),
                                    'observed': got, 'expected': want, 'tag': tag})
        if len(out['samples']) < 2 and a and b:
            out['samples'].append({'source': a, 'target': b, 'lev': L.lev(a, b), 'substring': L.substring_distance(a, b)})
    return out


def run_pairs(ctx, name, alphabet, max_len, costs, tag):
    ss = seqs(alphabet, max_len)
    pairs = bounded.order([(a, b) for a in ss for b in ss], ctx.seed)
    res = bounded.pmap(_chunk_pairs, [(c, costs, tag) for c in bounded.shard(pairs, 32)])
    fails = []
    seen = set()
    for f in sorted(res['failures'], key=lambda f: (len(f['input']['source']) + len(f['input']['target']), str(f['input']))):
        s = sig('rt', f['function'], f['clause'])
        if s in seen:
            continue
        seen.add(s)
        fails.append(Failure(s, 'run-time contract %s of %s fails on %s' % (f['clause'], f['function'], f['input']),
                             function=f['function'], input=f['input'], observed=f['observed'], expected=f['expected'],
                             clause=f['clause']))
    ctx.add_bounded(name, 'all pairs of sequences of length <= %d over %r; costs %r' % (max_len, list(alphabet), costs),
                    res['evaluations'], res['nontrivial'], True, res['samples'], fails,
                    rule='every pair of sequences over the alphabet up to the length bound; non-trivial = both non-empty and different',
                    clause='all C13 clauses as run-time contract on the real functions')
    return res


def long_check(ctx):
    """costs beyond 16 bits: sequences of 40 000 symbols against the empty sequence, and their
    summaries added up (a narrowed element type of the DP row is exact on every short pair)"""
    core.setup_repo_path()
    from pero_ocr import sequence_alignment as sa
    from pero_ocr import error_summary as es
    n = 40000
    cases = [('', 'b' * n, (1, 1, 1), n), ('a' * n, '', (1, 1, 1), n), ('', 'b' * n, (4, 3, 2), 3 * n), ('a' * n, '', (4, 3, 2), 2 * n)]
    fails = []
    for a, b, c, want in cases:
        try:
            got = sa.levenshtein_distance(a, b, *c)
        except Exception as e:
            got = repr(e)
        if got != want:
            fails.append(Failure(sig('rt', 'levenshtein_distance', 'distance-is-minimum'), 'distance of sequences of lengths %d and %d with costs %r is %r, not %r' % (len(a), len(b), c, got, want),
                                 function='levenshtein_distance', input={'source_len': len(a), 'target_len': len(b), 'costs': list(c), 'long': True}, observed=repr(got), expected=repr(want), clause='distance-is-minimum'))
    try:
        sums = [es.ErrorsSummary.from_lists(list('a' * n), []), es.ErrorsSummary.from_lists([], list('b' * n)), es.ErrorsSummary.from_lists(list('a' * n), [])]
        agg = es.ErrorsSummary.aggregate(sums)
        got = (int(agg.nb_errors), int(agg.nb_subs) + int(agg.nb_inss) + int(agg.nb_dels), int(agg.ref_len))
        want = (3 * n, 3 * n, 2 * n)
    except Exception as e:
        got, want = repr(e), 'no exception'
    if got != want:
        fails.append(Failure(sig('rt', 'ErrorsSummary.aggregate', 'aggregation-is-addition'), 'three summaries of 40 000 errors each add up to (errors, subs+inss+dels, ref_len) = %r, not %r' % (got, want),
                             function='ErrorsSummary.aggregate', input={'long': True}, observed=repr(got), expected=repr(want), clause='aggregation-is-addition'))
    ctx.add_bounded('long-sequences', '4 pairs with 40 000 symbols against the empty sequence (costs (1,1,1) and (4,3,2)) and the aggregate of three summaries with 40 000 errors each',
                    len(cases) + 1, len(cases) + 1, False, [{'source_len': n, 'target_len': 0}], fails[:2], rule='fixed cases', clause='distances and totals beyond 16 bits')


FORMS = [('list', list), ('tuple', tuple), ('iterator', iter), ('generator', lambda p: (x for x in p))]


def aggregate_check(ctx):
    core.setup_repo_path()
    from pero_ocr import error_summary as es
    ss = seqs('ab', 2)
    n = 0
    fails = []
    samples = []
    try:
        sums = [es.ErrorsSummary.from_lists(a, b) for a in ss for b in ss]
    except Exception as e:          # the line summaries cannot even be built: reported as a contract failure, not a checker crash
        ctx.add_bounded('aggregate', 'all subsets of size <= 3 of the 49 summaries of pairs over {a,b}^<=2', 1, 0, False, [],
                        [Failure(sig('rt', 'ErrorsSummary.from_lists', 'no-exception'), 'ErrorsSummary.from_lists raised %r' % (e,),
                                 function='ErrorsSummary.from_lists', input={'pairs': 'all pairs over {a,b}^<=2'}, observed=repr(e), clause='no-exception')],
                        rule='subsets of line summaries', clause='aggregating summaries is plain addition')
        return
    for k in (0, 1, 2, 3):
        for combo in itertools.islice(itertools.combinations(range(len(sums)), k), 400):
            part = [sums[i] for i in combo]
            # the summaries are handed over as a list, a tuple, an iterator or a generator in turn (any iterable is a legal
            # argument: the function needs one pass)
            form = FORMS[n % len(FORMS)]
            agg = es.ErrorsSummary.aggregate(form[1](part))
            n += 1
            want = tuple(sum(getattr(s, f) for s in part) for f in
                         ('nb_lines_summarized', 'ref_len', 'nb_errors', 'nb_subs', 'nb_inss', 'nb_dels'))
            got = tuple(getattr(agg, f) for f in
                        ('nb_lines_summarized', 'ref_len', 'nb_errors', 'nb_subs', 'nb_inss', 'nb_dels'))
            conf_ok = True
            for key in set(k2 for s in part for k2 in s.confusions):
                tot = {}
                for s in part:
                    for h, cnt in s.confusions.get(key, {}).items():
                        tot[h] = tot.get(h, 0) + cnt
                if dict(agg.confusions.get(key, {})) != tot:
                    conf_ok = False
            if got != want or not conf_ok:
                fails.append(Failure(sig('rt', 'ErrorsSummary.aggregate', 'aggregation-is-addition'),
                                     'aggregate of %d summaries is not the sum' % k, function='ErrorsSummary.aggregate',
                                     input={'combo': list(combo), 'given_as': form[0]}, observed=repr(got), expected=repr(want),
                                     clause='aggregation-is-addition'))
            if len(samples) < 2 and k == 2:
                samples.append({'summaries': [str(p) for p in part], 'aggregate': str(agg)})
    ctx.add_bounded('aggregate', 'all subsets of size <= 3 (first 400 per size) of the 49 summaries of pairs over {a,b}^<=2, given as list / tuple / iterator / generator in turn',
                    n, max(n - 1, 0), False, samples, fails[:1], rule='subsets of line summaries; non-trivial = non-empty subset',
                    clause='aggregating summaries is plain addition')


def run(ctx):
    from pyvc import run as vrun
    from contracts import seqalign
    thorough = ctx.tier == 'thorough'
    ctx.level = 'proof'
    ctx.explanation = (
        'Contracts on the real functions of pero_ocr/sequence_alignment.py are turned into verification conditions by '
        'the pyvc generator (re-reading the working tree) and discharged by z3 (cvc5 as second solver): distance = '
        'Wagner-Fischer value LEV(n,m) for all sequences and all costs >= 1; every returned alignment (pairs / path) '
        'projects onto both inputs and costs LEV(n,m) (backtrack-matrix certificate invariant); substring distance = '
        'min_i SEL(i,m) (Sellers); ErrorsSummary.aggregate: every total is the sum over the list; edit_stats_for_alignment: the '
        'five counts are the suffix-recursive counts of the alignment; ErrorsSummary.from_lists (over the contracts of '
        'levenshtein_distance, levenshtein_alignment and edit_stats_for_alignment): nb_errors is the unit-cost distance and '
        'nb_subs + nb_inss + nb_dels == nb_errors, with the lemmas LEV(ref,hyp) == LEV(hyp,ref) and cost == number of unequal '
        'pairs proved by induction.  levenshtein_alignment_substring: Sellers matrix with a backtrack certificate, the best end '
        'row tracked in an extra column; the result is (walk back from the best end) ++ (free trailing source symbols), the walk '
        'projects onto source[:end] and the whole target, its first `lead` pairs are free deletions and cost(walk) - lead*del == '
        'BEST(n), the optimum over all substrings; after the argument swap the pairs are turned round.')
    keys = [(seqalign.PATH, k) for k in PROOF_KEYS] + [(seqalign.PATH, 'edit_stats_for_alignment'),
                                                      (seqalign.ES_PATH, 'ErrorsSummary.aggregate'),
                                                      (seqalign.ES_PATH, 'ErrorsSummary.from_lists')]
    reps = vrun.verify(keys, seqalign.CONTRACTS, root=core.repo_root(), both=thorough)
    ctx.add_proof_reports(reps, clause='distance / alignment / path / substring distance equal the spec functions')
    # spec validation: LEV means "minimum over all edit scripts"
    n, bad = L.validate(max_len=4 if thorough else 3)
    ctx.extra['spec_validation'] = {'cases': n, 'mismatches': len(bad),
                                    'what': 'Wagner-Fischer recurrence vs exhaustive minimum over all edit scripts'}
    if bad:
        ctx.broken.append('spec function lev disagrees with its brute-force definition on %r' % (bad[0],))
    ctx.trusted.append('spec validation (bounded): LEV recurrence == min over edit scripts on %d cases' % n)
    # bounded run-time contract on the real functions
    run_pairs(ctx, 'pairs-abc', 'abc', 4 if thorough else 3, COSTS_T if thorough else COSTS_Q, 'str')
    run_pairs(ctx, 'pairs-int', (0, 1, -7), 3 if thorough else 2, COSTS_Q, 'int')
    run_pairs(ctx, 'pairs-mixed', ('a', 1, '1'), 3 if thorough else 2, COSTS_Q[:1], 'mixed')
    aggregate_check(ctx)
    long_check(ctx)
    bounded.close()
    ctx.trusted.append('A5: np.fromiter(seq, dtype=object) preserves element identity/equality (checked at run time on str, int and mixed symbols)')
    if thorough:
        selftest.run(ctx, MUTANTS)


def replay(entry):
    core.setup_repo_path()
    from pero_ocr import sequence_alignment as sa
    from pero_ocr import error_summary as es
    inp = entry.get('input') or {}
    if inp.get('long'):
        class _C:
            def add_bounded(self, *a, **k):
                self.f = a[6] if len(a) > 6 else k.get('failures', [])
        c_ = _C()
        long_check(c_)
        for f in c_.f:
            print('REPLAY-FAIL', f.what if hasattr(f, 'what') else f)
        print('replay: %d problem(s) on the long sequences' % len(c_.f))
        return 1 if c_.f else 0
    if 'combo' in inp:
        ss = seqs('ab', 2)
        sums = [es.ErrorsSummary.from_lists(a, b) for a in ss for b in ss]
        part = [sums[i] for i in inp['combo']]
        agg = es.ErrorsSummary.aggregate(dict(FORMS)[inp.get('given_as', 'list')](part))
        fields = ('nb_lines_summarized', 'ref_len', 'nb_errors', 'nb_subs', 'nb_inss', 'nb_dels')
        got, want = tuple(getattr(agg, f) for f in fields), tuple(sum(getattr(x, f) for x in part) for f in fields)
        print('replay: aggregate of summaries %r given as a %s: totals %r, sums %r' % (inp['combo'], inp.get('given_as', 'list'), got, want))
        return 1 if got != want else 0
    if 'source' not in inp:
        print('replay: obligation %s has no concrete input; solver output:\n%s' % (entry.get('obligation'), entry.get('solver_output')))
        return 1
    costs = [tuple(inp['costs'])] if 'costs' in inp else COSTS_Q[:1]
    bad = clauses_for_pair(sa, es, inp['source'], inp['target'], costs)
    for b in bad:
        print('REPLAY-FAIL', b)
    print('replay: %d clause(s) fail on %r' % (len(bad), inp))
    return 1 if bad else 0
