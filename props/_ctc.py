"""shared bounded harness for the CTC decoder properties (C02, C03): runs the real CTCPrefixLogRawNumpyDecoder on every
matrix of a finite grid and checks its bag against the executable specs in specs/ctc.py."""
import itertools
import math
from specs import ctc as S

LETTERS2 = ['a', 'b', '<BLANK>']
ALPHABET = 'abcdefghijklmnopqrstuvwxyz'


def wide_alphabet_matrices():
    """13 letters + blank, only the symbols with indices 1, 2, 11, 12 (and blank) ever probable: prefixes such as (1, 12) and
    (11, 2), or (11,) and (1, 1), differ although their indices read alike"""
    C = 14

    def row(d):
        r = [S.NEG_INF] * C
        for c, p in d.items():
            r[c] = math.log(p)
        return r
    rows = [row({1: 0.2, 2: 0.2, 11: 0.2, 12: 0.2, 13: 0.2}), row({1: 0.5, 12: 0.25, 13: 0.25}), row({11: 0.5, 2: 0.25, 13: 0.25}),
            row({1: 0.25, 11: 0.25, 13: 0.5})]
    mats = [[rows[i] for i in m] for T in (3, 4) for m in itertools.product(range(len(rows)), repeat=T)]
    return [m for k, m in enumerate(mats) if len(m) == 3 or k % 5 == 0]
EPS = 1e-7


def identity_selector(np):
    return lambda logits: (np.arange(logits.shape[0]),)


def grid(T_max, zero_variants=(S.NEG_INF,), denom=4, C=3, extreme_only_from=None):
    """all matrices with rows from the quarter-probability distributions over C classes"""
    out = []
    for zero in zero_variants:
        rows = S.quarter_rows(C, zero=zero, denom=denom)
        if zero != S.NEG_INF:
            # renormalise so that the -80 variant is still a proper distribution up to 1e-30
            pass
        for T in range(1, T_max + 1):
            use = rows
            if extreme_only_from is not None and T >= extreme_only_from:
                use = [r for r in rows if sum(1 for x in r if x in (S.NEG_INF, zero)) >= C - 2]
            for m in itertools.product(range(len(use)), repeat=T):
                out.append([use[i] for i in m])
    return out


def decode(np, D, logits, k, selector=None, lm=None, scale=1.0, bonus=0.0, eos=False, init=None, want_h=False, dec=None):
    kw = {}
    if selector is not None:
        kw['relevant_logits_selector'] = selector
    dec = dec or D.CTCPrefixLogRawNumpyDecoder(LETTERS2 if len(logits[0]) == 3 else list(ALPHABET[:len(logits[0]) - 1]) + ['<BLANK>'], k=k, lm=lm, lm_scale=scale, insertion_bonus=bonus, **kw)
    arr = np.asarray(logits, dtype=float)
    if want_h:
        boh, h = dec(arr, model_eos=eos, return_h=True, init_h=init)
        return boh, h
    return dec(arr, model_eos=eos, init_h=init), None


def check_c02(np, D, logits, k, pruning, dec=None):
    """returns list of (clause, detail). pruning=False -> identity selector; dec: a decoder that has decoded other lines before"""
    C = len(logits[0])
    blank = C - 1
    letters = ALPHABET[:C - 1]
    sel = None if pruning else identity_selector(np)
    boh, _ = decode(np, D, logits, k, selector=sel, dec=dec)
    bad = []
    hyps = list(boh)
    trs = [h.transcript for h in hyps]
    if len(set(trs)) != len(trs):
        bad.append(('distinct-transcripts', 'duplicates in %r' % trs))
    for h in hyps:
        w = [letters.index(ch) for ch in h.transcript]
        true = S.ctc_logprob(logits, w, blank)
        if h.vis_sc > true + EPS:
            bad.append(('no-overcount', '%r: vis_sc %.9f > CTC %.9f' % (h.transcript, h.vis_sc, true)))
    py_sel = None
    if pruning:
        py_sel = lambda row: [i for i, x in enumerate(row) if x > -10]
    ref, amb = S.ref_beam_search(logits, k, blank, selector=py_sel)
    unpruned = (not pruning or all(x > -10 or x == S.NEG_INF for r in logits for x in r[:-1]) and False)
    if not amb:
        got = {h.transcript: h.vis_sc for h in hyps}
        want = {''.join(letters[c] for c in p): S.lse(v[0], v[1]) for p, v in ref.items()}
        if set(got) != set(want):
            bad.append(('equals-reference-beam', 'transcripts %r vs reference %r' % (sorted(got), sorted(want))))
        else:
            for t in got:
                if abs(got[t] - want[t]) > 1e-6 and not (got[t] == want[t]):
                    bad.append(('equals-reference-beam', '%r: score %.9f vs reference %.9f' % (t, got[t], want[t])))
    if not pruning and k >= 10 ** 5:
        # nothing pruned: every transcript of non-zero probability, with its exact CTC log-probability
        T = len(logits)
        got = {h.transcript: h.vis_sc for h in hyps}
        used = [c for c in range(C - 1) if any(r[c] > S.NEG_INF for r in logits)]     # the other symbols have probability 0
        for w in (tuple(used[i] for i in w0) for w0 in S.all_transcripts(T, len(used))):
            true = S.ctc_logprob(logits, w, blank)
            t = ''.join(letters[c] for c in w)
            if true > S.NEG_INF and t not in got:
                bad.append(('exact-when-unpruned', 'transcript %r with p=%.4g missing' % (t, math.exp(true))))
            elif t in got and abs(got[t] - true) > 1e-6:
                bad.append(('exact-when-unpruned', '%r: score %.9f, CTC %.9f' % (t, got[t], true)))
    return bad


def check_guard(np, D):
    """unnormalised input is rejected, before anything else"""
    bad = []
    for arr in ([[math.log(0.5), math.log(0.4), math.log(0.5)]], [[0.0, 0.0, 0.0]], [[-1.0, -2.0, -80.0], [math.log(0.3)] * 3]):
        for dec in (D.CTCPrefixLogRawNumpyDecoder(LETTERS2, k=2), D.GreedyDecoder(LETTERS2)):
            try:
                dec(np.asarray(arr, dtype=float))
                bad.append(('rejects-unnormalised', '%s accepted %r' % (type(dec).__name__, arr)))
            except ValueError:
                pass
    return bad
