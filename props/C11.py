"""C11 — lines are assigned to the regions they lie in, clipped, with unique ids.  Partial (DESIGN.md §5 C11).
Proved (pyvc, slice mode): the bounding-box pre-filter of assign_lines_to_regions never rejects a (line, region) pair whose
boxes overlap with positive area.  Bounded: shapely clauses on a finite grid of rectilinear regions x lines, and the
LayoutExtractor option combinations driven by a stub detector (ids distinct on the page)."""
import itertools
from vf import core, bounded, selftest
from vf.core import Failure, sig

H = 'pero_ocr/layout_engines/layout_helpers.py'
P = 'pero_ocr/document_ocr/page_parser.py'
MUTANTS = [
    {'name': 'original-defect: orientation passes reuse line numbers', 'file': P,
     'old': "                    if rot > 0 and not self.detect_regions:", 'new': "                    if False:"},
    {'name': 'pre-filter compares y extent with x extent', 'file': H,
     'old': "            max_line[:, np.newaxis, 0] <= min_region[np.newaxis, :, 0],", 'new': "            max_line[:, np.newaxis, 0] <= min_region[np.newaxis, :, 1],"},
    {'name': 'shortest piece kept', 'file': H, 'old': "        baseline_is = baseline_is.geoms[np.argmax(lengths)]", 'new': "        baseline_is = baseline_is.geoms[np.argmin(lengths)]"},
    {'name': 'outline not clipped to the region', 'file': H, 'old': "        return np.asarray(baseline_is.coords), np.asarray(textline_is.exterior.coords)",
     'new': "        return np.asarray(baseline_is.coords), np.asarray(textline_shpl.exterior.coords)"},
    {'name': 'line id from the region-local counter of the previous region', 'file': H, 'old': "                id='{}-l{:03d}'.format(region.id, line_id+1),", 'new': "                id='{}-l{:03d}'.format(region.id, len(region.lines)+1 if len(regions) == 1 else 1),"},
    {'name': 'lines shorter than 2 px also placed / short ones dropped below 20 px', 'file': H, 'old': "and baseline_is.length > 2:", 'new': "and baseline_is.length > 20:"},
]


def regions_pool(np):
    sq = [[10, 10], [110, 10], [110, 110], [10, 110]]
    ell = [[10, 10], [110, 10], [110, 50], [50, 50], [50, 110], [10, 110]]
    u = [[10, 10], [40, 10], [40, 80], [80, 80], [80, 10], [110, 10], [110, 110], [10, 110]]
    small = [[30, 30], [60, 30], [60, 60], [30, 60]]
    far = [[200, 10], [260, 10], [260, 60], [200, 60]]
    over = [[90, 20], [170, 20], [170, 100], [90, 100]]
    # a frame (a box with a hole) traced as ONE self-touching ring: not a valid polygon; its convex hull covers the hole
    frame = [[10, 10], [110, 10], [110, 110], [10, 110], [10, 10], [35, 35], [35, 85], [85, 85], [85, 35], [35, 35]]
    return {'square': sq, 'L': ell, 'U': u, 'nested': small, 'far': far, 'overlapping': over, 'frame': frame}


def lines_pool():
    out = []
    for y in (20, 45, 70, 95, 130):
        for x0, x1 in ((15, 35), (15, 105), (-20, 150), (45, 75), (85, 108), (120, 180), (205, 250), (60, 61), (25, 150), (-20, 95)):
            out.append([[x0, y], [x1, y]])
    out += [[[0, 0], [120, 120]], [[20, 100], [100, 20]], [[15, 15], [60, 40], [105, 20]], [[20, 20], [20, 100]]]
    # baselines with a small back-step: baseline_to_textline gives a self-intersecting (invalid) outline for them, which the
    # assignment has to repair without losing the part of the outline that covers the baseline
    out += [[[15, 60], [80, 60], [70, 64], [105, 64]], [[15, 60], [60, 60], [50, 70], [105, 70]]]
    # three-point baselines that are straight up to float round-off (what rotating a page forth and back leaves behind): GEOS
    # may return the intersection of such a line with a polygon that CONTAINS it as two touching pieces
    out += [[[45, 60], [75, 60]]]        # lies in the hole of the frame region (and inside the square / the U's gap)
    out += [[[15, 60], [60, 60.00000000000006], [105, 60]], [[15.000000000000002, 45.00000000000001], [60.00000000000001, 45.00000000000001], [105.00000000000001, 45.000000000000014]],
            [[15, 59.99999999999999], [59.99999999999999, 60], [104.99999999999999, 59.99999999999999]]]
    return out


def textline_of(np, helpers, b, h=(8.0, 3.0)):
    return helpers.baseline_to_textline(np.asarray(b, dtype=float), list(h))


def check_assign(np, sg, layout, helpers, region_names, line_idx):
    pool = regions_pool(np)
    lp = lines_pool()
    bad = []
    regions = [layout.RegionLayout('r%d' % k, np.asarray(pool[n], dtype=float)) for k, n in enumerate(region_names)]
    bl = [np.asarray(lp[i], dtype=float) for i in line_idx]
    hl = [[8.0, 3.0]] * len(bl)
    tl = [textline_of(np, helpers, b) for b in bl]
    out = helpers.assign_lines_to_regions(bl, hl, tl, regions)
    ids = [l.id for r in out for l in r.lines]
    if len(set(ids)) != len(ids):
        bad.append(('ids-distinct', 'duplicate line ids %r' % sorted(ids)))
    for r in out:
        rp = sg.Polygon(r.polygon)
        if not rp.is_valid:
            rp = rp.convex_hull
        for l in r.lines:
            base = sg.LineString(l.baseline)
            if not rp.buffer(1e-6).contains(base):
                bad.append(('placed-line-inside-region', 'line %s baseline %r leaves region %s' % (l.id, np.asarray(l.baseline).tolist(), r.id)))
            if not rp.buffer(1e-6).contains(sg.Polygon(l.polygon)):
                bad.append(('outline-clipped', 'line %s outline is not inside region %s' % (l.id, r.id)))
            # the stored outline is the detected outline clipped to the region: it still covers the stored baseline (the detected
            # outline is built around the baseline: ascender above, descender below) up to the clipping at the region border
            # (checked for lines that lie wholly inside the region: for a line crossing a concave region several times the kept outline
            # piece — largest area — and the kept baseline piece — longest — are chosen independently)
            op = sg.Polygon(l.polygon)
            if op.is_valid and rp.buffer(-1e-9).contains(sg.LineString(bl[int(l.id.split('-l')[1]) - 1])) and not op.buffer(1.0).contains(base):
                bad.append(('outline-covers-baseline', 'line %s: stored outline (area %.0f) does not cover its own baseline %r'
                            % (l.id, op.area, np.asarray(l.baseline).round(1).tolist())))
            src = int(l.id.split('-l')[1]) - 1
            if not sg.LineString(bl[src]).buffer(1e-6).contains(base):
                bad.append(('piece-of-detected-baseline', 'line %s is not a piece of detected baseline %d' % (l.id, src)))
        for i, b in enumerate(bl):
            ls = sg.LineString(b)
            placed = [l for l in r.lines if int(l.id.split('-l')[1]) - 1 == i]
            inter = rp.intersection(ls)
            if inter.geom_type == 'MultiLineString':
                import shapely.ops
                inter = shapely.ops.linemerge(inter)      # pieces that merely touch are one piece
            exact0 = sg.Polygon(r.polygon)
            if not exact0.is_valid:
                exact0 = exact0.buffer(0)
            if exact0.buffer(-1e-9).contains(ls) and ls.length > 2:
                if len(placed) != 1 or np.asarray(placed[0].baseline).shape != b.shape or np.abs(np.asarray(placed[0].baseline) - b).max() > 1e-9:
                    bad.append(('inside-placed-unchanged', 'baseline %d lies inside region %s but was placed as %r' % (i, r.id, [np.asarray(p.baseline).tolist() for p in placed])))
            exact = sg.Polygon(r.polygon)
            if not exact.is_valid:
                exact = exact.buffer(0)       # the area the ring really encloses (a self-touching frame keeps its hole)
            if not exact.intersects(ls) and placed:
                bad.append(('untouched-never-placed', 'baseline %d does not touch region %s but was placed' % (i, r.id)))
            if inter.geom_type == 'MultiLineString' and placed:
                longest = max(g.length for g in inter.geoms)
                if abs(sg.LineString(placed[0].baseline).length - longest) > 1e-6:
                    bad.append(('longest-piece-kept', 'baseline %d enters region %s several times; kept piece of length %.3f, longest %.3f'
                                % (i, r.id, sg.LineString(placed[0].baseline).length, longest)))
            if len(placed) > 1:
                bad.append(('one-piece-per-region', 'baseline %d placed %d times in region %s' % (i, len(placed), r.id)))
    return bad


class StubDetector:
    def __init__(self, np, helpers, stray=False):
        self.np, self.helpers, self.stray = np, helpers, stray

    def detect(self, img, rot=0):
        np = self.np
        polys = [np.asarray([[10, 10], [110, 10], [110, 110], [10, 110]], dtype=float), np.asarray([[130, 10], [230, 10], [230, 110], [130, 110]], dtype=float)]
        bls = [np.asarray([[15, 30 + 5 * rot], [105, 30 + 5 * rot]], dtype=float), np.asarray([[135, 60 + 5 * rot], [225, 60 + 5 * rot]], dtype=float),
               np.asarray([[15, 80], [105, 82 + rot]], dtype=float)]
        if self.stray and rot == 0:
            # the first line the detector reports lies in the margin, outside every region: it is placed nowhere, and the
            # orientations do not report the same number of lines
            bls.insert(0, np.asarray([[15, 130], [105, 131]], dtype=float))
        hs = [[8.0, 3.0]] * len(bls)
        return polys, bls, hs, [textline_of(np, self.helpers, b) for b in bls]


def check_reassign(np, sg, layout, helpers):
    """the same region OBJECTS take lines twice and their polygons are replaced in between (as retrace_region / a second extractor
    pass do): the second batch of lines is placed with respect to the polygon the region has THEN"""
    bad = []
    old_poly = np.asarray([[10, 10], [210, 10], [210, 110], [10, 110]], dtype=float)
    new_poly = np.asarray([[60, 10], [120, 10], [120, 110], [60, 110]], dtype=float)
    for first_round in (True, False):
        region = layout.RegionLayout('r1', old_poly.copy())
        if first_round:
            b0 = [np.asarray([[20, 30], [200, 30]], dtype=float)]
            helpers.assign_lines_to_regions(b0, [[8.0, 3.0]], [textline_of(np, helpers, b0[0])], [region])
        region.polygon = new_poly.copy()
        region.lines = []
        b1 = [np.asarray([[5, 60], [230, 62]], dtype=float)]
        out = helpers.assign_lines_to_regions(b1, [[8.0, 3.0]], [textline_of(np, helpers, b1[0])], [region])
        rp = sg.Polygon(new_poly)
        for l in out[0].lines:
            if not rp.buffer(1e-6).contains(sg.LineString(l.baseline)):
                bad.append(('placed-line-inside-region', 'after the polygon of region r1 was replaced (lines assigned before: %r) the line placed in it '
                            'runs x %.0f..%.0f, the region x 60..120' % (first_round, np.asarray(l.baseline)[:, 0].min(), np.asarray(l.baseline)[:, 0].max())))
            if not rp.buffer(1e-6).contains(sg.Polygon(l.polygon)):
                bad.append(('outline-clipped', 'after the polygon of region r1 was replaced the outline of the line placed in it is not inside it'))
        if len(out[0].lines) != 1:
            bad.append(('inside-line-placed', '%d lines placed in the replaced polygon, 1 expected' % len(out[0].lines)))
    return bad


def check_extractor(np, layout, helpers, pp, detect_regions, multi, merge, stray=False):
    le = pp.LayoutExtractor.__new__(pp.LayoutExtractor)
    le.detect_regions, le.detect_lines, le.multi_orientation, le.merge_lines = detect_regions, True, multi, merge
    le.detect_straight_lines_in_regions = le.adjust_heights = le.adjust_baselines = False
    le.engine = StubDetector(np, helpers, stray)
    pl = layout.PageLayout(id='p', page_size=(150, 260))
    if not detect_regions:
        for k, poly in enumerate(le.engine.detect(None)[0]):
            pl.regions.append(layout.RegionLayout('r%d' % (k + 1), poly))
    pl = le.process_page(np.zeros((150, 260, 3), dtype=np.uint8), pl)
    if not detect_regions:
        # a layout that already carries lines (a second pass over the same page, or a page loaded from PAGE XML with lines) is
        # analysed again: the lines found now replace the old ones
        pl = le.process_page(np.zeros((150, 260, 3), dtype=np.uint8), pl)
    ids = [l.id for l in pl.lines_iterator()]
    bad = []
    if len(set(ids)) != len(ids):
        bad.append(('ids-distinct', 'line ids on the page %r (detect_regions=%r, multi_orientation=%r, merge_lines=%r, stray line in the margin=%r)' % (ids, detect_regions, multi, merge, stray)))
    want = (3 if multi else 1) * 3
    if not merge and len(ids) != want:
        bad.append(('all-detected-lines-placed', '%d lines on the page, detector produced %d inside regions' % (len(ids), want)))
    rids = [r.id for r in pl.regions]
    if len(set(rids)) != len(rids):
        bad.append(('ids-distinct', 'region ids %r' % rids))
    return bad


def _chunk(items):
    core.setup_repo_path()
    import warnings
    warnings.simplefilter('ignore')
    import numpy as np
    import shapely.geometry as sg
    from pero_ocr.core import layout
    from pero_ocr.layout_engines import layout_helpers as helpers
    import io, contextlib
    out = {'evaluations': 0, 'nontrivial': 0, 'failures': [], 'samples': []}
    for rn, li in items:
        out['evaluations'] += 1
        out['nontrivial'] += 1 if len(rn) >= 1 and len(li) >= 1 else 0
        try:
            with contextlib.redirect_stdout(io.StringIO()):
                bad = check_assign(np, sg, layout, helpers, rn, li)
        except Exception as e:
            bad = [('no-exception', 'raised %r' % (e,))]
        for clause, detail in bad:
            out['failures'].append({'clause': clause, 'input': {'regions': list(rn), 'lines': list(li)}, 'observed': detail})
        if len(out['samples']) < 2 and len(rn) == 2:
            out['samples'].append({'regions': list(rn), 'lines': list(li)})
    return out


def plans(thorough):
    names = list(regions_pool(None) if False else ['square', 'L', 'U', 'nested', 'far', 'overlapping', 'frame'])
    nl = len(lines_pool())
    out = []
    for rn in [()] + [(n,) for n in names] + list(itertools.combinations(names, 2)) + ([tuple(names)] if True else []):
        for i in range(nl):
            out.append((rn, (i,)))
        for pair in itertools.combinations(range(0, nl, 3 if not thorough else 1), 2):
            if thorough or (pair[0] + pair[1]) % 4 == 0:
                out.append((rn, pair))
        out.append((rn, tuple(range(0, nl, 2))))
        out.append((rn, ()))
    return out


def run(ctx):
    thorough = ctx.tier == 'thorough'
    ctx.level = 'other'
    ctx.explanation = (
        'Partial / hybrid. PROVED (slice mode, pyvc): the bounding-box pre-filter marks every (line, region) pair whose boxes overlap with '
        'positive area as a candidate, so it can only drop pairs whose geometry cannot intersect in the interior. BOUNDED: on a grid of '
        'rectilinear regions (square, L, U, nested, far, overlapping; singly, in pairs, all six) x horizontal / diagonal / poly-line baselines '
        '(inside, outside, crossing, crossing the U twice, 1 px long): placed baselines lie inside the region and are pieces of the detected '
        'baseline, outlines are clipped, inside lines are placed unchanged, untouched ones never, the longest piece is kept, ids are distinct; '
        'LayoutExtractor.process_page with a stub detector for every combination of detect-regions / multi-orientation / merge-lines gives '
        'distinct line and region ids. shapely semantics are external (A6).')
    core.setup_repo_path()
    try:
        from contracts import regions as rc
        from pyvc import solve
        reps = rc.reports(core.repo_root())
        for r in reps:
            for vc in r.vcs:
                vc.func = r.name
        solve.discharge([vc for r in reps for vc in r.vcs], {r.name: r.axioms for r in reps})
        ctx.add_proof_reports(reps, clause='bounding-box pre-filter never rejects overlapping boxes')
    except ImportError:
        ctx.notes.append('contracts/regions.py not present: bounded only')
    import warnings
    warnings.simplefilter('ignore')
    import numpy as np
    from pero_ocr.core import layout
    from pero_ocr.layout_engines import layout_helpers as helpers
    from pero_ocr.document_ocr import page_parser as pp
    fails = []
    n = 0
    import io, contextlib
    for dr, mo, mg, stray in itertools.product((False, True), repeat=4):
        n += 1
        try:
            with contextlib.redirect_stdout(io.StringIO()):
                bad = check_extractor(np, layout, helpers, pp, dr, mo, mg, stray)
        except Exception as e:
            bad = [('no-exception', 'LayoutExtractor raised %r (detect_regions=%r multi=%r merge=%r stray=%r)' % (e, dr, mo, mg, stray))]
        for clause, detail in bad:
            if not any(f.signature == sig('rt', 'LayoutExtractor.process_page', clause) for f in fails):
                fails.append(Failure(sig('rt', 'LayoutExtractor.process_page', clause), detail, function='LayoutExtractor.process_page',
                                     input={'detect_regions': dr, 'multi_orientation': mo, 'merge_lines': mg, 'stray': stray}, observed=detail, clause=clause))
    import shapely.geometry as sg_
    n += 2
    try:
        with contextlib.redirect_stdout(io.StringIO()):
            bad = check_reassign(np, sg_, layout, helpers)
    except Exception as e:
        bad = [('no-exception', 'assign_lines_to_regions raised %r on a region whose polygon was replaced' % (e,))]
    for clause, detail in bad:
        if not any(f.signature == sig('rt', 'assign_lines_to_regions:reassign', clause) for f in fails):
            fails.append(Failure(sig('rt', 'assign_lines_to_regions:reassign', clause), detail, function='assign_lines_to_regions',
                                 input={'reassign': True}, observed=detail, clause=clause))
    ctx.add_bounded('layout-extractor-options', 'stub detector (with / without a first line in the margin that no region takes) x detect_regions x multi_orientation x merge_lines; lines assigned to a region object again after its polygon was replaced', n, n - 2, True,
                    [{'detect_regions': False, 'multi_orientation': True, 'merge_lines': False}], fails, rule='all 16 combinations', clause='line and region ids distinct on the page')
    items = bounded.order(plans(thorough), ctx.seed)
    res = bounded.pmap(_chunk, bounded.shard(items, 32))
    seen = set()
    fails = []
    for f in sorted(res['failures'], key=lambda f: (len(f['input']['regions']) + len(f['input']['lines']), str(f['input']))):
        s = sig('rt', 'assign_lines_to_regions', f['clause'])
        if s in seen:
            continue
        seen.add(s)
        fails.append(Failure(s, 'assignment contract %s fails: %s on %s' % (f['clause'], f['observed'], f['input']), function='assign_lines_to_regions',
                             input=f['input'], observed=f['observed'], clause=f['clause']))
    ctx.add_bounded('assign-lines', '6 rectilinear regions (singly, pairs, all) x 54 baselines (incl. crossings of the U whose first piece is the shorter / the longer one) (singly, strided pairs, half of all)', res['evaluations'], res['nontrivial'], False,
                    res['samples'], fails, rule='every configuration of the stated grid; non-trivial = at least one region and one line', clause='shapely clauses on the result')
    bounded.close()
    ctx.trusted += ['A6: shapely predicates and intersections', 'float32 rounding of the bounding boxes (A2)']
    if thorough:
        selftest.run(ctx, MUTANTS)


def replay(entry):
    core.setup_repo_path()
    inp = entry.get('input') or {}
    if 'regions' in inp:
        r = _chunk([(tuple(inp['regions']), tuple(inp['lines']))])
        bad = [(f['clause'], f['observed']) for f in r['failures']]
    elif inp.get('reassign'):
        import numpy as np
        import shapely.geometry as sg
        from pero_ocr.core import layout
        from pero_ocr.layout_engines import layout_helpers as helpers
        bad = check_reassign(np, sg, layout, helpers)
    elif 'detect_regions' in inp:
        import numpy as np
        from pero_ocr.core import layout
        from pero_ocr.layout_engines import layout_helpers as helpers
        from pero_ocr.document_ocr import page_parser as pp
        bad = check_extractor(np, layout, helpers, pp, inp['detect_regions'], inp['multi_orientation'], inp['merge_lines'], inp.get('stray', False))
    else:
        print('replay: obligation %s has no concrete input; solver output:\n%s' % (entry.get('obligation'), entry.get('solver_output')))
        return 1
    for b in bad:
        print('REPLAY-FAIL', b)
    print('replay: %d problem(s) on %r' % (len(bad), inp))
    return 1 if bad else 0
