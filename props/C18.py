"""C18 — detection maps decode to one line per ridge, in original-image coordinates.  Partial (DESIGN.md §5 C18).
Proved (pyvc, bounded-symbolic in the number of lists, unbounded in the number of points): LayoutEngine.rotate_layout maps
every point of the rotated analysis back to within one pixel of its exact pre-image under np.rot90, for rot in {1,2,3}.
Bounded numeric: LayoutEngine.parse on synthetic ridge maps; LayoutEngine.detect with a stub network on non-square pages."""
import itertools
from vf import core, bounded, selftest
from vf.core import Failure, sig

F = 'pero_ocr/layout_engines/cnn_layout_engine.py'
MUTANTS = [
    {'name': 'rot 1 uses the wrong image dimension', 'file': F, 'old': "            for b in b_list:\n                b[:, 0] = shape[0] - b[:, 0]", 'new': "            for b in b_list:\n                b[:, 0] = shape[1] - b[:, 0]"},
    {'name': 'rot 3 forgets to flip the outlines', 'file': F, 'old': "            t_list = [np.flip(t, axis=1) for t in t_list]\n            p_list = [np.flip(p, axis=1) for p in p_list]\n            for b in b_list:\n                b[:, 1] = shape[1] - b[:, 1]",
     'new': "            p_list = [np.flip(p, axis=1) for p in p_list]\n            for b in b_list:\n                b[:, 1] = shape[1] - b[:, 1]"},
    {'name': 'heights not scaled by the down-sampling factor', 'file': F, 'old': "                h_list.append([downsample * heights_pred[0], downsample * heights_pred[1]])", 'new': "                h_list.append([heights_pred[0], heights_pred[1]])"},
    {'name': 'short ridges dropped', 'file': F, 'old': "            if len(bl_inds) > 5:", 'new': "            if len(bl_inds) > 30:"},
    {'name': 'baseline x and y swapped', 'file': F, 'old': "                pos_all = np.stack([inds[1][bl_inds], inds[0][bl_inds]], axis=1)", 'new': "                pos_all = np.stack([inds[0][bl_inds], inds[1][bl_inds]], axis=1)"},
]


def make_engine(cnn):
    eng = cnn.LayoutEngine.__new__(cnn.LayoutEngine)
    eng.line_end_weight = 1.0
    eng.vertical_line_connection_range = 5
    eng.smooth_line_predictions = True
    eng.line_detection_threshold = 0.2
    eng.adaptive_downsample = False
    eng.paragraph_line_threshold = 0.3
    return eng


def ridge_map(np, H, W, ridges, endpoints):
    """ridges: list of (x0, y0, length, slope, asc, desc) in map pixels"""
    m = np.zeros((H, W, 5), dtype=np.float32)
    for x0, y0, L, sl, asc, desc in ridges:
        for k in range(L):
            x = x0 + k
            y = int(round(y0 + sl * k))
            if 0 <= x < W and 0 <= y < H:
                m[y, x, 2] = 1.0
                for dy in (-1, 0, 1):
                    if 0 <= y + dy < H:
                        m[y + dy, x, 0] = asc
                        m[y + dy, x, 1] = desc
        if endpoints == 'centred':
            # 3 x 3 end-point responses centred ON the first and the last ridge pixel (they overlap the ridge: the end-point
            # subtraction then trims the component, which parse() compensates for)
            for xe in (x0, x0 + L - 1):
                ye = int(round(y0 + sl * (xe - x0)))
                for dx in (-1, 0, 1):
                    for dy in (-1, 0, 1):
                        if 0 <= xe + dx < W and 0 <= ye + dy < H:
                            m[ye + dy, xe + dx, 3] = 1.0
        elif endpoints:
            for xe in (x0 - 1, x0 + L):
                ye = int(round(y0 + sl * (xe - x0)))
                for dx in (-1, 0, 1):
                    for dy in (-1, 0, 1):
                        if 0 <= xe + dx < W and 0 <= ye + dy < H and m[ye + dy, xe + dx, 2] == 0:
                            m[ye + dy, xe + dx, 3] = 1.0
    return m


def check_parse(np, cnn, ridges, endpoints, ds, H=90, W=120):
    bad = []
    eng = make_engine(cnn)
    maps = ridge_map(np, H, W, ridges, endpoints)
    import io, contextlib
    with contextlib.redirect_stdout(io.StringIO()):
        b_list, h_list, t_list = eng.parse(maps.copy(), ds)
    if len(b_list) != len(ridges):
        bad.append(('one-line-per-ridge', '%d lines for %d ridges' % (len(b_list), len(ridges))))
        return bad
    if not (len(h_list) == len(t_list) == len(b_list)):
        bad.append(('one-line-per-ridge', 'list lengths %d/%d/%d' % (len(b_list), len(h_list), len(t_list))))
    used = set()
    for b, h in zip(b_list, h_list):
        b = np.asarray(b, dtype=float)
        # match to the ridge with the closest left end
        cand = sorted(range(len(ridges)), key=lambda k: abs(ridges[k][0] * ds - b[0, 0]) + abs(ridges[k][1] * ds - b[0, 1]))
        k = cand[0]
        if k in used:
            bad.append(('one-line-per-ridge', 'two lines for ridge %d' % k))
            continue
        used.add(k)
        x0, y0, L, sl, asc, desc = ridges[k]
        tol = 3 * ds
        if abs(b[0, 0] - x0 * ds) > tol or abs(b[-1, 0] - (x0 + L - 1) * ds) > tol:
            bad.append(('end-points', 'ridge %d: baseline x %.1f..%.1f, ridge %.1f..%.1f (ds=%d)' % (k, b[0, 0], b[-1, 0], x0 * ds, (x0 + L - 1) * ds, ds)))
        for px, py in b:
            ey = (y0 + sl * (px / ds - x0)) * ds
            if abs(py - ey) > ds * 1.5 + 0.5 + abs(sl) * 2 * ds:
                bad.append(('vertical-position', 'ridge %d: point (%.1f, %.1f), ridge at y=%.1f (ds=%d)' % (k, px, py, ey, ds)))
                break
        if abs(h[0] - asc * ds) > 1e-4 * ds + 1e-6 or abs(h[1] - desc * ds) > 1e-4 * ds + 1e-6:
            bad.append(('heights-scaled', 'ridge %d: heights %r, map values %r x ds=%d' % (k, [float(h[0]), float(h[1])], [asc, desc], ds)))
    return bad


class StubNet:
    """derives the maps from the image it is given (so a rotated analysis sees rotated maps)"""

    def __init__(self, np, ds):
        self.np, self.ds = np, ds

    def get_maps_with_optimal_resolution(self, image):
        np = self.np
        img = image[::self.ds, ::self.ds].astype(np.float32)
        m = np.zeros(img.shape[:2] + (5,), dtype=np.float32)
        m[:, :, 2] = (img[:, :, 0] > 200).astype(np.float32)
        m[:, :, 0] = img[:, :, 1] / 10.0
        m[:, :, 1] = img[:, :, 2] / 10.0
        return m, self.ds


def check_detect(np, cnn, ridges, rot, ds=1, H=100, W=150):
    """ridges live in ORIGINAL image coordinates: horizontal in the orientation that is analysed"""
    bad = []
    eng = make_engine(cnn)
    eng.parsenet = StubNet(np, ds)
    # draw the ridges in the rotated frame, then rotate the image back so that detect(image, rot) sees them horizontal
    if rot % 2 == 0:
        Hr, Wr = H, W
    else:
        Hr, Wr = W, H
    rimg = np.zeros((Hr, Wr, 3), dtype=np.uint8)
    for x0, y0, L, sl, asc, desc in ridges:
        for k in range(L):
            x, y = x0 + k, int(round(y0 + sl * k))
            # the stub network subsamples the image by taking every ds-th pixel: a ridge pixel is drawn as the ds x ds block
            # of its map cell, so that the ridge survives the subsampling as a connected one-pixel line of the map
            yy, xx = (y // ds) * ds, (x // ds) * ds
            rimg[yy:yy + ds, xx:xx + ds, 0] = 255
            rimg[max(yy - ds, 0):yy + 2 * ds, xx:xx + ds, 1] = int(asc * 10)
            rimg[max(yy - ds, 0):yy + 2 * ds, xx:xx + ds, 2] = int(desc * 10)
    image = np.rot90(rimg, k=-rot).copy()          # original image: analysing it with rot gives back rimg
    assert image.shape[:2] == (H, W)
    import io, contextlib
    with contextlib.redirect_stdout(io.StringIO()):
        p_list, b_list, h_list, t_list = eng.detect(image, rot=rot)
    if len(b_list) != len(ridges):
        bad.append(('one-line-per-ridge', 'rot %d: %d lines for %d ridges' % (rot, len(b_list), len(ridges))))
        return bad
    if rot:
        # metamorphic form of "coordinates refer to the original image within one pixel": analysing the image with rot=k must give
        # what analysing the explicitly rotated image (rot=0) gives, mapped back through the exact pixel correspondence of np.rot90
        eng2 = make_engine(cnn)
        eng2.parsenet = StubNet(np, ds)
        with contextlib.redirect_stdout(io.StringIO()):
            p0, b0, h0, t0 = eng2.detect(np.rot90(image, k=rot).copy(), rot=0)

        def back(pts):
            pts = np.asarray(pts, dtype=float)
            x, y = pts[:, 0], pts[:, 1]
            if rot == 1:
                return np.stack([W - 1 - y, x], axis=1)
            if rot == 2:
                return np.stack([W - 1 - x, H - 1 - y], axis=1)
            return np.stack([y, H - 1 - x], axis=1)
        for what, got, ref in (('baseline', b_list, b0), ('outline', t_list, t0), ('region', p_list, p0)):
            if len(got) != len(ref):
                bad.append(('original-image-coordinates', 'rot %d: %d %ss, the explicitly rotated image gives %d' % (rot, len(got), what, len(ref))))
                continue
            for g, r in zip(got, ref):
                g, r = np.asarray(g, dtype=float), back(r)
                if g.shape != r.shape or np.abs(g - r).max() > 1.0 + 1e-3:       # float32 coordinates
                    dev = float(np.abs(g - r).max()) if g.shape == r.shape else float('nan')
                    bad.append(('original-image-coordinates', 'rot %d, ds %d, page %dx%d: a %s is %.2f px off the position obtained from the explicitly rotated image (1 px allowed)' % (rot, ds, W, H, what, dev)))
                    break

    def to_orig(x, y):
        # exact pre-image of the point (x, y) of the rotated image under np.rot90(image, k=rot)
        if rot == 0:
            return x, y
        if rot == 1:
            return W - 1 - y, x
        if rot == 2:
            return W - 1 - x, H - 1 - y
        return y, H - 1 - x
    for x0, y0, L, sl, asc, desc in ridges:
        ex0, ey0 = to_orig(x0, y0)
        ex1, ey1 = to_orig(x0 + L - 1, y0 + sl * (L - 1))
        best = None
        for b, h, t in zip(b_list, h_list, t_list):
            b = np.asarray(b, dtype=float)
            d = min(abs(b[0, 0] - ex0) + abs(b[0, 1] - ey0) + abs(b[-1, 0] - ex1) + abs(b[-1, 1] - ey1),
                    abs(b[-1, 0] - ex0) + abs(b[-1, 1] - ey0) + abs(b[0, 0] - ex1) + abs(b[0, 1] - ey1))
            if best is None or d < best[0]:
                best = (d, b, h, t)
        d, b, h, t = best
        if d > 4 * (3 * ds + 1.5):
            bad.append(('original-image-coordinates', 'rot %d: no baseline near the ridge (%.0f,%.0f)-(%.0f,%.0f) of the original image; closest %r' % (rot, ex0, ey0, ex1, ey1, b.round(1).tolist())))
            continue
        if abs(h[0] - asc * ds) > 0.2 * ds + 0.05 or abs(h[1] - desc * ds) > 0.2 * ds + 0.05:
            bad.append(('heights-belong-to-their-line', 'rot %d: line at %r has heights %r, its ridge has %r' % (rot, b[0].round(1).tolist(), [round(float(h[0]), 2), round(float(h[1]), 2)], [asc, desc])))
        tt = np.asarray(t, dtype=float)
        if not (tt[:, 0].min() - 1.5 <= min(ex0, ex1) + 3 and tt[:, 0].max() + 1.5 >= max(ex0, ex1) - 3 and tt[:, 1].min() - 1.5 <= min(ey0, ey1) + 3 and tt[:, 1].max() + 1.5 >= max(ey0, ey1) - 3):
            bad.append(('original-image-coordinates', 'rot %d: outline %r does not cover its baseline in original coordinates' % (rot, tt.round(0).tolist()[:4])))
    allp = np.concatenate([np.asarray(p, dtype=float) for p in p_list]) if p_list else np.zeros((0, 2))
    # a line whose ascender / descender (map value x ds) is larger than its distance to the page edge legitimately reaches past the
    # edge; the clause is about the rotation back to original coordinates, so the margin grows with the tallest line
    mg = 8 + max(max(r[4], r[5]) for r in ridges) * ds
    if len(allp) and (allp[:, 0].min() < -mg or allp[:, 0].max() > W + mg or allp[:, 1].min() < -mg or allp[:, 1].max() > H + mg):
        bad.append(('original-image-coordinates', 'rot %d: region polygons leave the original image: x %.0f..%.0f y %.0f..%.0f (image %dx%d)' % (rot, allp[:, 0].min(), allp[:, 0].max(), allp[:, 1].min(), allp[:, 1].max(), W, H)))
    return bad


def outline_rotation_check():
    """baseline_to_textline (the helper every stage uses to rebuild an outline from a baseline and its heights) commutes with the
    rotations of the page by 90 / 180 / 270 degrees: the outline of the rotated baseline is the rotated outline, so lines found in
    a rotated analysis (whose baselines run downwards, right-to-left or upwards in original-image coordinates) get the ascender
    height on their ascender side."""
    core.setup_repo_path()
    import numpy as np
    from pero_ocr.layout_engines import layout_helpers as helpers
    bad, n = [], 0
    R = np.array([[0.0, 1.0], [-1.0, 0.0]])            # (x, y) -> (-y, x) as row vectors: a proper rotation by 90 degrees
    bls = [[[10, 50], [200, 60]], [[10, 50], [100, 40], [220, 55]], [[30, 20], [60, 90], [100, 170]], [[5, 5], [50, 5]], [[0, 100], [80, 20], [160, 10], [300, 0]]]
    for b in bls:
        for hs in ((12.0, 4.0), (3.0, 9.0)):
            b0 = np.asarray(b, dtype=float)
            t0 = np.asarray(helpers.baseline_to_textline(b0, list(hs)), dtype=float)
            M = np.eye(2)
            for k in (1, 2, 3):
                M = M @ R
                n += 1
                tk = np.asarray(helpers.baseline_to_textline(b0 @ M, list(hs)), dtype=float)
                if tk.shape != t0.shape or np.abs(tk - t0 @ M).max() > 0.05:
                    bad.append(('original-image-coordinates', 'baseline %r rotated by %d degrees with heights %r: the outline is not the rotated outline (max deviation %.1f px)'
                                % (b, 90 * k, hs, float(np.abs(tk - t0 @ M).max()) if tk.shape == t0.shape else -1)))
    return n, bad


def adaptive_downsample_check():
    """the real TorchParseNet.get_maps_with_optimal_resolution (the function LayoutEngine.detect takes (maps, ds) from) on ONE long-lived
    object over page histories: the factor it returns is the factor the returned maps were computed with.  get_maps is replaced by a
    recorder that derives the maps from (text height of the page, factor) and tags them with the factor."""
    core.setup_repo_path()
    import numpy as np
    import torch
    from pero_ocr.layout_engines import torch_parsenet as tp
    bad, n = [], 0
    real_load = torch.jit.load
    torch.jit.load = lambda *a, **k: None
    try:
        class Rec(tp.TorchParseNet):
            def get_maps(self, img, downsample):
                h, w = int(img.shape[0] / downsample), int(img.shape[1] / downsample)
                m = np.zeros((max(h, 4), max(w, 64), 5), dtype=np.float32)
                m[:, :, 0] = float(img[0, 0, 0]) / downsample          # text height in map pixels
                m[:4, :60, 2] = 1.0                                     # 240 baseline pixels above the detection threshold
                m[0, 0, 4] = downsample                                 # tag: the factor these maps were computed with
                return m
        histories = [(48,), (88,), (128,), (20,), (88, 128), (128, 88), (88, 128, 40), (20, 12, 200), (200, 200, 20, 20), (60, 100, 100, 30, 90), (128, 96, 104, 112)]
        for adaptive in (True, False):
            for init in (4, 2):
                for hist in histories:
                    net = Rec('stub', torch.device('cpu'), downsample=init, adaptive_downsample=adaptive)
                    for step, height in enumerate(hist):
                        n += 1
                        img = np.zeros((420, 560, 3), dtype=np.uint8)
                        img[0, 0, 0] = height
                        maps, ds = net.get_maps_with_optimal_resolution(img)
                        if abs(float(maps[0, 0, 4]) - float(ds)) > 1e-6:
                            bad.append(('original-image-coordinates', 'page #%d of the history of text heights %r (adaptive=%r, initial factor %d): the returned factor is %.3f, '
                                        'the returned maps were computed with %.3f' % (step + 1, hist, adaptive, init, float(ds), float(maps[0, 0, 4]))))
                            break
    finally:
        torch.jit.load = real_load
    return n, bad


def _chunk(items):
    core.setup_repo_path()
    import warnings
    warnings.simplefilter('ignore')
    import numpy as np
    from pero_ocr.layout_engines import cnn_layout_engine as cnn
    out = {'evaluations': 0, 'nontrivial': 0, 'failures': [], 'samples': []}
    for kind, ridges, a, b in items:
        out['evaluations'] += 1
        out['nontrivial'] += 1 if len(ridges) >= 2 else 0
        try:
            if kind == 'parse':
                bad = check_parse(np, cnn, ridges, a, b)
            elif kind == 'detect-odd':       # page sides that are no multiples of the down-sampling factor
                bad = check_detect(np, cnn, ridges, a, b, H=163, W=241)
            else:
                bad = check_detect(np, cnn, ridges, a, b)
        except Exception as e:
            bad = [('no-exception', '%s raised %r' % (kind, e))]
        for clause, detail in bad:
            out['failures'].append({'clause': clause, 'input': {'kind': kind, 'ridges': [list(r) for r in ridges], 'a': a, 'b': b}, 'observed': detail})
        if len(out['samples']) < 2 and len(ridges) == 2:
            out['samples'].append({'kind': kind, 'ridges': [list(r) for r in ridges], 'endpoints_or_rot': a, 'ds': b})
    return out


def plans(thorough):
    out = []
    lens = (6, 20, 60)
    hs = ((5.0, 2.0), (12.0, 6.0))
    singles = [(x0, y0, L, sl, a, d) for L in lens for sl in (0.0, 0.1, -0.1) for (a, d) in hs for (x0, y0) in ((10, 30), (40, 50))]
    for r in singles:
        for ep in (False, True):
            for ds in (1, 2, 4, 8):
                out.append(('parse', (r,), ep, ds))
    for L in (6, 7, 8, 9, 12, 20):
        for (a, d) in hs:
            for ds in (1, 4):
                out.append(('parse', ((30, 40, L, 0.0, a, d),), 'centred', ds))
    out.append(('parse', ((10, 15, 60, 0.0, 5.0, 2.0), (40, 35, 6, 0.0, 9.0, 3.0), (25, 55, 8, 0.0, 12.0, 6.0), (60, 75, 6, 0.0, 4.0, 2.0)), 'centred', 1))
    pairs = []
    for (La, Lb) in ((60, 20), (20, 60), (20, 20), (6, 60)):
        for (xa, xb) in ((10, 40), (40, 10), (10, 10)):
            for sl in (0.0, 0.1):
                pairs.append(((xa, 20, La, sl, 5.0, 2.0), (xb, 38, Lb, -sl, 9.0, 3.0)))
    # well-separated ridges whose BOUNDING BOXES overlap: parallel sloped ridges, and a short ridge in the corner of a long sloped
    # one's box (a decoder that collects the pixels of a line by box instead of by label mixes them)
    for sl in (0.25, -0.25):
        ya = 15 if sl > 0 else 40
        pairs.append(((10, ya, 80, sl, 5.0, 2.0), (10, ya + 16, 80, sl, 9.0, 3.0)))
        pairs.append(((10, ya, 90, sl, 5.0, 2.0), ((80, ya + 2, 20, 0.0, 9.0, 3.0) if sl > 0 else (12, ya + 2 - 20, 20, 0.0, 9.0, 3.0))))
    for p in pairs:
        for ds in ((1, 4) if not thorough else (1, 2, 4, 8)):
            out.append(('parse', p, True, ds))
            out.append(('parse', p, False, ds))
    triples = [((10, 15, 60, 0.0, 5.0, 2.0), (40, 35, 20, 0.1, 9.0, 3.0), (25, 60, 40, -0.1, 12.0, 6.0)), ((50, 15, 20, 0.0, 7.0, 2.0), (10, 32, 60, 0.0, 4.0, 4.0), (30, 70, 30, 0.0, 11.0, 1.0))]
    for t in triples:
        for ds in (1, 2, 4, 8):
            out.append(('parse', t, True, ds))
    # detect on non-square pages, all rotations; ridges given in the analysed (rotated) frame
    for rot in (0, 1, 2, 3):
        lim = 150 if rot % 2 == 0 else 100
        for rid in ([(10, 30, 60, 0.0, 6.0, 2.0)], [(40, 20, 40, 0.0, 9.0, 3.0), (10, 45, 70, 0.0, 6.0, 2.0)],
                    [(45, 15, 30, 0.0, 12.0, 4.0), (25, 40, 50, 0.0, 9.0, 3.0), (10, 65, 60, 0.0, 6.0, 2.0)], [(15, 25, 50, 0.1, 6.0, 2.0), (30, 60, 40, -0.1, 9.0, 3.0)]):
            rid = tuple(r for r in rid if r[0] + r[2] < lim - 5)
            out.append(('detect', rid, rot, 1))
            if thorough:
                out.append(('detect', rid, rot, 2))
        lim = 241 if rot % 2 == 0 else 163
        for ds in ((4, 8) if thorough else (4,)):
            rid = [(20, 40, 120, 0.0, 3.0, 1.0)] if rot % 2 else [(20, 40, 150, 0.0, 3.0, 1.0), (32, 120, 120, 0.0, 2.0, 1.0)]
            out.append(('detect-odd', tuple(rid), rot, ds))
    return out


def run(ctx):
    from pyvc import run as vrun
    thorough = ctx.tier == 'thorough'
    ctx.level = 'other'
    ctx.explanation = (
        'Partial. PROVED (pyvc): LayoutEngine.rotate_layout sends every point (xr, yr) of a baseline / outline / region polygon found in the '
        'image rotated by rot x 90 degrees to within one pixel of its exact pre-image under np.rot90 (axiom: rot90(I,1)[i,j] = I[j, W-1-i] etc.), for '
        'rot = 1, 2, 3 and arbitrary image height and width. BOUNDED numeric: parse() on synthetic maps (1-3 ridges, lengths {6,20,60}, slopes '
        '{0,+-0.1} plus pairs of slope +-0.25 whose bounding boxes overlap, two height pairs, separation >= 12 px, end-point responses on/off, ds in {1,2,4,8}): one line per ridge, end points within 3 ds, '
        'vertical position within ~1.5 ds, heights = map values x ds, each line with its own heights; detect() with a stub network deriving the maps from '
        'the (rotated) image on a 100 x 150 page for rot 0..3: lines, outlines and regions in original-image coordinates.')
    core.setup_repo_path()
    try:
        from contracts import rotate
        from pyvc import solve
        reps = rotate.reports(core.repo_root())
        for r in reps:
            for vc in r.vcs:
                vc.func = r.name
        solve.discharge([vc for r in reps for vc in r.vcs], {r.name: r.axioms for r in reps})
        ctx.add_proof_reports(reps, clause='rotate_layout is the inverse of np.rot90 within one pixel')
    except ImportError:
        ctx.notes.append('contracts/rotate.py not present: bounded only')
    items = bounded.order(plans(thorough), ctx.seed)
    res = bounded.pmap(_chunk, bounded.shard(items, 32))
    seen = set()
    fails = []
    for f in sorted(res['failures'], key=lambda f: (len(f['input']['ridges']), str(f['input']))):
        s = sig('rt', 'LayoutEngine.' + f['input']['kind'], f['clause'])
        if s in seen:
            continue
        seen.add(s)
        fails.append(Failure(s, 'layout decoding contract %s fails: %s on %s' % (f['clause'], f['observed'], f['input']), function='LayoutEngine.' + f['input']['kind'],
                             input=f['input'], observed=f['observed'], clause=f['clause']))
    ctx.add_bounded('ridge-maps', 'synthetic maps with 1..3 ridges (see explanation) x end-point responses x ds; detect() with a stub network x rot 0..3 on a 100x150 page',
                    res['evaluations'], res['nontrivial'], False, res['samples'], fails,
                    rule='every map of the stated grid; non-trivial = at least two ridges', clause='one line per ridge, positions, heights, original-image coordinates')
    bounded.close()
    try:
        n2_, bad2_ = outline_rotation_check()
    except Exception as e:
        n2_, bad2_ = 1, [('no-exception', 'baseline_to_textline raised %r' % (e,))]
    ctx.add_bounded('outline-rotation', 'baseline_to_textline on 5 baselines x 2 height pairs x rotations by 90 / 180 / 270 degrees', n2_, n2_, False, [{'baseline': [[10, 50], [200, 60]]}],
                    [Failure(sig('rt', 'baseline_to_textline', c_), d_, function='layout_helpers.baseline_to_textline', input={'outline_rotation': True}, observed=d_, clause=c_) for c_, d_ in bad2_[:1]],
                    rule='fixed cases', clause='outlines rebuilt from baselines of a rotated analysis refer to the original image')
    try:
        n_, bad_ = adaptive_downsample_check()
    except Exception as e:
        n_, bad_ = 1, [('no-exception', 'get_maps_with_optimal_resolution raised %r' % (e,))]
    ctx.add_bounded('adaptive-downsample', 'real TorchParseNet.get_maps_with_optimal_resolution with a recording get_maps: 11 page histories (text heights 12..200 px) x adaptive on/off x '
                    'initial factor 4/2 on one long-lived object', n_, n_, False, [{'text_heights': [88, 128]}],
                    [Failure(sig('rt', 'TorchParseNet.get_maps_with_optimal_resolution', c_), d_, function='TorchParseNet.get_maps_with_optimal_resolution', input={'adaptive_downsample': True},
                             observed=d_, clause=c_) for c_, d_ in bad_[:1]],
                    rule='fixed histories', clause='the down-sampling factor handed to the decoder is the one the maps were computed with')
    ctx.trusted += ['A6: scipy.ndimage, shapely, cv2', 'ridge decoding beyond the grid is not decided (numeric, bounded)']
    if thorough:
        selftest.run(ctx, MUTANTS)


def replay(entry):
    core.setup_repo_path()
    inp = entry.get('input') or {}
    if inp.get('outline_rotation'):
        n_, bad = outline_rotation_check()
        for b in bad:
            print('REPLAY-FAIL', b)
        print('replay: %d problem(s) over %d cases' % (len(bad), n_))
        return 1 if bad else 0
    if inp.get('adaptive_downsample'):
        n_, bad = adaptive_downsample_check()
        for b in bad:
            print('REPLAY-FAIL', b)
        print('replay: %d problem(s) over %d calls' % (len(bad), n_))
        return 1 if bad else 0
    if 'ridges' not in inp:
        print('replay: obligation %s has no concrete input; solver output:\n%s' % (entry.get('obligation'), entry.get('solver_output')))
        return 1
    r = _chunk([(inp['kind'], tuple(tuple(x) for x in inp['ridges']), inp['a'], inp['b'])])
    for f in r['failures']:
        print('REPLAY-FAIL', f['clause'], f['observed'])
    print('replay: %d problem(s) on %r' % (len(r['failures']), inp))
    return 1 if r['failures'] else 0
