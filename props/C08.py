"""C08 — a page's result does not depend on processing history or schedule.

Proved (relational / non-interference, pyvc + z3): PageDecoder.process_page — (a) every piece of mutable decoder state that
the line loop reads before writing it is reset before the loop (its value at the loop head does not depend on the state the
object had on entry), (b) one iteration of the loop maps (line, carried LM state) to (transcription, carried LM state)
without reading any other mutable state (statistics counters, clock).  Frame scan: mutable attributes of the stage classes.
Bounded: real PageDecoder with a recording stub decoder over all page histories of length <= 3.
Not decided: the multi-process schedule clause (no thread/process reasoning in this family)."""
import itertools
from vf import core, bounded, selftest
from vf.core import Failure, sig

F = 'pero_ocr/document_ocr/page_parser.py'
MUTANTS = [
    {'name': 'original-defect: last_line survives the page boundary', 'file': F,
     'old': '        self.last_line = None  # the LM context must not leak from the previously decoded page\n', 'new': ''},
    {'name': 'LM state not reset at page start', 'file': F, 'old': '    def process_page(self, page_layout: PageLayout):\n        self.last_h = None\n', 'new': '    def process_page(self, page_layout: PageLayout):\n'},
    {'name': 'confident-line skipping keyed on a running statistic', 'file': F,
     'old': '            if line_confident_enough(logits, self.line_confidence_threshold):',
     'new': '            if line_confident_enough(logits, self.line_confidence_threshold) and self.lines_examined % 5 != 0:'},
]


class StubLM:
    def initial_h_from_line(self, line):
        return ('ctx', line)

    def add_line_end(self, h):
        return ('end', h)


class StubDecoder:
    """deterministic decoder whose output shows exactly what it was given (logits signature + initial state)"""

    def __init__(self):
        self._lm = StubLM()
        self.calls = []

    def __call__(self, logits, return_h=False, init_h=None):
        sigv = int(round(float(abs(logits).sum()) * 1000)) % 100000
        self.calls.append((sigv, init_h))

        class Bag:
            def __init__(self, t):
                self.t = t

            def best_hyp(self):
                return self.t
        text = 'T%d|%r' % (sigv, init_h)
        if return_h:
            return Bag(text), ('h', sigv, init_h)
        return Bag(text)


def make_page(np, sparse, layout, kind):
    """kinds differ in line count, logits confidence (peaky rows are 'confident') and initial transcriptions"""
    pl = layout.PageLayout(id='p%s' % kind, page_size=(50, 50))
    reg = layout.RegionLayout('r', np.array([[0, 0], [40, 0], [40, 40], [0, 40]]))
    specs = {'A': [(0.99, 'alpha'), (0.4, 'beta')], 'B': [(0.5, 'gamma')], 'C': [(0.97, ''), (0.96, 'delta'), (0.3, 'eps')], 'E': []}[kind]
    for i, (p, tr) in enumerate(specs):
        row = np.log(np.array([p, (1 - p) / 2, (1 - p) / 2]))
        lg = np.stack([row + 0.01 * (i + 1), np.roll(row, 1)])
        reg.lines.append(layout.TextLine(id='l%d' % i, transcription=tr, logits=sparse.csc_matrix(lg), characters=['a', 'b', '~']))
    pl.regions.append(reg)
    return pl


def run_history(np, sparse, layout, pp, hist, carry, threshold):
    dec = pp.PageDecoder(StubDecoder(), line_confidence_threshold=threshold, carry_h_over=carry)
    outs = []
    for kind in hist:
        page = make_page(np, sparse, layout, kind)
        dec.process_page(page)
        outs.append([l.transcription for l in page.lines_iterator()])
    return outs


def check_history(np, sparse, layout, pp, hist, carry, threshold):
    bad = []
    outs = run_history(np, sparse, layout, pp, hist, carry, threshold)
    for pos, kind in enumerate(hist):
        solo = run_history(np, sparse, layout, pp, (kind,), carry, threshold)[0]
        if outs[pos] != solo:
            bad.append(('history-independence', 'page %s decoded after %r gives %r, alone %r' % (kind, list(hist[:pos]), outs[pos], solo)))
    return bad


def _chunk(items):
    core.setup_repo_path()
    import numpy as np
    from scipy import sparse
    from pero_ocr.core import layout
    from pero_ocr.document_ocr import page_parser as pp
    out = {'evaluations': 0, 'nontrivial': 0, 'failures': [], 'samples': []}
    for hist, carry, th in items:
        out['evaluations'] += 1
        out['nontrivial'] += 1 if len(hist) >= 2 else 0
        try:
            bad = check_history(np, sparse, layout, pp, hist, carry, th)
        except Exception as e:
            bad = [('no-exception', 'raised %r' % (e,))]
        for clause, detail in bad:
            out['failures'].append({'clause': clause, 'input': {'history': list(hist), 'carry_h_over': carry, 'threshold': th}, 'observed': detail})
        if len(out['samples']) < 2 and len(hist) == 2:
            out['samples'].append({'history': list(hist), 'carry_h_over': carry, 'threshold': th})
    return out


def _chunk_lm(items):
    """the real LMWrapper around a freshly constructed torch language model WITH dropout (delivered in training mode, as an
    un-pickled or freshly built model is): the wrapper must leave no randomness in decoding"""
    core.setup_repo_path()
    import numpy as np
    import torch
    torch.set_num_threads(1)
    from pero_ocr.decoding.decoders import CTCPrefixLogRawNumpyDecoder, BLANK_SYMBOL
    from pero_ocr.decoding.lm_wrapper import LMWrapper
    chars = ['a', 'b', 'c']
    H = 8

    class Net(torch.nn.Module):
        def __init__(self, n):
            super().__init__()
            self.embedding = torch.nn.Embedding(n, H)
            self.lstm = torch.nn.LSTM(H, H, num_layers=2, dropout=0.5, batch_first=True)

        def forward(self, xs, hs):
            return self.lstm(self.embedding(xs), hs)

        def init_hidden(self, bsz):
            return (torch.zeros((2, bsz, H)), torch.zeros((2, bsz, H)))

    class Out(torch.nn.Module):
        def __init__(self, n):
            super().__init__()
            self.dropout = torch.nn.Dropout(0.5)
            self.projection = torch.nn.Linear(H, n)

        def forward(self, hs):
            return torch.nn.functional.log_softmax(2.0 * self.projection(self.dropout(hs)), dim=-1)

    class LM(torch.nn.Module):
        def __init__(self):
            super().__init__()
            self.vocab = {'</s>': 0}
            for c in chars:
                self.vocab[c] = len(self.vocab)
            self.model = Net(len(self.vocab))
            self.decoder = Out(len(self.vocab))
            self._unused_prefix_len = 1
    out = {'evaluations': 0, 'nontrivial': 0, 'failures': [], 'samples': []}
    for seed, k in items:
        out['evaluations'] += 1
        out['nontrivial'] += 1
        torch.manual_seed(seed)
        lm = LM()                      # training mode, as constructed
        dec = CTCPrefixLogRawNumpyDecoder(chars + [BLANK_SYMBOL], k=k, lm=LMWrapper(lm, chars, torch.device('cpu')), lm_scale=1.0)
        rng = np.random.RandomState(seed)
        lg = rng.uniform(0.5, 2.0, size=(6, 4))
        lg = lg - np.log(np.exp(lg).sum(axis=1, keepdims=True))
        lg2 = rng.uniform(0.5, 2.0, size=(5, 4))
        lg2 = lg2 - np.log(np.exp(lg2).sum(axis=1, keepdims=True))
        runs = []
        try:
            # the line, another line, the line again twice: all through ONE decoder / LM wrapper (beam width 1 included: the beam
            # selection is then the identity, so nothing is copied unless the code copies it)
            for m_ in (lg, lg2, lg, lg):
                boh = dec(m_)
                if m_ is not lg2:
                    runs.append(sorted((h.transcript, round(float(h.vis_sc), 9), round(float(h.lm_sc), 9)) for h in boh))
        except Exception as e:
            out['failures'].append({'clause': 'no-exception', 'input': {'seed': seed, 'k': k, 'lm': 'training-mode LSTM with dropout'}, 'observed': repr(e)})
            continue
        if any(r != runs[0] for r in runs[1:]):
            out['failures'].append({'clause': 'same-line-twice-identical', 'input': {'seed': seed, 'k': k, 'lm': 'training-mode LSTM with dropout'},
                                    'observed': 'decoding one matrix first, after another line, and once more through one decoder gave %r / %r / %r' % (runs[0][:2], runs[1][:2], runs[2][:2])})
        if len(out['samples']) < 2:
            out['samples'].append({'seed': seed, 'k': k, 'hypotheses': len(runs[0])})
    return out


def run(ctx):
    thorough = ctx.tier == 'thorough'
    ctx.level = 'other'
    ctx.explanation = (
        'Hybrid. PROVED (non-interference obligations discharged by z3 on terms produced by symbolic execution of the real '
        'PageDecoder.process_page / decode_line): the LM state carried across lines (last_h, last_line) is reset before the line loop, '
        'and one loop iteration computes the transcription and the next carried state from the line and the carried state only — the '
        'statistics counters and the clock do not flow into them and do not influence control flow. A syntactic frame scan lists every '
        'attribute of the pipeline stage classes that is assigned outside __init__. BOUNDED: real PageDecoder + recording stub decoder, all '
        'page histories of length <= 3 (with repetition) x carry on/off x thresholds: every page result equals its solo result. '
        'The multi-process clause (Pool.starmap schedules) is NOT decided by this technique.')
    core.setup_repo_path()
    try:
        from contracts import pagedecoder
        from pyvc import solve
        reps = pagedecoder.reports(core.repo_root())
        for r in reps:
            for vc in r.vcs:
                vc.func = r.name
        solve.discharge([vc for r in reps for vc in r.vcs], {r.name: r.axioms for r in reps})
        ctx.add_proof_reports(reps, clause='state reset before the line loop; loop iteration non-interference; frame scan')
        ctx.extra['frame_scan'] = pagedecoder.frame_scan(core.repo_root())
        ctx.extra['non_interference'] = getattr(reps[0], 'extra', None)
    except ImportError:
        ctx.notes.append('contracts/pagedecoder.py not present: bounded only')
    kinds = ['A', 'B', 'C', 'E']
    hists = [h for n in (1, 2, 3) for h in itertools.product(kinds, repeat=n)]
    items = [(h, c, th) for h in hists for c in (True, False) for th in (None, 0.0, 0.5, 0.98, float('inf'))]
    items = bounded.order(items, ctx.seed)
    res = bounded.pmap(_chunk, bounded.shard(items, 32))
    fails = []
    if res['failures']:
        f = sorted(res['failures'], key=lambda f: (len(f['input']['history']), str(f['input'])))[0]
        fails.append(Failure(sig('rt', 'PageDecoder.process_page', f['clause']), '%s: %s' % (f['clause'], f['observed']),
                             function='PageDecoder.process_page', input=f['input'], observed=f['observed'], clause=f['clause']))
    ctx.add_bounded('page-histories', 'all sequences (with repetition) of length <= 3 over 4 synthetic pages (0..3 lines, confident and unconfident lines, empty transcription) x carry_h_over x thresholds {None,0,.5,.98,inf}',
                    res['evaluations'], res['nontrivial'], True, res['samples'], fails,
                    rule='every history of the domain; non-trivial = at least two pages', clause='page result after any history equals its solo result')
    # the recognition stage: one long-lived OCR engine processes the lines of successive pages (state must not leak)
    from props import C07
    eng_items = []
    for hist in ([[500, 300]], [[318, 300, 289]], [[100], [100, 64]], [[120], [60]], [[320, 320, 320]]):
        for widths in ((289, 300, 310), (100, 90), (64,), (318, 289, 300, 305), (120, 100, 60)):
            for bs in (1, 2, 8):
                eng_items.append((tuple(widths), bs, (False, False, False), tuple(tuple(x) for x in hist)))
    res2 = bounded.pmap(C07._chunk, bounded.shard(eng_items, 16))
    fails2 = []
    if res2['failures']:
        f = sorted(res2['failures'], key=lambda f: str(f['input']))[0]
        fails2.append(Failure(sig('rt', 'BaseEngineLineOCR.process_lines', 'history-independence'),
                              'lines of a page recognised after other pages on the same engine differ from the page alone: %s on %s' % (f['observed'], f['input']),
                              function='BaseEngineLineOCR.process_lines', input=dict(f['input'], engine_history=True), observed=f['observed'], clause='history-independence'))
    ctx.add_bounded('engine-histories', 'one stub-network OCR engine instance: 5 earlier page line-width lists x 5 pages x batch sizes {1,2,8}',
                    res2['evaluations'], res2['evaluations'], True, res2['samples'], fails2, rule='every (history, page, batch size); all non-trivial',
                    clause='recognition of a page after any history equals recognition of the page alone')
    res3 = bounded.pmap(_chunk_lm, bounded.shard([(sd, k) for sd in range(1, 9 if thorough else 5) for k in (1, 2, 4)], 4))
    fails3 = []
    if res3['failures']:
        f = sorted(res3['failures'], key=lambda f: str(f['input']))[0]
        fails3.append(Failure(sig('rt', 'LMWrapper', f['clause']), '%s: %s on %s' % (f['clause'], f['observed'], f['input']),
                              function='LMWrapper / CTCPrefixLogRawNumpyDecoder.__call__', input=f['input'], observed=f['observed'], clause=f['clause']))
    ctx.add_bounded('lm-wrapper-determinism', 'real LMWrapper around a freshly constructed 2-layer LSTM LM with dropout (training mode as delivered) x seeds x beam widths {1,2,4}: one matrix decoded first, after another line, and once more',
                    res3['evaluations'], res3['nontrivial'], True, res3['samples'], fails3, rule='every (seed, beam width)',
                    clause='processing the same line twice through one decoder gives identical hypotheses and scores')
    # "in a resumed run": the real parse_folder.main() (harness of the C17 check: stub page parser whose output depends on the page
    # IMAGE, real writers) is killed after k writes and resumed with --skip-processed, sequentially and with worker processes
    # requested: every page gets the outputs it gets in an uninterrupted run
    from props import C17 as c17
    ids3 = ['p1', 'p2', 'a.jpg.b']
    rplans = [(ids3, ('xml', 'logits'), (k,)) for k in range(0, 7)] + [(ids3, ('xml',), (k,)) for k in range(0, 4)]
    res4 = bounded.pmap(c17._chunk, bounded.shard(rplans, 4))
    fails4 = []
    for f in sorted(res4['failures'], key=lambda f: str(f['input']))[:1]:
        fails4.append(Failure(sig('rt', 'parse_folder.main', 'resumed-run-same-result'), 'a page processed in a resumed run does not get the result of an uninterrupted run: %s on %s' % (f['observed'], f['input']),
                              function='parse_folder.main', input=dict(f['input'], resumed=True), observed=f['observed'], clause='resumed-run-same-result'))
    ctx.add_bounded('resumed-runs', 'parse_folder.main() on 3 pages whose stub results depend on the page image, outputs {xml, logits} / {xml}, killed after 0..6 writes and resumed with --skip-processed',
                    res4['evaluations'], res4['nontrivial'], True, res4['samples'], fails4, rule='every kill position', clause='a page gets the same result in a resumed run as in an uninterrupted one')
    bounded.close()
    ctx.trusted += ['A6: the decoder object and its LM are pure functions of their arguments (LMWrapper methods assign no attribute: checked by the frame scan)',
                    'module-level RNG reads in layout stages (random tie-breaks between lines with equal coordinates) are listed by the frame scan, not proved absent',
                    'multi-process execution (Pool.starmap) is outside this technique: only the per-worker argument is covered']
    if thorough:
        selftest.run(ctx, MUTANTS)


def replay(entry):
    core.setup_repo_path()
    import numpy as np
    from scipy import sparse
    from pero_ocr.core import layout
    from pero_ocr.document_ocr import page_parser as pp
    inp = entry.get('input') or {}
    if inp.get('engine_history'):
        from props import C07
        return C07.replay(entry)
    if inp.get('resumed'):
        from props import C17
        return C17.replay(entry)
    if 'history' not in inp:
        print('replay: obligation %s has no concrete input; solver output:\n%s' % (entry.get('obligation'), entry.get('solver_output')))
        return 1
    th = inp['threshold']
    bad = check_history(np, sparse, layout, pp, tuple(inp['history']), inp['carry_h_over'], float(th) if th is not None else None)
    for b in bad:
        print('REPLAY-FAIL', b)
    print('replay: %d problem(s) on %r' % (len(bad), inp))
    return 1 if bad else 0
