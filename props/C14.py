"""C14 — confusion networks keep every hypothesis as an ordered path.  BOUNDED overall (DESIGN.md §5 C14): the state is a
list of dicts re-sliced on every insertion; no unbounded invariant is attempted.  Stand-ins, all exhaustive over stated
finite domains: (B2) every history of <= 3 hypotheses over {a,b} of length <= 3, scores from {1,2,.5}, under the contract
of specs/cn.py; bags through produce_cn_from_boh; sorted_cn_paths / best_cn_path; (B3) normalize_cn bounded-symbolic
(pyvc, <= 2 positions x <= 3 arcs, symbolic positive reals, z3 non-linear arithmetic)."""
import copy
import itertools
import math
from vf import core, bounded, selftest
from vf.core import Failure, sig
from specs import cn as S

F = 'pero_ocr/decoding/confusion_networks.py'
MUTANTS = [
    {'name': 'original-defect: pointer not advanced after an append', 'file': F,
     'old': "                cn = cn[:cn_pointer] + [{None: cn_total_weight, tr_sym: score}] + cn[cn_pointer:]\n            cn_pointer += 1",
     'new': "                cn = cn[:cn_pointer] + [{None: cn_total_weight, tr_sym: score}] + cn[cn_pointer:]\n                cn_pointer += 1\n            cn_pointer += 0"},
    {'name': 'skip arc gets the hypothesis score only the first time', 'file': F,
     'old': "                cn[cn_pointer][None] += score", 'new': "                pass"},
    {'name': 'inserted position without skip arc', 'file': F,
     'old': "cn = cn[:cn_pointer] + [{None: cn_total_weight, tr_sym: score}] + cn[cn_pointer:]", 'new': "cn = cn[:cn_pointer] + [{tr_sym: score}] + cn[cn_pointer:]"},
    {'name': 'normalisation by the first position only', 'file': F,
     'old': "        sausage_normalizer = sum(cn[i].values())", 'new': "        sausage_normalizer = sum(cn[0].values())"},
    {'name': 'paths sorted ascending', 'file': F, 'old': "    return sorted(paths, key=lambda x: x[1], reverse=True)", 'new': "    return sorted(paths, key=lambda x: x[1])"},
    {'name': 'odometer skips the last arc of the first position', 'file': F,
     'old': "        for rotor_index in reversed(range(len(iters))):", 'new': "        for rotor_index in reversed(range(1, len(iters))):"},
]

FIRST_EMPTY = 'first-hypothesis-empty'


def history_signature(hist, clause):
    if hist and hist[0][0] == '':
        return sig('rt', 'confusion-network', FIRST_EMPTY, clause)
    return sig('rt', 'confusion-network', clause)


def run_history(cnm, hist):
    """hist: tuple of (transcript, score). returns list of (clause, detail)"""
    bad = []
    cn = []
    for w, s in hist:
        old = copy.deepcopy(cn)
        cn = cnm.add_hypothese(cn, w, s)
        bad += S.check_add(old, copy.deepcopy(cn), w, s)
    # every hypothesis of the history is still readable at the end
    r = S.readable(cn)
    for w, _ in hist:
        if tuple(w) not in r:
            bad.append(('readable-before-kept', 'hypothesis %r of the history is not readable from the final network %r' % (w, cn)))
    if cn:
        norm = cnm.normalize_cn(copy.deepcopy(cn))
        for i, pos in enumerate(norm):
            if abs(sum(pos.values()) - 1) > 1e-9:
                bad.append(('normalised-positions-sum-to-one', 'position %d sums to %r' % (i, sum(pos.values()))))
        paths = cnm.sorted_cn_paths(norm)
        want = 1
        for pos in norm:
            want *= len(pos)
        if len(paths) != want:
            bad.append(('paths-are-all-arc-combinations', '%d paths for %d arc combinations' % (len(paths), want)))
        probs = [p for _, p in paths]
        if any(b > a + 1e-12 for a, b in zip(probs, probs[1:])):
            bad.append(('paths-non-increasing', 'probabilities %r' % probs[:6]))
        if abs(sum(probs) - 1) > 1e-9:
            bad.append(('paths-sum-to-one', 'sum %r' % sum(probs)))
        # each arc combination exactly once: compare the multiset of (string, prob) with the product
        exp = []
        for combo in itertools.product(*[list(p.items()) for p in norm]):
            st, pr = '', 1.0
            for c, p in combo:
                st += c if c is not None else ''
                pr *= p
            exp.append((st, round(pr, 12)))
        if sorted(exp) != sorted((s_, round(p, 12)) for s_, p in paths):
            bad.append(('paths-are-all-arc-combinations', 'path multiset differs from the product of the arcs'))
    if len(hist) == 1:
        best = cnm.best_cn_path(cnm.normalize_cn(copy.deepcopy(cn))) if cn else ''
        if best != hist[0][0] and not (hist[0][0] == '' and best in ('', [])):
            bad.append(('single-hypothesis-reads-back', 'best path %r of the network of %r' % (best, hist[0][0])))
    return bad


def _chunk(hists):
    core.setup_repo_path()
    from pero_ocr.decoding import confusion_networks as cnm
    out = {'evaluations': 0, 'nontrivial': 0, 'failures': [], 'samples': []}
    for h in hists:
        out['evaluations'] += 1
        if len(h) >= 2 and len({w for w, _ in h}) >= 2:
            out['nontrivial'] += 1
        try:
            bad = run_history(cnm, h)
        except Exception as e:
            bad = [('no-exception', 'raised %r' % (e,))]
        for clause, detail in bad:
            out['failures'].append({'clause': clause, 'input': {'history': [list(x) for x in h]}, 'observed': detail})
        if len(out['samples']) < 2 and len(h) == 2:
            out['samples'].append({'history': [list(x) for x in h]})
    return out


def bag_check(cnm, BagOfHypotheses):
    bad = []
    n = 0
    strs = ['', 'a', 'ab', 'ba', 'abb']
    for combo in itertools.permutations(strs, 3):
        for with_lm in (False, True):
            n += 1
            bag = BagOfHypotheses()
            for i, w in enumerate(combo):
                bag.add(w, -0.5 * (i + 1), (-0.3 * (3 - i)) if with_lm else None)
            cn = cnm.produce_cn_from_boh(bag)
            for i, pos in enumerate(cn):
                if abs(sum(pos.values()) - 1) > 1e-9:
                    bad.append(('normalised-positions-sum-to-one', {'bag': list(combo), 'lm': with_lm}, 'position %d sums to %r' % (i, sum(pos.values()))))
            r = S.readable(cn)
            for w in combo:
                if tuple(w) not in r and combo[0] != '':
                    bad.append(('readable-before-kept', {'bag': list(combo), 'lm': with_lm}, '%r not readable' % w))
    return n, bad


def run(ctx):
    from pyvc import run as vrun
    thorough = ctx.tier == 'thorough'
    ctx.level = 'exploration'
    ctx.explanation = (
        'BOUNDED-EXHAUSTIVE, not a proof. Every history of up to three hypotheses over {a,b} (length <= 3, incl. the empty string, '
        'prefixes/suffixes of one another, consecutive insertions at start/middle/end), scores from {1,2,0.5}, in every order, is run '
        'through the real add_hypothese / normalize_cn / sorted_cn_paths / best_cn_path under the contract of specs/cn.py; bags with '
        'and without LM scores go through produce_cn_from_boh. normalize_cn is additionally checked bounded-symbolically with pyvc '
        '(symbolic positive weights, sizes <= 2 x 3).')
    core.setup_repo_path()
    try:
        from contracts import cnet
        from pyvc import solve
        reps = cnet.reports(core.repo_root())
        for r in reps:
            for vc in r.vcs:
                vc.func = r.name
        solve.discharge([vc for r in reps for vc in r.vcs], {r.name: r.axioms for r in reps})
        ctx.add_proof_reports(reps, clause='BOUNDED-SYMBOLIC normalize_cn: every position sums to 1 for all positive weights at the listed shapes')
    except ImportError:
        ctx.notes.append('contracts/cnet.py not present')
    strs = [''.join(s) for k in range(0, 4) for s in itertools.product('ab', repeat=k)]
    scores = (1.0, 2.0, 0.5)
    hists = [((w, 1.0),) for w in strs]
    hists += [((a, sa), (b, sb)) for a in strs for b in strs for sa in scores for sb in scores[:2]]
    small = [s for s in strs if len(s) <= (3 if thorough else 2)]
    hists += [((a, 1.0), (b, 0.5), (c, 2.0)) for a in (strs if thorough else small) for b in small for c in small]
    hists = bounded.order(hists, ctx.seed)
    res = bounded.pmap(_chunk, bounded.shard(hists, 32))
    seen = set()
    fails = []
    for f in sorted(res['failures'], key=lambda f: (sum(len(x[0]) for x in f['input']['history']), len(f['input']['history']), str(f['input']))):
        s = history_signature([tuple(x) for x in f['input']['history']], f['clause'])
        if s in seen:
            continue
        seen.add(s)
        fails.append(Failure(s, 'confusion-network contract %s fails: %s on history %s' % (f['clause'], f['observed'], f['input']['history']),
                             function='add_hypothese', input=f['input'], observed=f['observed'], clause=f['clause']))
    ctx.add_bounded('histories', 'all histories of 1..2 hypotheses over {a,b}^<=3 x scores {1,2,.5} and of 3 hypotheses over {a,b}^<=%d' % (3 if thorough else 2),
                    res['evaluations'], res['nontrivial'], True, res['samples'], fails,
                    rule='every history of the domain; non-trivial = at least two different hypotheses',
                    clause='readable-before kept; new hypothesis readable in order; no weight lost; normalised sums; paths = all combinations, once, sorted, sum 1; single hypothesis reads back')
    from pero_ocr.decoding import confusion_networks as cnm
    from pero_ocr.decoding.bag_of_hypotheses import BagOfHypotheses
    nb, bb = bag_check(cnm, BagOfHypotheses)
    fails = []
    for clause, inp, detail in bb[:1]:
        fails.append(Failure(sig('rt', 'produce_cn_from_boh', clause), '%s: %s on %s' % (clause, detail, inp), function='produce_cn_from_boh', input=inp, observed=detail, clause=clause))
    ctx.add_bounded('bags', 'all ordered triples of {"", a, ab, ba, abb} as bags with and without LM scores', nb, nb, True,
                    [{'bag': ['ab', 'a', 'abb'], 'lm': True}], fails, rule='every ordered triple; all non-trivial',
                    clause='normalised network of a bag: positions sum to 1, hypotheses readable')
    bounded.close()
    if thorough:
        selftest.run(ctx, MUTANTS)


def replay(entry):
    core.setup_repo_path()
    from pero_ocr.decoding import confusion_networks as cnm
    inp = entry.get('input') or {}
    if 'history' not in inp:
        print('replay: no concrete history in %s' % entry.get('signature'))
        return 1
    bad = run_history(cnm, tuple((w, s) for w, s in inp['history']))
    for b in bad:
        print('REPLAY-FAIL', b)
    print('replay: %d problem(s) on %r' % (len(bad), inp))
    return 1 if bad else 0
