"""C05 — forced alignment is a valid, minimum-cost CTC alignment.

Proved (unbounded, pyvc): contracts of the helper functions of pero_ocr/core/force_alignment.py (transition matrix,
state completion, initial/final cost, one min-plus update step, back-tracking).  Bounded: force_align / align_text on the
real code against the brute-force minimum over all frame labelings, exhaustive over a finite grid of cost matrices."""
import itertools
import math
from vf import core, bounded, selftest
from vf.core import Failure, sig
from specs import viterbi as V
from specs.ctc import collapse

F = 'pero_ocr/core/force_alignment.py'
MUTANTS = [
    {'name': 'skip transition also between equal labels', 'file': F,
     'old': '            if elements[ind_elem] != elements[ind_elem+1]:\n                desired[i, i+2] = 0.0', 'new': '            desired[i, i+2] = 0.0'},
    {'name': 'alignment may end before the last label', 'file': F, 'old': '    cost[-1] = 0.0\n    cost[-2] = 0.0\n    return cost',
     'new': '    cost[-1] = 0.0\n    cost[-2] = 0.0\n    cost[-3:] = 0.0\n    return cost'},
    {'name': 'update keeps the later of equal predecessors only when strictly better is dropped (<=)', 'file': F,
     'old': '        if updated_cost < new_cost[i]:', 'new': '        if updated_cost <= new_cost[i] and j >= i - 1:'},
    {'name': 'backtrack starts one frame late', 'file': F, 'old': '    for i in reversed(range(1, len(backpointers))):', 'new': '    for i in reversed(range(2, len(backpointers))):'},
    {'name': 'blank check removed', 'file': F, 'old': '    if blank_symbol in non_blanks:\n', 'new': '    if False:\n'},
    {'name': 'most confident frame replaced by the first frame', 'file': F, 'old': '        best_pos = np.argmax(max_probs[seq_positions])', 'new': '        best_pos = 0'},
    {'name': 'start allowed in any of the first three states', 'file': F, 'old': '    cost[0] = 0.0\n    cost[1] = 0.0\n    return cost', 'new': '    cost[0] = 0.0\n    cost[1] = 0.0\n    cost[:3] = 0.0\n    return cost'},
]


def check_case(np, fa, costs, labels, blank):
    bad = []
    arr = np.asarray(costs, dtype=float)
    want = V.brute_min(costs, labels, blank) if blank not in labels else V.INF
    try:
        path = fa.force_align(arr, list(labels), blank)
        raised = None
    except ValueError as e:
        path, raised = None, e
    if blank in labels:
        if raised is None:
            bad.append(('failure-iff-no-alignment', 'blank among the labels but no failure reported'))
        return bad
    if want == V.INF:
        if raised is None:
            bad.append(('failure-iff-no-alignment', 'no finite alignment exists but %r was returned' % (list(path),)))
        return bad
    if raised is not None:
        bad.append(('failure-iff-no-alignment', 'an alignment of cost %r exists but failure was reported: %s' % (want, raised)))
        return bad
    path = [int(s) for s in path]
    if len(path) != len(costs):
        bad.append(('one-symbol-per-frame', 'path %r for %d frames' % (path, len(costs))))
        return bad
    if collapse(path, blank) != list(labels):
        bad.append(('collapses-to-labels', 'path %r collapses to %r, labels %r' % (path, collapse(path, blank), list(labels))))
    cost = sum(costs[t][s] for t, s in enumerate(path))
    if abs(cost - want) > 1e-9:
        bad.append(('minimum-cost', 'path %r costs %r, minimum %r' % (path, cost, want)))
    # align_text: positions strictly increasing, each the most confident frame of its block
    pos = [int(p) for p in fa.align_text(arr, np.asarray(labels), blank)]
    seq = [int(s) for s in fa.force_align(arr, list(labels), blank, return_seq_positions=True)]
    if any(b <= a for a, b in zip(pos, pos[1:])):
        bad.append(('positions-increasing', 'positions %r' % pos))
    maxp = [max(-c for c in row) for row in costs]
    for i, p in enumerate(pos):
        block = [t for t, s in enumerate(seq) if s == i]
        if not block or p not in block:
            bad.append(('position-in-own-block', 'char %d at frame %d, block %r' % (i, p, block)))
        elif maxp[p] < max(maxp[t] for t in block) - 1e-12:
            bad.append(('most-confident-frame', 'char %d at frame %d (conf %r), block %r has %r' % (i, p, maxp[p], block, [maxp[t] for t in block])))
    return bad


def _chunk(cases):
    core.setup_repo_path()
    import numpy as np
    from pero_ocr.core import force_alignment as fa
    out = {'evaluations': 0, 'nontrivial': 0, 'failures': [], 'samples': []}
    for costs, labels, blank in cases:
        out['evaluations'] += 1
        if len(costs) > len(labels):
            out['nontrivial'] += 1
        try:
            bad = check_case(np, fa, costs, labels, blank)
        except Exception as e:
            bad = [('no-exception', 'raised %r' % (e,))]
        for clause, detail in bad:
            out['failures'].append({'clause': clause, 'input': {'costs': [[repr(x) for x in r] for r in costs], 'labels': list(labels), 'blank': blank}, 'observed': detail})
        if len(out['samples']) < 2 and len(costs) == 3 and len(labels) == 2:
            out['samples'].append({'costs': [[repr(x) for x in r] for r in costs], 'labels': list(labels), 'blank': blank})
    return out


def cases(thorough):
    INF = V.INF
    rows_full = [list(r) for r in itertools.product((0.0, 1.0, INF), repeat=3)]
    rows_small = [[0.0, 1.0, 2.0], [1.0, 0.0, 2.0], [2.0, 1.0, 0.0], [0.0, 0.0, 0.0], [1.0, INF, 0.0], [INF, 0.0, 1.0],
                  [0.0, INF, INF], [INF, INF, 0.0], [0.5, 0.5, 3.0], [3.0, 0.25, 0.25]]
    cs = []
    for blank in (2, 0):
        letters = [c for c in range(3) if c != blank]
        labsets = [l for L in (1, 2, 3) for l in itertools.product(letters, repeat=L)]
        for T in (1, 2):
            for m in itertools.product(rows_full, repeat=T):
                for lab in labsets:
                    if len(lab) <= T + 1:
                        cs.append((list(m), lab, blank))
        for T in (3, 4, 5) if thorough else (3, 4):
            pool = rows_small if T <= (4 if thorough else 3) else rows_small[:5]
            if T == 4 and not thorough:
                pool = rows_small[:5]
            for m in itertools.product(pool, repeat=T):
                for lab in labsets:
                    cs.append((list(m), lab, blank))
        # blank among the labels
        cs.append(([[0.0, 1.0, 2.0]] * 3, (blank, letters[0]), blank))
    return cs


def run(ctx):
    from pyvc import run as vrun
    thorough = ctx.tier == 'thorough'
    ctx.level = 'proof'
    ctx.explanation = (
        'PROVED for all inputs (pyvc): the contracts of force_alignment.py listed under functions_under_contract, including the DP '
        'invariant of viterbi_align (act_cost = V(t,.), V given by the Bellman optimality conditions) and its minimality: V(t, .) is a lower bound of the '
        'accumulated cost of EVERY allowed state path (inductive lemma over an uninterpreted path), so no allowed path ending in a final state is '
        'cheaper than the returned one; force_align (composition): the code builds exactly the expanded cost matrix and CTC topology of the labels, returns the '
        'symbol of the optimal state per frame, and that sequence collapses to the labels (inductive lemma over collapse events); its positions variant: label '
        'indices never decrease and every label owns a frame; align_text: every character sits on the most confident frame of its own block and the positions are strictly increasing. '
        'BOUNDED cross-check: force_align returns one symbol per frame that collapses to the labels with cost equal to the brute-force minimum '
        'over ALL frame labelings, raises exactly when no finite-cost alignment exists or the blank is among the labels; align_text '
        'positions are strictly increasing and each is the most confident frame of its block — on every cost matrix of a finite grid '
        '(costs incl. +inf and ties, blank first or last, labels with immediate repeats, T from fewer to more frames than labels). '
        '"No alignment exists" is read as "no alignment of finite cost".')
    core.setup_repo_path()
    try:
        from contracts import forcealign
        reps = vrun.verify(forcealign.KEYS, forcealign.CONTRACTS, root=core.repo_root(), both=thorough)
        ctx.add_proof_reports(reps, clause='helper contracts of force_alignment.py')
    except ImportError:
        ctx.notes.append('contracts/forcealign.py not present: bounded only')
    cs = bounded.order(cases(thorough), ctx.seed)
    res = bounded.pmap(_chunk, bounded.shard(cs, 64))
    seen = set()
    fails = []
    for f in sorted(res['failures'], key=lambda f: (len(f['input']['costs']), len(f['input']['labels']), str(f['input']))):
        s = sig('rt', 'force_align', f['clause'])
        if s in seen:
            continue
        seen.add(s)
        fails.append(Failure(s, 'run-time contract %s fails: %s on %s' % (f['clause'], f['observed'], f['input']),
                             function='force_align / align_text', input=f['input'], observed=f['observed'], clause=f['clause']))
    ctx.add_bounded('alignment-grid', 'T<=2: all matrices with rows over {0,1,inf}^3; T=3..%d: rows from a pool of 10 (ties, inf, fractional); labels of length 1..3 over the two non-blank symbols incl. repeats; blank index 0 or 2' % (5 if thorough else 4),
                    res['evaluations'], res['nontrivial'], True, res['samples'], fails,
                    rule='every (matrix, labels, blank) of the grid; non-trivial = more frames than labels',
                    clause='collapses to labels; minimum cost over all labelings; failure iff no finite alignment / blank in labels; positions increasing and most confident in block')
    bounded.close()
    ctx.trusted += ['A4: numba.jit(nopython) compute_update behaves as the Python source', 'brute-force enumeration of all labelings is the oracle (specs/viterbi.py)']
    if thorough:
        selftest.run(ctx, MUTANTS)


def replay(entry):
    core.setup_repo_path()
    import numpy as np
    from pero_ocr.core import force_alignment as fa
    inp = entry.get('input') or {}
    if 'costs' not in inp:
        print('replay: obligation %s has no concrete input; solver output:\n%s' % (entry.get('obligation'), entry.get('solver_output')))
        return 1
    costs = [[float(x) for x in r] for r in inp['costs']]
    bad = check_case(np, fa, costs, tuple(inp['labels']), inp['blank'])
    for b in bad:
        print('REPLAY-FAIL', b)
    print('replay: %d problem(s) on %r' % (len(bad), inp))
    return 1 if bad else 0
