"""C04 — greedy transcription is the CTC collapse of the arg-max path.  BOUNDED (see DESIGN.md §5 C04): both decoders
depend on the scores only through the per-frame arg-max (first maximiser on ties), so enumerating every arg-max path
of the stated shapes, in several score styles including exact ties, covers all score values at those shapes modulo the
assumed arg-max semantics of numpy/torch (A3).  No unbounded proof: greedy_decode_ctc is torch tensor code outside the
VC generator's model."""
import itertools
import math
from vf import core, bounded, selftest
from vf.core import Failure, sig
from specs import ctc as S

F = 'pero_ocr/ocr_engine/pytorch_ocr_engine.py'
D = 'pero_ocr/decoding/decoders.py'
MUTANTS = [
    {'name': 'no prepended blank frame (first frame compared with itself)', 'file': F,
     'old': '        scores_probs[:, -1, 0] = 1000\n', 'new': '        scores_probs[:, 0, 0] = 1000\n'},
    {'name': 'adjacent repeats not merged', 'file': F, 'old': '    best[mask] = 0\n', 'new': ''},
    {'name': 'blank class off by one', 'file': F, 'old': '    best[best == scores_probs.shape[1]] = 0', 'new': '    best[best == scores_probs.shape[1] - 1] = 0'},
    {'name': 'stand-alone decoder drops blanks before merging repeats', 'file': D,
     'old': "        reduced = [g[0] for g in itertools.groupby(argmaxes)]\n        decoded = self.symbol_separator.join(self._letters[ind] for ind in reduced if ind != self._blank_ind)",
     'new': "        reduced = [g[0] for g in itertools.groupby(a for a in argmaxes if a != self._blank_ind)]\n        decoded = self.symbol_separator.join(self._letters[ind] for ind in reduced)"},
    {'name': 'stand-alone decoder takes arg-min', 'file': D, 'old': '        argmaxes = logits.argmax(axis=1)', 'new': '        argmaxes = logits.argmin(axis=1)'},
]


def scores_for_path(path, C, style):
    """T x C score rows whose first arg-max is path[t]"""
    rows = []
    for t, s in enumerate(path):
        if style == 'peaky':
            r = [-9.0] * C
            r[s] = -0.001
        elif style == 'near':
            r = [math.log(0.3 - 0.001 * ((t + c) % 3)) for c in range(C)]
            r[s] = math.log(0.3001)
        else:  # 'tie': every class >= s shares the maximum -> the first maximiser is s
            r = [-5.0 if c < s else -1.0 for c in range(C)]
        rows.append(r)
    return rows


def normalise(rows):
    out = []
    for r in rows:
        z = S.lse(*r)
        out.append([x - z for x in r])
    return out


def check_batch(np, torch, pe, dec_mod, engine, paths, C, style):
    chars = ['a', ' ', 'c', 'd'][:C - 1] + ['​']
    letters = chars[:-1] + [dec_mod.BLANK_SYMBOL]
    T = len(paths[0])
    mats = [normalise(scores_for_path(p, C, style)) for p in paths]
    want = [''.join(chars[c] for c in S.collapse(p, C - 1)) for p in paths]
    t = torch.tensor(np.asarray(mats, dtype=np.float32)).permute(0, 2, 1).contiguous()   # N x C x T
    got = pe.greedy_decode_ctc(t.clone(), chars)
    bad = []
    if list(got) != want:
        bad.append(('engine-greedy-is-collapse', 'greedy_decode_ctc %r, collapse of arg-max path %r' % (got, want)))
    eng_text, eng_logits = engine.run_with_logits(t.clone())
    if list(eng_text) != want:
        bad.append(('engine-run_ocr-is-collapse', 'run_ocr %r, expected %r' % (eng_text, want)))
    for n, m in enumerate(mats):
        g = dec_mod.GreedyDecoder(letters)(np.asarray(m, dtype=float)).best_hyp()
        if g != want[n]:
            bad.append(('standalone-greedy-is-collapse', 'GreedyDecoder %r, expected %r' % (g, want[n])))
        if g != got[n]:
            bad.append(('decoders-agree', 'GreedyDecoder %r vs greedy_decode_ctc %r' % (g, got[n])))
        # "all score tensors": the raw (un-normalised) output of a network, every score far below zero, decoded with the normalisation
        # guard switched off as the repository's own tests do - the arg-max path, hence the text, is the same
        g_raw = dec_mod.GreedyDecoder(letters)(np.asarray(m, dtype=float) - 30.0, max_unnormalization=np.inf).best_hyp()
        if g_raw != want[n]:
            bad.append(('standalone-greedy-is-collapse', 'GreedyDecoder on the same scores shifted by -30 (raw network output): %r, expected %r' % (g_raw, want[n])))
    raw = pe.greedy_decode_ctc(t.clone() - 30.0, chars)
    if list(raw) != want:
        bad.append(('engine-greedy-is-collapse', 'greedy_decode_ctc on the same scores shifted by -30: %r, expected %r' % (raw, want)))
    return bad


def make_engine(np, torch, pe):
    class Stub(pe.PytorchEngineLineOCR):
        def __init__(self, chars):
            self.device = torch.device('cpu')
            self.embed_id = None
            self.characters = chars
            self.net_subsampling = 4
            self._next = None
            self.model = lambda x: self._next

        def run_with_logits(self, logits_nct):
            self._next = logits_nct
            n = logits_nct.shape[0]
            return self.run_ocr(np.zeros((n, 4, 8, 3), dtype=np.uint8))
    return Stub


def constructed_engine_check():
    """an engine built by its real constructor from an OCR json (charset with a symbol that two output classes share, e.g. two
    glyph variants written 's') around a TorchScript checkpoint that returns scripted scores: class k is symbol k of the json
    list, whatever the symbols are"""
    core.setup_repo_path()
    import json, os, shutil, tempfile
    import numpy as np
    import torch
    from pero_ocr.ocr_engine import pytorch_ocr_engine as pe
    bad = []
    d = tempfile.mkdtemp(prefix='vf_c04.', dir='/var/tmp')
    try:
        for charset in (['a', 'b', 'c', 'd'], ['s', 'a', 's', 'b'], ['x', 'x', 'y', ' ']):
            C = len(charset) + 1
            paths = [(0, 0, C - 1, 2, 2, 3, C - 1, 1), (2, C - 1, 2, 3, 3, 1, 0, C - 1), (C - 1,) * 8, (3, 2, 1, 0, 0, 1, 2, 3)]
            sc = np.full((len(paths), C, 8), -4.0, dtype=np.float32)
            for n, p_ in enumerate(paths):
                for t, c in enumerate(p_):
                    sc[n, c, t] = 4.0

            class Net(torch.nn.Module):
                def __init__(self, out):
                    super().__init__()
                    self.register_buffer('out', torch.tensor(out))

                def forward(self, x):
                    return self.out[:x.shape[0]]
            torch.jit.script(Net(sc)).save(os.path.join(d, 'net.pt.cpu'))
            with open(os.path.join(d, 'ocr.json'), 'w') as f:
                json.dump({'line_px_height': 4, 'line_vertical_scale': 1, 'checkpoint': 'net.pt', 'characters': charset, 'net_name': 'stub'}, f)
            engine = pe.PytorchEngineLineOCR(os.path.join(d, 'ocr.json'), torch.device('cpu'))
            got = list(engine.run_ocr(np.zeros((len(paths), 4, 32, 3), dtype=np.uint8))[0])
            want = [''.join(charset[c] for c in S.collapse(p_, C - 1)) for p_ in paths]
            if got != want:
                bad.append(('engine-run_ocr-is-collapse', 'engine constructed from a json with characters %r: run_ocr %r, collapse of the arg-max paths through that table %r' % (charset, got, want)))
            if list(engine.characters)[:len(charset)] != charset:
                bad.append(('engine-run_ocr-is-collapse', 'engine constructed from a json with characters %r has the table %r' % (charset, list(engine.characters))))
    finally:
        shutil.rmtree(d, ignore_errors=True)
    return 3, bad


def _chunk(args):
    cases = args
    core.setup_repo_path()
    import numpy as np
    import torch
    torch.set_num_threads(1)
    from pero_ocr.ocr_engine import pytorch_ocr_engine as pe
    from pero_ocr.decoding import decoders as dec_mod
    Stub = make_engine(np, torch, pe)
    out = {'evaluations': 0, 'nontrivial': 0, 'failures': [], 'samples': []}
    for paths, C, style in cases:
        chars = ['a', ' ', 'c', 'd'][:C - 1] + ['​']
        out['evaluations'] += 1
        if any(len(set(p)) > 1 for p in paths):
            out['nontrivial'] += 1
        try:
            bad = check_batch(np, torch, pe, dec_mod, Stub(chars), paths, C, style)
        except Exception as e:
            bad = [('no-exception', 'raised %r' % (e,))]
        for clause, detail in bad:
            out['failures'].append({'clause': clause, 'input': {'argmax_paths': [list(p) for p in paths], 'classes': C, 'style': style}, 'observed': detail})
        if len(out['samples']) < 2 and len(paths) == 2:
            out['samples'].append({'argmax_paths': [list(p) for p in paths], 'classes': C, 'style': style})
    return out


def cases(thorough):
    cs = []
    Tmax = 6 if thorough else 5
    for C in (3, 4):
        for T in range(1, Tmax + 1 if C == 3 else (5 if thorough else 4)):
            for p in itertools.product(range(C), repeat=T):
                for style in ('peaky', 'near', 'tie'):
                    cs.append(((p,), C, style))
    # batches of two / three lines with different content
    for T in (1, 2, 3) if not thorough else (1, 2, 3, 4):
        ps = list(itertools.product(range(3), repeat=T))
        for a in ps:
            for b in ps:
                cs.append(((a, b), 3, 'peaky'))
    ps = list(itertools.product(range(3), repeat=2))
    for a in ps:
        for b in ps:
            for c in ps[::2]:
                cs.append(((a, b, c), 3, 'tie'))
    return cs


def run(ctx):
    thorough = ctx.tier == 'thorough'
    ctx.level = 'other'
    ctx.explanation = (
        'Hybrid. PROVED for all score tensors (N lines x C classes x T frames, any N, C, T >= 1; pyvc, contracts/greedy.py): the batched engine-side '
        'decoder greedy_decode_ctc — after the index arithmetic with the prepended frame and the shifted class ids, entry (n, t) of the symbol matrix '
        'is the first arg-max class AM(n, t) of frame t of line n iff that class is not blank and (t = 0 or it differs from AM(n, t-1)), and -1 '
        'otherwise; the returned text of line n is the join of the characters of the non-negative entries of row n in frame order — i.e. the '
        'CTC collapse of the arg-max path, for every line of every batch (torch tensor operations are modelled by their numpy counterparts).  '
        'BOUNDED: for every arg-max path up to the stated length (3 and 4 classes, blank last), in three score '
        'styles (peaky, near-uniform, exact ties resolved to the first maximiser) and for batches of 2-3 lines with different content, '
        'greedy_decode_ctc, PytorchEngineLineOCR.run_ocr (stub network returning the tensor) and GreedyDecoder(...).best_hyp() all equal '
        'the CTC collapse of the arg-max path mapped through the character table. The decoders read the scores only through arg-max, so '
        'the enumeration covers all score values at these shapes under A3 (arg-max semantics of numpy/torch).  PROVED as well: the stand-alone '
        'GreedyDecoder.__call__ joins the symbols of exactly the frames that survive the collapse of logits.argmax(axis=1), in frame order '
        '(itertools.groupby and the filtered generator modelled as order-preserving filters that track source frames).  The agreement of the two '
        'decoders is bounded only.')
    from pyvc import run as vrun
    from contracts import greedy as GC
    core.setup_repo_path()
    reps = vrun.verify(GC.KEYS, GC.CONTRACTS, root=core.repo_root(), both=thorough)
    ctx.add_proof_reports(reps, clause='engine-side greedy decoder: surviving entries = collapse of the arg-max path')
    ctx.trusted += ['torch.cat / torch.argmax (first maximal index) / slicing / masked assignment / comparison behave as the numpy counterparts modelled in pyvc.lib',
                    'the final per-line step (np.nonzero filter of the non-negative entries, join of the characters) is covered by the models of np.nonzero and of the comprehension, not by a separate obligation']
    cs = bounded.order(cases(thorough), ctx.seed)
    res = bounded.pmap(_chunk, bounded.shard(cs, 48))
    seen = set()
    fails = []
    for f in sorted(res['failures'], key=lambda f: (sum(len(p) for p in f['input']['argmax_paths']), str(f['input']))):
        s = sig('rt', 'greedy', f['clause'])
        if s in seen:
            continue
        seen.add(s)
        fails.append(Failure(s, 'run-time contract %s fails: %s on %s' % (f['clause'], f['observed'], f['input']),
                             function='greedy_decode_ctc / GreedyDecoder.__call__', input=f['input'], observed=f['observed'], clause=f['clause']))
    ctx.add_bounded('argmax-paths', 'all arg-max paths T<=%d (3 classes) and T<=%d (4 classes) x 3 score styles; all pairs of paths T<=%d as batches; triples T=2'
                    % (6 if thorough else 5, 4 if thorough else 3, 4 if thorough else 3),
                    res['evaluations'], res['nontrivial'], True, res['samples'], fails,
                    rule='every arg-max path / batch of the domain; non-trivial = a path with at least two different symbols',
                    clause='greedy = collapse(argmax) for both decoders and the engine; decoders agree; per batch row')
    bounded.close()
    try:
        n_, bad_ = constructed_engine_check()
    except Exception as e:
        n_, bad_ = 3, [('no-exception', 'constructing an engine from a json raised %r' % (e,))]
    ctx.add_bounded('constructed-engine', 'PytorchEngineLineOCR built by its constructor from an OCR json (3 charsets, two of them with a symbol shared by two output classes) around a TorchScript '
                    'checkpoint returning scripted scores: 4 lines each', n_, n_, False, [{'characters': ['s', 'a', 's', 'b']}],
                    [Failure(sig('rt', 'greedy', c_), d_, function='PytorchEngineLineOCR.__init__ / run_ocr', input={'constructed_engine': True}, observed=d_, clause=c_) for c_, d_ in bad_[:1]],
                    rule='fixed cases', clause='class k is symbol k of the configured character table')
    ctx.trusted += ['A3: numpy.argmax / torch.argmax return the first maximiser', 'the 2-D branch of greedy_decode_ctc is not covered (the property quantifies over N x C x T)']
    if thorough:
        selftest.run(ctx, MUTANTS)


def replay(entry):
    core.setup_repo_path()
    import numpy as np
    import torch
    from pero_ocr.ocr_engine import pytorch_ocr_engine as pe
    from pero_ocr.decoding import decoders as dec_mod
    inp = entry['input']
    if inp.get('constructed_engine'):
        n_, bad = constructed_engine_check()
        for b in bad:
            print('REPLAY-FAIL', b)
        print('replay: %d problem(s) with engines constructed from a json' % len(bad))
        return 1 if bad else 0
    C = inp['classes']
    chars = ['a', ' ', 'c', 'd'][:C - 1] + ['​']
    bad = check_batch(np, torch, pe, dec_mod, make_engine(np, torch, pe)(chars), [tuple(p) for p in inp['argmax_paths']], C, inp['style'])
    for b in bad:
        print('REPLAY-FAIL', b)
    print('replay: %d problem(s) on %r' % (len(bad), inp))
    return 1 if bad else 0
