"""C10 — line crops sample the band around the baseline, on every code path.  Partial (DESIGN.md §5 C10): numeric geometry
is BOUNDED (finite grid of baselines, tolerance 0.75 px); the deductive part covers the call-site precondition of the
interpolant (every probe position is inside the node range or the interpolant extrapolates) and the crop shape."""
import itertools
import math
from vf import core, bounded, selftest
from vf.core import Failure, sig

F = 'pero_ocr/core/crop_engine.py'
P = 'pero_ocr/document_ocr/page_parser.py'
MUTANTS = [
    {'name': 'original-defect: cubic interpolant without extrapolation', 'file': F, 'old': "kind='cubic', fill_value='extrapolate')", 'new': "kind='cubic',)"},
    {'name': 'rows run from descender to ascender (flipped)', 'file': F, 'old': 'vertical_map = np.linspace(-line_heights[0], line_heights[1], target_height).reshape(-1, 1)',
     'new': 'vertical_map = np.linspace(line_heights[1], -line_heights[0], target_height).reshape(-1, 1)'},
    {'name': 'fast path forgets the y shift', 'file': F, 'old': '            y_coords_shifted = coords[:, :, 1] - y_min', 'new': '            y_coords_shifted = coords[:, :, 1]'},
    {'name': 'original-defect: mirrored normal on curved baselines', 'file': F, 'old': '        norm_x = d_y / norm_scales', 'new': '        norm_x = -d_y / norm_scales'},
    {'name': 'original-defect: the arc-length table is never advanced (columns uniform in x, not along the curve)', 'file': F,
     'old': 'while forward_mapping[forward_position] < sample_positions[i]:', 'new': 'while forward_mapping[forward_position] > sample_positions[i]:'},
    {'name': 'width ignores the scale', 'file': F, 'old': 'horizontal_sample_count = int(mapping_x_to_line_pos[-1] * scale)', 'new': 'horizontal_sample_count = int(mapping_x_to_line_pos[-1])'},
    {'name': 'descender height not scaled', 'file': F, 'old': 'line_heights = [line_heights[0] * self.scale, line_heights[1] * self.scale]', 'new': 'line_heights = [line_heights[0] * self.scale, line_heights[1]]'},
    {'name': 'heights scaled in place (caller\'s array rescaled by every crop)', 'file': F, 'old': '        line_heights = [line_heights[0] * self.scale, line_heights[1] * self.scale]',
     'new': '        line_heights = np.asarray(line_heights)\n        line_heights *= self.scale'},
    {'name': 'fallback crop with the wrong height', 'file': F, 'old': 'line_crop = np.zeros([self.line_height, 32, img.shape[2]], dtype=np.uint8)', 'new': 'line_crop = np.zeros([32, 32, img.shape[2]], dtype=np.uint8)'},
]


def baselines(thorough):
    out = []
    slopes = [0.0, 0.2, -0.2, 0.7, -0.7, 1.5, -1.5]
    for npts in (2, 3, 4, 5):
        for step in ((20, 57, 111) if thorough else (20, 57)):
            for sl in slopes:
                for off in ((40, 60), (-15, 30), (150, 170)) if thorough else ((40, 60), (-15, 30)):
                    pts = []
                    x, y = off
                    for k in range(npts):
                        # mild curvature: alternate the slope a little
                        pts.append((x, y))
                        x += step
                        y += step * (sl + (0.06 if (k % 2 == 0 and npts > 2) else (-0.06 if npts > 2 else 0.0)))
                    out.append([(int(round(a)), int(round(b))) for a, b in pts])
    # clearly curved baselines (an arc and a gentle S, in two places): the columns must be uniform along the CURVE
    for dx, dy in ((0, 0), (35, 60)):
        out.append([(10 + dx, 100 + dy), (60 + dx, 70 + dy), (110 + dx, 60 + dy), (160 + dx, 70 + dy), (210 + dx, 100 + dy)])
        out.append([(10 + dx, 100 + dy), (60 + dx, 85 + dy), (110 + dx, 100 + dy), (160 + dx, 115 + dy), (210 + dx, 100 + dy)])
    return out


def poly_len(pts):
    return sum(math.hypot(b[0] - a[0], b[1] - a[1]) for a, b in zip(pts, pts[1:]))


def test_image(np, H=260, W=520):
    yy, xx = np.mgrid[0:H, 0:W]
    img = np.stack([xx * 0.2 + yy * 0.3 + 20, xx * 0.35 + 40, yy * 0.6 + 10], axis=2)       # smooth, no wrap-around edges
    return img.astype(np.uint8)


def check_geometry(np, ce, pts, heights, poly, line_height, scale):
    bad = []
    # get_crop_inputs is also called with a target height that is not the engine's configured one (the ALTO export asks a default
    # engine, configured for 32 rows, for 16): for the quadratic order the engine is configured differently from the request
    eng = ce.EngineLineCropper(line_height=(line_height if poly != 2 else 2 * line_height), poly=poly, scale=scale)
    b = np.asarray(pts, dtype=float)
    try:
        coords = eng.get_crop_inputs(b, list(heights), line_height)
    except Exception as e:
        return [('non-degenerate-baseline-is-cropped', 'get_crop_inputs raised %r (interpolation order %d)' % (e, poly))]
    # the same line with its heights as TextLine stores them after import (a float64 array), cropped twice: the line itself is
    # left as it was, and every crop of it is the same map (a crop that rescales the caller's heights in place samples a
    # taller band the next time the line is cropped)
    hs, b2 = np.asarray(heights, dtype=np.float64), b.copy()
    try:
        again = [eng.get_crop_inputs(b2, hs, line_height) for _ in range(2)]
    except Exception as e:
        return [('non-degenerate-baseline-is-cropped', 'get_crop_inputs raised %r for heights given as a float64 array (interpolation order %d)' % (e, poly))]
    if not np.array_equal(hs, np.asarray(heights, dtype=np.float64)) or not np.array_equal(b2, b):
        bad.append(('crop-leaves-the-line-unchanged', 'after cropping, heights %r became %r' % (list(heights), hs.tolist())))
    for k, c in enumerate(again):
        if c.shape != coords.shape or np.abs(c.astype(float) - coords.astype(float)).max() > 1e-3:
            bad.append(('same-line-cropped-again-is-identical', 'crop #%d of the line with array heights has map shape %r, the first crop %r' % (k + 1, c.shape, coords.shape)))
            break
    h0, h1 = heights[0] * scale, heights[1] * scale
    s = line_height / (h0 + h1)
    L = poly_len(pts)
    if coords.shape[0] != line_height or coords.shape[2] != 2:
        bad.append(('crop-height', 'coordinate map shape %r' % (coords.shape,)))
        return bad
    Wc = coords.shape[1]
    # the code measures the curve over the integer x positions left..right-1 (one source pixel short) and truncates: the width may
    # fall short of length x scale by up to one source pixel x scale, plus rounding
    if abs(Wc - L * s) > max(2.5, 0.03 * L * s, s + 1.5):
        bad.append(('crop-width', 'width %d, baseline length %.1f x scale %.3f = %.1f' % (Wc, L, s, L * s)))
    if Wc < 3:
        return bad
    # rows: linear from -h0 to +h1 along the normal
    v = np.linspace(-h0, h1, line_height)
    top, bot = coords[0].astype(float), coords[-1].astype(float)
    span = np.hypot(*(bot - top).T)
    if np.abs(span - (h0 + h1)).max() > 0.75:
        bad.append(('rows-span-ascender-to-descender', 'column span %.2f..%.2f, expected %.2f' % (span.min(), span.max(), h0 + h1)))
    mid = coords[line_height // 2].astype(float)
    lin = top + (bot - top) * ((v[line_height // 2] - v[0]) / (v[-1] - v[0]))
    if np.abs(mid - lin).max() > 0.75:
        bad.append(('rows-linear', 'middle row deviates from the line between first and last row by %.2f px' % np.abs(mid - lin).max()))
    # the baseline row (v = 0) lies h0 below the first row; it follows the baseline from its first to its last point
    base = top + (bot - top) * (h0 / (h0 + h1))
    # modes that FIT a polynomial (order 1; order 0 with fewer than 4 points falls back to a straight-line fit; order 2 with more than
    # 3 points) follow the fitted curve: the end points may miss the baseline's by the residual of that fit
    deg = 1 if (poly == 1 or (poly == 0 and len(b) < 4) or len(b) <= 2) else (2 if poly == 2 else None)
    resid = 0.0
    if deg is not None and len(b) > deg + 1:
        th = math.atan2(b[-1][1] - b[0][1], b[-1][0] - b[0][0])
        rx = b[:, 0] * math.cos(th) + b[:, 1] * math.sin(th)
        ry = -b[:, 0] * math.sin(th) + b[:, 1] * math.cos(th)
        resid = float(np.abs(np.polyval(np.polyfit(rx, ry, deg), rx) - ry).max())
    if np.hypot(*(base[0] - b[0])) > 1.5 + 1.5 * resid or np.hypot(*(base[-1] - b[-1])) > 2.5 + 1.5 * resid:
        bad.append(('columns-from-first-to-last-point', 'baseline row runs %r..%r, baseline %r..%r' % (base[0].round(1).tolist(), base[-1].round(1).tolist(), b[0].tolist(), b[-1].tolist())))
    d = np.hypot(*(base[1:] - base[:-1]).T)
    if d.max() - d.min() > 0.05 * d.mean() + 0.03:
        bad.append(('columns-uniform', 'column spacing along the baseline %.3f..%.3f' % (d.min(), d.max())))
    # first row is above the baseline (smaller y for a left-to-right line), rows perpendicular to it
    direction = base[2:] - base[:-2]
    normal = (bot - top)[1:-1]
    cosang = np.abs((direction * normal).sum(axis=1)) / (np.hypot(*direction.T) * np.hypot(*normal.T) + 1e-12)
    if cosang.max() > 0.12:
        bad.append(('rows-perpendicular', 'rows deviate from the normal: max |cos| %.3f' % cosang.max()))
    cross = direction[:, 0] * normal[:, 1] - direction[:, 1] * normal[:, 0]
    if (cross <= 0).any():
        bad.append(('first-row-is-ascender-side', 'rows run from below the baseline to above it'))
    return bad


def check_pixels(np, cv2, ce, pts, heights, poly):
    """fast path == general path, shift equivariance, exact configured height, no fallback"""
    bad = []
    img = test_image(np)
    eng = ce.EngineLineCropper(line_height=32, poly=poly, scale=1)
    b = np.asarray(pts, dtype=float)
    crop = eng.crop(img, b, list(heights))
    if crop.shape[0] != 32:
        bad.append(('crop-height', 'crop height %d' % crop.shape[0]))
    if crop.shape[1] == 32 and not crop.any() and poly_len(pts) > 40:
        bad.append(('non-degenerate-baseline-is-cropped', 'blank fallback crop for baseline %r (interpolation order %d)' % (pts, poly)))
        return bad
    coords = eng.get_crop_inputs(b, list(heights), 32)
    ref = cv2.remap(img, coords[:, :, 0], coords[:, :, 1], interpolation=cv2.INTER_LINEAR, borderMode=cv2.BORDER_CONSTANT)
    if crop.shape != ref.shape or np.abs(crop.astype(int) - ref.astype(int)).max() > 1:
        bad.append(('fast-path-equals-general-path', 'crop differs from the direct remap of the whole image by %d grey levels' % np.abs(crop.astype(int) - ref.astype(int)).max()))
    dx, dy = 37, 21
    big = np.zeros((img.shape[0] + dy, img.shape[1] + dx, 3), dtype=np.uint8)
    big[dy:, dx:] = img
    crop2 = eng.crop(big, b + np.array([dx, dy]), list(heights))
    inside = (coords[:, :, 0].min() >= 1 and coords[:, :, 1].min() >= 1 and coords[:, :, 0].max() <= img.shape[1] - 2 and coords[:, :, 1].max() <= img.shape[0] - 2)
    if inside:
        # the column count is int(length * scale): when the rotated length is within float round-off of an integer the
        # count may differ by one column between the two runs; then the sampling grids differ and pixels are not compared
        if abs(crop2.shape[1] - crop.shape[1]) > 1 or crop2.shape[0] != crop.shape[0]:
            bad.append(('shift-equivariance', 'crop size changes from %r to %r when image and baseline are shifted together' % (crop.shape, crop2.shape)))
        elif crop2.shape == crop.shape and np.abs(crop2.astype(int) - crop.astype(int)).max() > 2:
            bad.append(('shift-equivariance', 'crop changes by %d grey levels when image and baseline are shifted together' % np.abs(crop2.astype(int) - crop.astype(int)).max()))
    return bad


def check_degenerate(np, ce, pp, layout):
    bad = []
    img = test_image(np)
    cases = {'vertical': ([[50, 40], [50, 120]], [10, 5]), 'single-pixel': ([[60, 60], [61, 60]], [10, 5]), 'zero-heights': ([[40, 60], [140, 62]], [0, 0]),
             'same-point': ([[60, 60], [60, 60]], [10, 5]),
             # heights as the layout engine / the PAGE reader produce them: numpy scalars and arrays (a zero height then gives inf,
             # not ZeroDivisionError)
             'zero-heights-float64': ([[40, 60], [140, 62]], np.zeros(2)), 'zero-heights-float32': ([[40, 60], [140, 62]], np.zeros(2, dtype=np.float32)),
             'zero-heights-numpy-scalars': ([[40, 60], [140, 62]], [np.float64(0), np.float64(0)])}
    for name, (pts, hs) in cases.items():
        for poly in (0, 1, 2):
            eng = ce.EngineLineCropper(line_height=48, poly=poly, scale=1)
            try:
                c = eng.crop(img, np.asarray(pts, dtype=float), hs)
                if c.shape[0] != 48:
                    bad.append(('degenerate-falls-back-to-blank-of-configured-height', '%s (order %d): crop of height %d' % (name, poly, c.shape[0])))
            except Exception as e:
                bad.append(('degenerate-never-an-error', '%s (order %d): crop raised %r' % (name, poly, e)))
    import configparser
    cfg = configparser.ConfigParser()
    cfg.read_dict({'c': {'INTERP': '2', 'LINE_SCALE': '1', 'LINE_HEIGHT': '40'}})
    lc = pp.LineCropper(cfg['c'])
    pl = layout.PageLayout(id='p', page_size=img.shape[:2])
    reg = layout.RegionLayout('r', np.array([[0, 0], [500, 0], [500, 250], [0, 250]]))
    for k, (name, (pts, hs)) in enumerate(cases.items()):
        reg.lines.append(layout.TextLine(id='l%d' % k, baseline=np.asarray(pts, dtype=float), polygon=np.asarray(pts + pts[::-1], dtype=float), heights=hs))
    reg.lines.append(layout.TextLine(id='ok', baseline=np.array([[40., 80.], [240., 95.]]), polygon=np.array([[40, 60], [240, 75], [240, 100], [40, 90]]), heights=[20, 8]))
    pl.regions.append(reg)
    try:
        import io, contextlib
        with contextlib.redirect_stdout(io.StringIO()):
            lc.process_page(img, pl)
        for l in pl.lines_iterator():
            if l.crop is None or l.crop.shape[0] != 40:
                bad.append(('degenerate-falls-back-to-blank-of-configured-height', 'LineCropper: line %s crop %r' % (l.id, None if l.crop is None else l.crop.shape)))
        # the page is cropped again after its good line was moved (refinement stages move baselines between two crops): every line
        # is cropped from where it is NOW, whatever crop it carried before
        ok = [l for l in pl.lines_iterator() if l.id == 'ok'][0]
        first = ok.crop.copy()
        ok.baseline = ok.baseline + np.array([120., 60.])
        ok.polygon = ok.polygon + np.array([120., 60.])
        with contextlib.redirect_stdout(io.StringIO()):
            lc.process_page(img, pl)
        want = ce.EngineLineCropper(line_height=40, poly=2, scale=1).crop(img, ok.baseline, ok.heights)
        if ok.crop is None or ok.crop.shape != want.shape or np.abs(ok.crop.astype(int) - want.astype(int)).max() > 1:
            bad.append(('non-degenerate-baseline-is-cropped', 'LineCropper.process_page on a page that was cropped before: the moved line still has %s'
                        % ('its old crop' if ok.crop is not None and ok.crop.shape == first.shape and np.array_equal(ok.crop, first) else 'a crop that is not the band around its baseline')))
    except Exception as e:
        bad.append(('degenerate-never-an-error', 'LineCropper.process_page raised %r' % (e,)))
    return bad


def _chunk(items):
    core.setup_repo_path()
    import warnings
    warnings.simplefilter('ignore')
    import numpy as np
    import cv2
    cv2.setNumThreads(1)
    from pero_ocr.core import crop_engine as ce
    import io, contextlib
    out = {'evaluations': 0, 'nontrivial': 0, 'failures': [], 'samples': []}
    for pts, heights, poly, lh, sc, pixels in items:
        out['evaluations'] += 1
        out['nontrivial'] += 1 if len(pts) > 2 else 0
        try:
            with contextlib.redirect_stdout(io.StringIO()):
                bad = check_geometry(np, ce, pts, heights, poly, lh, sc)
                if pixels:
                    bad += check_pixels(np, cv2, ce, pts, heights, poly)
        except Exception as e:
            bad = [('no-exception', 'raised %r' % (e,))]
        for clause, detail in bad:
            out['failures'].append({'clause': clause, 'input': {'baseline': [list(p) for p in pts], 'heights': list(heights), 'order': poly, 'line_height': lh, 'scale': sc, 'pixels': pixels}, 'observed': detail})
        if len(out['samples']) < 2 and len(pts) == 4:
            out['samples'].append({'baseline': [list(p) for p in pts], 'heights': list(heights), 'order': poly, 'line_height': lh, 'scale': sc})
    return out


def plans(thorough):
    out = []
    bl = baselines(thorough)
    for pts in bl:
        if abs(pts[-1][1] - pts[0][1]) > 1.75 * abs(pts[-1][0] - pts[0][0]):
            continue                       # steeper than 60 degrees: outside the property's slope range
        for poly in (0, 1, 2):
            if len(pts) == 5 and pts[0][1] == pts[-1][1] and pts[0] in ((10, 100), (45, 160)):
                # the clearly curved baselines: a degree-1 / degree-2 least-squares fit is not an interpolation of them, so only the
                # modes that pass through the points are held to "from the first to the last point" (cubic; parabola for the arc)
                if poly == 1 or (poly == 2 and pts[1][1] < pts[2][1]):
                    continue
            for heights, lh, sc in (((20, 10), 32, 1.0), ((8, 3), 16, 0.8), ((20, 10), 64, 1.5)) if thorough else (((20, 10), 32, 1.0), ((8, 3), 16, 1.5)):
                out.append((pts, heights, poly, lh, sc, lh == 32))
    return out


def run(ctx):
    thorough = ctx.tier == 'thorough'
    ctx.level = 'other'
    ctx.explanation = (
        'Hybrid. PROVED for all arc-length tables and sample lists (pyvc, contracts/cropping.py): EngineLineCropper.reverse_line_mapping returns, for '
        'every sample, the piecewise-linear inverse of the (strictly increasing) arc-length table at that arc length — the x position of a crop '
        'column is the point of the baseline at that distance along the curve, so uniformly spaced samples (np.linspace in get_crop_inputs) give '
        'columns that advance uniformly along the baseline; no division by zero, no index outside the table, the inner search terminates.  '
        'PROVED (slice of get_crop_inputs: the statements that compute vertical_map, scale and the sample count, re-extracted on every run, for all '
        'positive heights given as a list or as a float64 array, any positive configured scale, target height >= 2): the row offsets run linearly from '
        '-(ascender x scale) to +(descender x scale), the width is int(length x target height / scaled line height), and the heights object of the '
        'caller is not written (rotation, interpolant and normals are dropped from the slice).  '
        'BOUNDED numeric (tolerance 0.75 px; column spacing within 5%): on a grid of integer baselines (2-5 points, steps, slopes up to '
        '+-1.5 within 60 degrees, mild curvature, an arc and an S-shaped baseline, in and partly outside the page) x interpolation orders 0/1/2 x '
        'heights / line heights / scales: map height = configured height, width = length x scale, columns uniform from first to last point, rows '
        'linear from ascender to descender along the normal, fast path == general path, shift equivariance, no blank fallback; degenerate lines '
        '(vertical, single pixel, zero heights) fall back to a blank image of the configured height in crop() and LineCropper, never an error.  '
        'Trigonometry, scipy interpolation and cv2.remap are not reasoned about.')
    core.setup_repo_path()
    from pyvc import run as vrun
    from contracts import cropping
    reps = vrun.verify(cropping.KEYS, cropping.CONTRACTS, root=core.repo_root(), both=thorough)
    ctx.add_proof_reports(reps, clause='column x positions = arc-length inverse at the sampled arc lengths (uniform along the baseline)')
    from pyvc import solve
    breps = cropping.reports(core.repo_root())
    for r in breps:
        for vc in r.vcs:
            vc.func = r.name
    solve.discharge([vc for r in breps for vc in r.vcs], {r.name: r.axioms for r in breps})
    ctx.add_proof_reports(breps, clause="rows run linearly from the scaled ascender height above the baseline to the scaled descender height below it; "
                                        "width = length x target height / scaled line height; the caller's heights are left unchanged")
    ctx.trusted += ['A4: the numba object-mode jit of reverse_line_mapping behaves as the Python source',
                    'callers (get_crop_inputs) satisfy the precondition: strictly increasing arc-length table, non-decreasing samples within it (not proved: numpy/scipy geometry)']
    import numpy as np
    from pero_ocr.core import crop_engine as ce, layout
    from pero_ocr.document_ocr import page_parser as pp
    fails = []
    for clause, detail in check_degenerate(np, ce, pp, layout):
        if not any(f.signature == sig('rt', 'crop', clause) for f in fails):
            fails.append(Failure(sig('rt', 'crop', clause), detail, function='EngineLineCropper.crop / LineCropper.process_page', input={'case': 'degenerate'}, observed=detail, clause=clause))
    ctx.add_bounded('degenerate-lines', '7 degenerate lines (vertical, single pixel, same point, zero heights as python numbers / numpy arrays / numpy scalars) x 3 interpolation orders through crop(); LineCropper.process_page over a page with them', 22, 22, True,
                    [{'baseline': [[50, 40], [50, 120]], 'heights': [10, 5]}], fails, rule='fixed cases', clause='blank image of the configured height, never an error')
    items = bounded.order(plans(thorough), ctx.seed)
    res = bounded.pmap(_chunk, bounded.shard(items, 64))
    seen = set()
    fails = []
    for f in sorted(res['failures'], key=lambda f: (len(f['input']['baseline']), str(f['input']))):
        s = sig('rt', 'crop', f['clause'])
        if s in seen:
            continue
        seen.add(s)
        fails.append(Failure(s, 'crop contract %s fails: %s on %s' % (f['clause'], f['observed'], f['input']), function='EngineLineCropper.get_crop_inputs / crop',
                             input=f['input'], observed=f['observed'], clause=f['clause']))
    ctx.add_bounded('crop-geometry', 'integer baselines of 2..5 points x steps x 7 slopes x offsets (partly outside the page) x orders 0/1/2 x (heights, line height, scale) variants',
                    res['evaluations'], res['nontrivial'], False, res['samples'], fails,
                    rule='every baseline of the grid x orders x size variants; non-trivial = more than two points', clause='geometric contract of the coordinate map and of the pixels (0.75 px / 1-2 grey levels)')
    bounded.close()
    ctx.trusted += ['A6: cv2.remap, scipy.interpolate, numpy polyfit', 'continuous geometry beyond the grid is not decided (numeric, bounded)']
    if thorough:
        selftest.run(ctx, MUTANTS)


def replay(entry):
    core.setup_repo_path()
    inp = entry.get('input') or {}
    if 'baseline' in inp:
        r = _chunk([([tuple(p) for p in inp['baseline']], tuple(inp['heights']), inp['order'], inp['line_height'], inp['scale'], inp['pixels'])])
        bad = [(f['clause'], f['observed']) for f in r['failures']]
    elif inp.get('case') == 'degenerate':
        import numpy as np
        from pero_ocr.core import crop_engine as ce, layout
        from pero_ocr.document_ocr import page_parser as pp
        bad = check_degenerate(np, ce, pp, layout)
    else:
        print('replay: obligation %s has no concrete input; solver output:\n%s' % (entry.get('obligation'), entry.get('solver_output')))
        return 1
    for b in bad:
        print('REPLAY-FAIL', b)
    print('replay: %d problem(s) on %r' % (len(bad), inp))
    return 1 if bad else 0
