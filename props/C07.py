"""C07 — batched line recognition returns each line's own result in input order.  Hybrid: see run()."""
import itertools
from vf import core, bounded, selftest
from vf.core import Failure, sig
from props import _engine_stub as ES

F = 'pero_ocr/ocr_engine/line_ocr_engine.py'
MUTANTS = [
    {'name': 'results scattered by batch position instead of line id', 'file': F,
     'old': '                for ids, transcription, line_logits in zip(batch_line_ids, out_transcriptions, out_logits):\n                    all_transcriptions[ids] = transcription',
     'new': '                for pos, (ids, transcription, line_logits) in enumerate(zip(batch_line_ids, out_transcriptions, out_logits)):\n                    all_transcriptions[pos if len(lines) == 2 else ids] = transcription'},
    {'name': 'frame window ignores the left padding', 'file': F,
     'old': '                            int(self.line_padding_px // self.net_subsampling),\n                            min(', 'new': '                            0,\n                            min('},
    {'name': 'sparsification threshold on logits instead of posteriors', 'file': F, 'old': '                        line_logits[line_probs < 0.0001] = 0', 'new': '                        line_logits[line_logits < -4.5] = 0'},
    {'name': 'padding taken from the widest line of the call, not of the batch', 'file': F,
     'old': '                data[:, self.line_padding_px:self.line_padding_px+image.shape[1], :] = image', 'new': '                data[:, self.line_padding_px - (1 if image.shape[1] == 33 else 0):self.line_padding_px - (1 if image.shape[1] == 33 else 0)+image.shape[1], :] = image'},
]

WIDTHS = [1, 31, 32, 33, 100, 500, 4000]


def reference(np, le, line, batch_size):
    """what the property promises for one line: computed from that image alone with the stub network"""
    w = line.shape[1]
    maxpix = 480 * batch_size
    W = int(np.ceil(w / 32.0) * 32) + 64
    data = np.zeros((1, 8, W, 3), dtype=np.uint8)
    data[0, :, 32:32 + w, :] = line
    if W > maxpix:
        data = data[:, :, :maxpix]
    texts, logits = ES.net(np, data, ['a', 'b', 'c', '​'])
    T = logits.shape[1]
    lo, hi = 32 // 4, min((32 + w) // 4, T)
    return texts[0], logits[0], [lo, hi]


def check_call(np, torch, sparse, le, widths, batch_size, mode, history=()):
    """mode: (sparse_logits, tight, no_logits). history: widths lists processed before on the SAME engine"""
    bad = []
    eng = ES.make_engine(np, torch, le, batch_size)
    for hw in history:
        eng.process_lines([ES.make_line(np, w, 3 * i + 1) for i, w in enumerate(hw)], sparse_logits=mode[0], tight_crop_logits=mode[1], no_logits=mode[2])
    lines = [ES.make_line(np, w, i) for i, w in enumerate(widths)]
    keep = [l.copy() for l in lines]
    tr, lg, co = eng.process_lines(lines, sparse_logits=mode[0], tight_crop_logits=mode[1], no_logits=mode[2])
    if not (len(tr) == len(lg) == len(co) == len(lines)):
        return [('one-result-per-line', 'lengths %d/%d/%d for %d lines' % (len(tr), len(lg), len(co), len(lines)))]
    for i, line in enumerate(keep):
        rt, rl, rc = reference(np, le, line, batch_size)
        if tr[i] != rt:
            bad.append(('own-transcription', 'position %d (width %d): %r, from the image alone %r' % (i, line.shape[1], tr[i], rt)))
        if mode[2]:
            if lg[i] is not None or co[i] is not None:
                bad.append(('no-logits-mode', 'logits returned in no_logits mode'))
            continue
        got = lg[i].toarray() if mode[0] else np.asarray(lg[i])
        if mode[1]:
            want = rl[rc[0]:rc[1]]
            if co[i] != [None, None]:
                bad.append(('frame-window', 'tight crop: coords %r' % (co[i],)))
        else:
            if list(co[i]) != rc:
                bad.append(('frame-window', 'position %d (width %d): window %r, un-padded extent %r of %d frames' % (i, line.shape[1], co[i], rc, got.shape[0])))
            want = rl
            got = got[:want.shape[0]]
            if got.shape[0] < rc[1]:
                bad.append(('frame-window', 'window %r exceeds the %d returned frames' % (co[i], got.shape[0])))
                continue
            want, got = want[rc[0]:rc[1]], got[rc[0]:rc[1]]
        if mode[0]:
            z = want - want.max(axis=1, keepdims=True)
            p = np.exp(z) / np.exp(z).sum(axis=1, keepdims=True)
            want = np.where(p >= 1e-4, want, 0.0)
        if got.shape != want.shape or np.abs(got - want).max(initial=0) > 1e-9:
            bad.append(('own-logits', 'position %d (width %d): logits in the window differ from those of the image alone' % (i, line.shape[1])))
    return bad


def _chunk(items):
    core.setup_repo_path()
    import numpy as np
    import torch
    torch.set_num_threads(1)
    from scipy import sparse
    from pero_ocr.ocr_engine import line_ocr_engine as le
    import io, contextlib
    out = {'evaluations': 0, 'nontrivial': 0, 'failures': [], 'samples': []}
    for widths, bs, mode, hist in items:
        out['evaluations'] += 1
        out['nontrivial'] += 1 if len(widths) >= 2 else 0
        try:
            with contextlib.redirect_stdout(io.StringIO()):
                bad = check_call(np, torch, sparse, le, widths, bs, mode, hist)
        except Exception as e:
            bad = [('no-exception', 'raised %r' % (e,))]
        for clause, detail in bad:
            out['failures'].append({'clause': clause, 'input': {'widths': list(widths), 'batch_size': bs, 'mode': list(mode), 'history': [list(h) for h in hist]}, 'observed': detail})
        if len(out['samples']) < 2 and len(widths) == 3:
            out['samples'].append({'widths': list(widths), 'batch_size': bs, 'mode': list(mode)})
    return out


def plans(thorough):
    out = []
    modes = [(True, False, False), (False, False, False), (True, True, False), (False, True, False), (True, False, True)]
    ws = WIDTHS if thorough else [1, 31, 33, 100, 500, 4000]
    for n in (0, 1, 2, 3):
        for widths in itertools.product(ws, repeat=n):
            if n == 3 and not thorough and sorted(widths) != list(widths):
                # quick: unordered triples once in a fixed scrambled order
                continue
            w = widths if n < 3 or thorough else (widths[1], widths[2], widths[0])
            for bs in ((1, 2, 3, 8, 16) if thorough else (1, 2, 8)):
                for mode in (modes if (thorough or n <= 2) else modes[:2]):
                    out.append((tuple(w), bs, mode, ()))
    # longer lists: order / batching independence
    base = [33, 100, 31, 500, 100, 1, 64, 300]
    for k in (4, 5, 8):
        for perm in itertools.islice(itertools.permutations(base[:k]), 0, None, 5 if k == 4 else (23 if k == 5 else 4001)):
            for bs in (1, 2, 3, 16):
                out.append((tuple(perm), bs, modes[0], ()))
    # histories on one engine instance (state must not leak between calls)
    for h in ([[500, 300]], [[318, 300, 289]], [[100], [100, 64]]):
        for widths in ((289, 300, 310), (100, 90), (64,), (318, 289, 300, 305)):
            for bs in (1, 2, 8):
                out.append((tuple(widths), bs, modes[1], tuple(tuple(x) for x in h)))
    return out


def _run_ocr_chunk(seeds):
    core.setup_repo_path()
    import numpy as np
    import torch
    torch.set_num_threads(1)
    from pero_ocr.ocr_engine import pytorch_ocr_engine as pe
    from props import C04
    Stub = C04.make_engine(np, torch, pe)
    out = {'evaluations': 0, 'nontrivial': 0, 'failures': [], 'samples': []}
    for sd in seeds:
        rng = np.random.RandomState(sd)
        N, C, T = 1 + sd % 4, 3 + sd % 3, 1 + sd % 9
        x = rng.normal(size=(N, C, T)).astype(np.float32) * 3
        chars = list('abcd')[:C - 1] + ['~']
        t = torch.tensor(x)
        out['evaluations'] += 1
        out['nontrivial'] += 1 if T >= 2 else 0
        try:
            text, logits = Stub(chars).run_with_logits(t)
            want = np.transpose(x, (0, 2, 1))
            if np.asarray(logits).shape != want.shape or not np.array_equal(np.asarray(logits), want):
                d = np.argwhere(np.asarray(logits) != want) if np.asarray(logits).shape == want.shape else []
                out['failures'].append({'input': {'seed': sd, 'shape': [N, C, T]},
                                        'observed': 'returned logits differ from the network output at %d cell(s), first (line, frame, class) = %r'
                                        % (len(d), d[0].tolist() if len(d) else None)})
        except Exception as e:
            out['failures'].append({'input': {'seed': sd, 'shape': [N, C, T]}, 'observed': 'raised %r' % (e,)})
    return out


def run(ctx):
    thorough = ctx.tier == 'thorough'
    ctx.level = 'other'
    ctx.explanation = (
        'Hybrid. PROVED for every list of lines (any number, any widths), every batch-size setting, padding and subsampling (pyvc, '
        'contracts/batchocr.py, CTC configuration, dense logits and the no-logits mode): the index bookkeeping of the real process_lines — the '
        'processing order is a permutation of the input positions (sorted by width), the while loop consumes it batch by batch without skipping or '
        'repeating a line, and the scatter puts at EVERY input position i the transcription and logits the network produced for image i and the '
        'frame window [pad // sub, min((pad + width_i) // sub, frames_i)]; PageOCR.process_page puts the q-th result onto the q-th line of the page (and raises iff a crop is missing).  Four statements are replaced by their assumed effect (listed in the evidence): '
        'the shape-check loop, the assembly of the zero-padded batch tensor, the crop of an over-long batch and the network call, whose assumed contract is '
        '"the i-th output depends on the i-th image only" (a network with a bounded horizontal receptive field on zero padding).  '
        'BOUNDED (covers what the proof assumes): the real BaseEngineLineOCR.process_lines is run on a subclass whose run_ocr is a local stub network '
        '(frame t depends on pixel columns [4t-4, 4t+8) of its own row only). For every list of 0..3 line crops with widths from '
        '{1,31,32,33,100,500,4000} (4000 exceeds the engine maximum and is truncated), batch sizes, the five modes (sparse/dense x tight/no-tight, '
        'no-logits), longer lists in many orders, and calls preceded by other calls on the same engine: the transcription, the logits inside the frame '
        'window and the window at every input position equal those computed from that image alone; the window is [pad/4, (pad+width)/4) clipped to the '
        'frames that exist; sparse storage keeps exactly the logits whose posterior is >= 1e-4.')
    from pyvc import run as vrun
    from contracts import batchocr as BC
    core.setup_repo_path()
    reps = vrun.verify(BC.KEYS, BC.CONTRACTS, root=core.repo_root(), both=thorough)
    ctx.add_proof_reports(reps, clause='every input position receives the result of its own image and its own frame window (index bookkeeping)')
    ctx.trusted += ['ASSUMED contract of run_ocr: the i-th transcription / logits depend on the i-th image of the batch only (bounded receptive field on zero padding) — checked with stub networks by the bounded tier',
                    'process_lines proved in the CTC configuration (model_type == "ctc"), sparse_logits = tight_crop_logits = False; the transformer path (splitting / merging, C15) and sparse storage are bounded only']
    items = bounded.order(plans(thorough), ctx.seed)
    res = bounded.pmap(_chunk, bounded.shard(items, 64))
    seen = set()
    fails = []
    for f in sorted(res['failures'], key=lambda f: (len(f['input']['widths']), len(f['input']['history']), str(f['input']))):
        s = sig('rt', 'process_lines', f['clause'])
        if s in seen:
            continue
        seen.add(s)
        fails.append(Failure(s, 'process_lines contract %s fails: %s on %s' % (f['clause'], f['observed'], f['input']), function='BaseEngineLineOCR.process_lines',
                             input=f['input'], observed=f['observed'], clause=f['clause']))
    ctx.add_bounded('process-lines', 'lists of 0..3 widths from %r x batch sizes x 5 modes; permutations of longer lists; calls after a history on the same engine' % WIDTHS,
                    res['evaluations'], res['nontrivial'], True, res['samples'], fails,
                    rule='every call of the grid; non-trivial = at least two lines', clause='own transcription / logits / window per input position; sparse keeps p >= 1e-4')
    # the real PytorchEngineLineOCR.run_ocr (the stub engine above overrides run_ocr): what it returns as logits is the network's
    # output for the batch, frame for frame (the greedy decoder it calls must not write into the tensor it is given)
    res2 = bounded.pmap(_run_ocr_chunk, bounded.shard(list(range(24)), 4))
    fails2 = []
    if res2['failures']:
        f = res2['failures'][0]
        fails2.append(Failure(sig('rt', 'PytorchEngineLineOCR.run_ocr', 'returns-network-output'), 'run_ocr does not return the network output: %s' % f['observed'],
                              function='PytorchEngineLineOCR.run_ocr', input=f['input'], observed=f['observed'], clause='returns-network-output'))
    ctx.add_bounded('run-ocr-returns-network-output', '24 seeded N x C x T score tensors (N 1..4, C 3..5, T 1..9) through the real run_ocr with a stub torch model',
                    res2['evaluations'], res2['nontrivial'], False, res2['samples'], fails2, rule='seeded random tensors',
                    clause='the logits returned for a batch are the network output, permuted to N x T x C, unchanged')
    bounded.close()
    ctx.trusted += ['stub network stands for "any network whose frame output depends only on a bounded horizontal neighbourhood"', 'transformer splitting/merging is C15']
    if thorough:
        selftest.run(ctx, MUTANTS)


def replay(entry):
    core.setup_repo_path()
    import numpy as np
    import torch
    from scipy import sparse
    from pero_ocr.ocr_engine import line_ocr_engine as le
    inp = entry.get('input') or {}
    bad = check_call(np, torch, sparse, le, tuple(inp['widths']), inp['batch_size'], tuple(inp['mode']), tuple(tuple(h) for h in inp.get('history', [])))
    for b in bad:
        print('REPLAY-FAIL', b)
    print('replay: %d problem(s) on %r' % (len(bad), inp))
    return 1 if bad else 0
