"""C19 — engine merging keeps, per line, the most confident engine's result.

Proved (unbounded, heap model): merge_layouts, for any number of engines and lines: per line position the three
copied fields come from the first arg-max engine, the maximum is recorded as line confidence when positive, all other
line objects and all other fields are untouched (frame).  Bounded: the same contract on real PageLayout/TextLine
objects with the real get_confidences, exhaustive over small engine tuples, including self-merge (aliased and copied).
"""
import copy
import itertools
from vf import core, bounded, selftest
from vf.core import Failure, sig

F = 'user_scripts/merge_ocr_results.py'
MUTANTS = [
    {'name': 'original-defect best_confidence = 0', 'file': F, 'old': 'best_confidence = -np.inf', 'new': 'best_confidence = 0'},
    {'name': 'last engine wins ties', 'file': F, 'old': 'if line_confidence > best_confidence:', 'new': 'if line_confidence >= best_confidence:'},
    {'name': 'character table not copied', 'file': F, 'old': '                merged_line.characters = line.characters\n', 'new': ''},
    {'name': 'non-positive maximum recorded', 'file': F,
     'old': '                if line_confidence > 0:\n                    merged_line.transcription_confidence = line_confidence',
     'new': '                merged_line.transcription_confidence = line_confidence'},
    {'name': 'geometry field altered', 'file': F, 'old': '                merged_line.characters = line.characters\n',
     'new': '                merged_line.characters = line.characters\n                merged_line.heights = line.heights\n'},
    {'name': 'logits taken from the first engine', 'file': F, 'old': 'merged_line.logits = line.logits', 'new': 'merged_line.logits = lines[0].logits'},
]

KINDS = ['empty', 'zero', 'low', 'high', 'high2', 'unalign']


def make_line(np, sparse, lid, kind, engine):
    """a TextLine whose real get_confidences() has a known mean: empty -> no confidences, zero -> 0 (CTC path, label never
    the best class), low -> 0.3, high/high2 -> 0.7 (transformer path: one row per character)"""
    from pero_ocr.core.layout import TextLine
    chars = ['a', 'b', 'c', '~'] if engine % 2 == 0 else ['c', 'a', 'b', 'x', '~']
    C = len(chars)
    # unalign: 'aaa' needs five CTC frames, the line has four: the transcription cannot be aligned and every character counts 0.5
    tr = {'empty': '', 'zero': 'a', 'low': 'ab', 'high': 'ba', 'high2': 'cab', 'unalign': 'aaa'}[kind]

    def row(label, p):
        r = np.full(C, (1.0 - p) / (C - 1))
        r[label] = p
        return np.log(r)
    if kind == 'empty':
        lg = np.log(np.full((2, C), 1.0 / C))
    elif kind == 'unalign':
        r = np.full(C, 0.1 / (C - 1))
        r[chars.index('a')] = 0.9
        lg = np.log(np.stack([r / r.sum()] * 4))
    elif kind == 'zero':
        other = (chars.index('a') + 1) % (C - 1)
        r = np.full(C, 0.05 / (C - 2))
        r[chars.index('a')] = 0.15
        r[other] = 0.8
        lg = np.log(np.stack([r, r]))
    else:
        p = 0.3 if kind == 'low' else 0.7
        lg = np.stack([row(chars.index(ch), p) for ch in tr])
    return TextLine(id=lid, baseline=np.array([[0, 10], [50, 10]]), polygon=np.array([[0, 0], [50, 0], [50, 20], [0, 20]]),
                    heights=np.array([8.0, 3.0]), transcription=tr, logits=sparse.csc_matrix(lg), characters=chars,
                    logit_coords=[0, lg.shape[0]], transcription_confidence=0.123, index=7)


def make_layout(np, sparse, kinds, engine, mixed=False, split=False):
    """mixed: the lines of one page carry different character tables, as the result of an earlier merge of engines with
    different charsets does (merging is applied repeatedly: merge(merge(A, B), C))"""
    from pero_ocr.core.layout import PageLayout, RegionLayout
    pl = PageLayout(id='page', page_size=(100, 100))
    reg = RegionLayout('r1', np.array([[0, 0], [90, 0], [90, 90], [0, 90]]))
    pl.regions.append(reg)
    for li, k in enumerate(kinds):
        if split and li == 1:
            # the same lines (same ids, same order) grouped into regions differently, as another layout analysis does
            reg = RegionLayout('r2', np.array([[0, 0], [90, 0], [90, 90], [0, 90]]))
            pl.regions.append(reg)
        reg.lines.append(make_line(np, sparse, 'r1-l%03d' % li, k, engine + (li if mixed else 0)))
    return pl


GEOM = ('id', 'index', 'baseline', 'polygon', 'heights', 'logit_coords')


def snapshot(line):
    return {f: getattr(line, f) for f in ('transcription', 'logits', 'characters', 'transcription_confidence') + GEOM}


def reference_confidence(np, line):
    """the line score the merge is specified with, computed apart from merge_ocr_results.get_confidences: mean per-character
    confidence over the line's OWN character table; 0.5 per character when the transcription cannot be aligned; -10 for no text"""
    from pero_ocr.core.confidence_estimation import get_line_confidence
    if line.transcription is None or line.transcription == '':
        return -10.0
    table = {}
    for i, c in enumerate(line.characters):
        table[c] = i
    labels = np.asarray([table[c] for c in line.transcription])
    try:
        import io, contextlib
        with contextlib.redirect_stdout(io.StringIO()):
            conf = get_line_confidence(line, labels)
    except ValueError:
        conf = np.ones(len(line.transcription)) * 0.5
    return float(np.mean(conf))


def check_case(np, sparse, mor, engines_kinds, alias=None):
    """engines_kinds: tuple (per engine) of tuples (per line) of kinds. returns list of problems"""
    layouts = [make_layout(np, sparse, ks, e, mixed=(alias == 'mixed'), split=(alias == 'grouped' and e % 2 == 0)) for e, ks in enumerate(engines_kinds)]
    if alias in ('mixed', 'grouped'):
        alias = None
    if alias == 'same':
        layouts = [layouts[0], layouts[0]]
    elif alias == 'copy':
        layouts = [layouts[0], copy.deepcopy(layouts[0])]
    before = [[snapshot(l) for l in pl.lines_iterator()] for pl in layouts]
    confs = []
    for pl in layouts:
        cs = []
        for l in pl.lines_iterator():
            cs.append(reference_confidence(np, l))
        confs.append(cs)
    if alias == 'incremental':
        # the first result is merged with the second engine, and what came out of that with the others (as when engines are added one
        # by one): the first arg-max engine over ALL of them wins, exactly as in a single merge
        mor.merge_layouts(layouts[:2])
        mor.merge_layouts([layouts[0]] + layouts[2:])
        alias = None
    else:
        mor.merge_layouts(layouts)
    bad = []
    nlines = len(before[0])
    for p in range(nlines):
        cs = [confs[e][p] for e in range(len(layouts))]
        best = max(cs)
        arg = cs.index(best)
        m = list(layouts[0].lines_iterator())[p]
        src = before[arg][p]
        for f in ('transcription', 'logits', 'characters'):
            if getattr(m, f) is not src[f] and not (f == 'transcription' and m.transcription == src[f]):
                bad.append('line %d: %s is not that of engine %d (confidences %r)' % (p, f, arg, cs))
        want_conf = best if best > 0 else before[0][p]['transcription_confidence']
        if m.transcription_confidence != want_conf:
            bad.append('line %d: transcription_confidence %r, expected %r (confidences %r)' % (p, m.transcription_confidence, want_conf, cs))
        for f in GEOM:
            if getattr(m, f) is not before[0][p][f]:
                bad.append('line %d: field %s altered' % (p, f))
    for e in range(1, len(layouts)):
        if layouts[e] is layouts[0]:
            continue
        for p, l in enumerate(layouts[e].lines_iterator()):
            for f, v in before[e][p].items():
                if getattr(l, f) is not v:
                    bad.append('engine %d line %d: input field %s altered' % (e, p, f))
    if alias:
        for p, l in enumerate(layouts[0].lines_iterator()):
            for f, v in before[0][p].items():
                cur = getattr(l, f)
                same = cur is v or (f == 'transcription_confidence' and cur == v)
                if alias == 'copy' and f in ('logits', 'characters', 'transcription'):
                    same = same or (f == 'transcription' and cur == v) or (f == 'characters' and cur == v) or \
                        (f == 'logits' and (cur != v).nnz == 0)
                # self-merge may record the line's own mean confidence (when positive): that is the contract
                if f == 'transcription_confidence' and confs[0][p] > 0:
                    same = cur == confs[0][p]
                if not same:
                    bad.append('self-merge changed %s of line %d' % (f, p))
    return bad


def _chunk(cases):
    core.setup_repo_path()
    import numpy as np
    from scipy import sparse
    import merge_ocr_results as mor
    out = {'evaluations': 0, 'nontrivial': 0, 'failures': [], 'samples': []}
    for ek, alias in cases:
        out['evaluations'] += 1
        if len(ek) >= 2 and len({k for ks in ek for k in ks}) >= 2:
            out['nontrivial'] += 1
        try:
            bad = check_case(np, sparse, mor, ek, alias)
        except SystemExit:
            bad = ['merge_layouts exited']
        except Exception as e:
            bad = ['raised %r' % (e,)]
        for b in bad:
            out['failures'].append({'input': {'engines': [list(k) for k in ek], 'alias': alias}, 'observed': b})
        if len(out['samples']) < 2 and len(ek) == 2:
            out['samples'].append({'engines': [list(k) for k in ek], 'alias': alias})
    return out


def cases(thorough):
    cs = []
    for n in (1, 2, 3):
        for nl in (1, 2):
            if n == 3 and nl == 2 and not thorough:
                continue
            per_engine = list(itertools.product(KINDS, repeat=nl))
            for ek in itertools.product(per_engine, repeat=n):
                cs.append((ek, None))
    # pages whose lines carry different character tables (outputs of an earlier merge)
    per_engine = list(itertools.product(KINDS, repeat=2))
    for n in (1, 2):
        for ek in itertools.product(per_engine, repeat=n):
            cs.append((ek, 'mixed'))
    for ek in itertools.product([(k,) for k in KINDS], repeat=3):
        cs.append((ek, 'incremental'))
    # engines that group the same lines into regions differently (the first and third split the page after the first line)
    per_engine = list(itertools.product(KINDS, repeat=2))
    for ek in itertools.product(per_engine, repeat=2):
        cs.append((ek, 'grouped'))
    for ek in itertools.product(per_engine[::5], repeat=3):
        cs.append((ek, 'grouped'))
    for nl in (1, 2):
        for ks in itertools.product(KINDS, repeat=nl):
            cs.append(((ks,), 'same'))
            cs.append(((ks,), 'copy'))
    return cs


def run(ctx):
    from pyvc import run as vrun
    from contracts import merge
    thorough = ctx.tier == 'thorough'
    ctx.level = 'proof'
    ctx.explanation = (
        'merge_layouts is verified on a Burstall-Bornat heap (one z3 array per field, line objects as references, exact '
        'aliasing merged_line is lines[0]) for any number of engines and line positions: invariants of the position loop and '
        'of the engine scan (running maximum BESTC / first arg-max ARGB) give, per line, fields of the first arg-max engine, '
        'maximum recorded when positive, everything else unchanged; a syntactic frame obligation shows that no field other '
        'than transcription/logits/characters/transcription_confidence is assigned. get_confidences is opaque (pure function '
        'of the four fields it reads; its value range is C16). The self-merge clause is covered by the bounded tier (aliased '
        'and deep-copied layouts) because the unbounded contract assumes distinct line objects.')
    reps = vrun.verify([(merge.PATH, 'merge_layouts')], merge.CONTRACTS, root=core.repo_root(), both=thorough)
    ctx.add_proof_reports(reps, clause='per line: first arg-max engine, confidence when positive, frame')
    cs = bounded.order(cases(thorough), ctx.seed)
    res = bounded.pmap(_chunk, bounded.shard(cs, 32))
    fails = []
    if res['failures']:
        f = sorted(res['failures'], key=lambda f: (len(str(f['input'])), str(f['input'])))[0]
        fails.append(Failure(sig('rt', 'merge_layouts'), 'run-time contract of merge_layouts fails: %s on %s' % (f['observed'], f['input']),
                             function='merge_layouts', input=f['input'], observed=f['observed'],
                             expected='fields of the first arg-max engine; maximum recorded when positive; nothing else changes'))
    ctx.add_bounded('merge-engines', 'tuples of 1..3 engines x 1..2 lines, line kinds %r (ties, empty, exact-zero confidence), different charsets per engine, and pages whose lines carry different charsets (outputs of an earlier merge); self-merge aliased / deep-copied' % KINDS,
                    res['evaluations'], res['nontrivial'], True, res['samples'], fails,
                    rule='every tuple of engine outputs in the domain; non-trivial = >= 2 engines with differing line kinds',
                    clause='same contract on real PageLayout/TextLine objects with the real get_confidences')
    bounded.close()
    ctx.trusted += ['get_confidences: opaque pure function of (transcription, logits, characters, logit_coords)',
                    'file I/O of main() is not under contract']
    if thorough:
        selftest.run(ctx, MUTANTS)


def replay(entry):
    core.setup_repo_path()
    import numpy as np
    from scipy import sparse
    import merge_ocr_results as mor
    inp = entry.get('input') or {}
    if 'engines' not in inp:
        print('replay: obligation %s has no concrete input; solver output:\n%s' % (entry.get('obligation'), entry.get('solver_output')))
        return 1
    bad = check_case(np, sparse, mor, tuple(tuple(k) for k in inp['engines']), inp.get('alias'))
    for b in bad:
        print('REPLAY-FAIL', b)
    print('replay: %d problem(s) on %r' % (len(bad), inp))
    return 1 if bad else 0
