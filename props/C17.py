"""C17 — resuming an interrupted batch completes every requested output.

Proved: (i) load_already_processed_files = intersection over the given directories (bounded-symbolic, <= 4 directories);
resume-safety condition on the program structure (write order of Computator.__call__ vs. kinds consulted by
--skip-processed); (ii) every guarded output block writes its path; (iii) the closing statistics cannot divide by zero.
Bounded: the real parse_folder.main() driven in-process with a stub PageParser and the real writers, killed before every
write position, up to 3 crashes, every subset of the output kinds; file-name -> page-id mapping exhaustive over short names."""
import itertools
import os
import re
import shutil
import sys
import tempfile
from vf import core, bounded, selftest
from vf.core import Failure, sig

F = 'user_scripts/parse_folder.py'
MUTANTS = [
    {'name': 'original-defect: ALTO directory not consulted', 'file': F,
     'old': 'load_already_processed_files([output_xml_path, output_logit_path, output_render_path,\n                                                                output_alto_path])',
     'new': 'load_already_processed_files([output_xml_path, output_logit_path, output_render_path])'},
    {'name': 'original-defect: unanchored lazy file-name pattern', 'file': F,
     'old': '        file_pattern = r"(.+)(\\.logits|\\.xml|\\.jpg)"\n        regex = re.compile(file_pattern)\n\n        for file in os.listdir(directory):\n            matched = regex.fullmatch(file)',
     'new': '        file_pattern = r"(.+?)(\\.logits|\\.xml|\\.jpg)"\n        regex = re.compile(file_pattern)\n\n        for file in os.listdir(directory):\n            matched = regex.match(file)'},
    {'name': 'original-defect: division by the number of processed pages', 'file': F,
     'old': "    if len(ids_to_process) > 0:  # nothing left to do, e.g. everything was skipped as already processed\n        logger.info(",
     'new': "    if True:\n        logger.info("},
    {'name': 'skip set is the union instead of the intersection', 'file': F,
     'old': '                already_processed = already_processed.intersection(files)', 'new': '                already_processed = already_processed.union(files)'},
    {'name': 'render written after the ALTO file but not consulted', 'file': F,
     'old': 'load_already_processed_files([output_xml_path, output_logit_path, output_render_path,\n                                                                output_alto_path])',
     'new': 'load_already_processed_files([output_xml_path, output_logit_path,\n                                                                output_alto_path])'},
]

KINDS = ['xml', 'render', 'logits', 'alto', 'lines']
IDS_Q = ['p1', 'a.jpg.b']
IDS_T = ['p1', 'p.v2', 'a.jpg.b']


class Kill(BaseException):
    """simulates the process being killed between two output writes"""


class Harness:
    def __init__(self):
        core.setup_repo_path()
        import numpy as np
        import cv2
        from scipy import sparse
        import parse_folder as pf
        from pero_ocr.core import layout
        self.np, self.cv2, self.sparse, self.pf, self.layout = np, cv2, sparse, pf, layout
        self.writes = 0
        self.kill_at = None
        self.in_write = False
        self.processed = []
        self._patch()

    def _patch(self):
        h = self
        np, layout = self.np, self.layout

        class StubParser:
            provides_ctc_logits = True
            decoder = None

            def __init__(self, config, config_path='', device=None):
                pass

            def process_page(self, image, page_layout):
                h.processed.append(page_layout.id)
                reg = layout.RegionLayout('r1', np.array([[2, 2], [60, 2], [60, 44], [2, 44]]))
                # the result depends on the IMAGE the page was parsed from (its grey level shifts the lines), not only on the page id:
                # a resumed run that pairs a page id with another page's image produces other outputs than the uninterrupted run
                shift = 0 if image is None else int(image[0, 0, 0]) // 30
                for li in range(2):
                    y = 12 + 16 * li + shift
                    T, C = 6, 4
                    lg = np.full((T, C), -8.0)
                    for t, c in enumerate([3, 0, 3, 1, 3, 3]):
                        lg[t, c] = 4.0
                    line = layout.TextLine(id='r1-l%03d' % li, baseline=np.array([[5, y], [55, y]]), polygon=np.array([[5, y - 8], [55, y - 8], [55, y + 3], [5, y + 3]]),
                                           heights=[8.0, 3.0], transcription='ab', logits=h.sparse.csc_matrix(lg), characters=['a', 'b', 'c', '~'],
                                           logit_coords=[0, T], crop=np.full((12, 24, 3), 40 * (li + 1), dtype=np.uint8), index=li)
                    reg.lines.append(line)
                page_layout.regions.append(reg)
                return page_layout
        self.pf.PageParser = StubParser

        class SeqPool:
            """stands for multiprocessing.Pool inside the (daemonic) check workers, which may not have children: same constructor
            contract (at least one process), starmap evaluated in order in this process"""
            def __init__(self, processes=None, *a, **k):
                if processes is not None and processes < 1:
                    raise ValueError('Number of processes must be at least 1')

            def __enter__(self):
                return self

            def __exit__(self, *a):
                return False

            def starmap(self, fn, iterable, chunksize=None):
                return [fn(*args) for args in iterable]

            def map(self, fn, iterable, chunksize=None):
                return [fn(x) for x in iterable]
        self.pf.Pool = SeqPool

        def guard(fn):
            def wrapped(*a, **k):
                # kill_at = k >= 0: killed when write k+1 is about to start (the latest point of the gap after write k);
                # kill_at = -k < 0: killed as soon as write k has completed (the earliest point of the same gap)
                if h.kill_at is not None and h.kill_at >= 0 and h.writes == h.kill_at:
                    raise Kill()
                h.writes += 1
                h.in_write = True
                try:
                    r = fn(*a, **k)
                finally:
                    h.in_write = False
                if h.kill_at is not None and h.kill_at < 0 and h.writes == -h.kill_at:
                    raise Kill()
                return r
            return wrapped

        def ser_guard(fn):
            # kill_at = k + 0.5: killed INSIDE write k+1, at the moment the writer starts to serialise the document (a writer that has
            # created its file by then leaves an empty file behind, which a directory listing takes for a finished output)
            def wrapped(*a, **k):
                if h.kill_at is not None and h.in_write and h.kill_at == h.writes - 0.5:
                    raise Kill()
                return fn(*a, **k)
            return wrapped
        PL = layout.PageLayout
        for name in ('to_pagexml', 'save_logits', 'to_altoxml'):
            orig = getattr(PL, name)
            if not getattr(orig, '_vf_guard', False):
                w = guard(orig)
                w._vf_guard = True
                setattr(PL, name, w)
        for name in ('to_pagexml_string', 'to_altoxml_string'):
            orig = getattr(PL, name)
            if not getattr(orig, '_vf_guard', False):
                w = ser_guard(orig)
                w._vf_guard = True
                setattr(PL, name, w)
        if not getattr(self.cv2.imwrite, '_vf_guard', False):
            w = guard(self.cv2.imwrite)
            w._vf_guard = True
            self.cv2.imwrite = w
            self.pf.cv2.imwrite = w

    def run_main(self, base, kinds, skip, kill_at=None, processes=None):
        """returns 'ok' | 'killed' | 'error: ...'"""
        argv = ['parse_folder.py', '-c', os.path.join(base, 'config.ini'), '-i', os.path.join(base, 'in'), '--device', 'cpu']
        if skip:
            argv.append('-s')
        if processes:
            argv += ['--process-count', str(processes)]
        flag = {'xml': '--output-xml-path', 'render': '--output-render-path', 'logits': '--output-logit-path', 'alto': '--output-alto-path', 'lines': '--output-line-path'}
        for k in kinds:
            argv += [flag[k], os.path.join(base, 'out_' + k)]
        old = sys.argv
        sys.argv = argv
        self.writes, self.kill_at, self.processed = 0, kill_at, []
        try:
            self.pf.main()
            return 'ok'
        except Kill:
            return 'killed'
        except SystemExit as e:
            return 'error: SystemExit(%r)' % (e.code,)
        except Exception as e:
            return 'error: %r' % (e,)
        finally:
            sys.argv = old
            self.kill_at = None

    def make_base(self, ids):
        base = tempfile.mkdtemp(prefix='vf_c17.', dir='/var/tmp')
        os.makedirs(os.path.join(base, 'in'))
        open(os.path.join(base, 'config.ini'), 'w').write('[PARSE_FOLDER]\nLOGGING_LEVEL = ERROR\n')
        for k, i in enumerate(ids):
            img = self.np.full((48, 64, 3), 200 - 30 * k, dtype=self.np.uint8)
            self.cv2.imwrite.__wrapped__ if False else None
            ok, buf = self.cv2.imencode('.jpg', img)
            open(os.path.join(base, 'in', i + '.jpg'), 'wb').write(buf.tobytes())
        return base

    @staticmethod
    def tree(base):
        out = {}
        for d in sorted(os.listdir(base)):
            if d.startswith('out_'):
                for f in sorted(os.listdir(os.path.join(base, d))):
                    b = open(os.path.join(base, d, f), 'rb').read()
                    if f.endswith('.xml'):
                        b = re.sub(rb'<(Created|LastChange|processingDateTime)>[^<]*</\1>', b'', b)
                    out[d + '/' + f] = b
        return out


_H = None


def harness():
    global _H
    if _H is None:
        _H = Harness()
    return _H


def check_plan(ids, kinds, kills):
    """kills: tuple of write positions at which successive runs are killed; then a final resume run"""
    h = harness()
    bad = []
    ref = h.make_base(ids)
    base = h.make_base(ids)
    try:
        r = h.run_main(ref, kinds, skip=False)
        if r != 'ok':
            return [('uninterrupted-run', 'reference run: %s' % r)]
        want = h.tree(ref)
        per_page = None
        for k in kills:
            r = h.run_main(base, kinds, skip=True, kill_at=k)
            if r.startswith('error'):
                bad.append(('clean-exit', 'run killed at write %d: %s' % (k, r)))
        before = h.tree(base)
        r = h.run_main(base, kinds, skip=True)
        if r != 'ok':
            bad.append(('clean-exit', 'resume run: %s' % r))
        got = h.tree(base)
        if sorted(got) != sorted(want):
            miss = sorted(set(want) - set(got))
            extra = sorted(set(got) - set(want))
            bad.append(('all-outputs-present', 'missing %r extra %r after kills at %r' % (miss[:4], extra[:4], list(kills))))
        else:
            diff = [f for f in want if want[f] != got[f]]
            if diff:
                bad.append(('outputs-equal-uninterrupted', 'content differs: %r' % diff[:4]))
        # pages complete before the resume run are not processed again
        for i in ids:
            files = [f for f in want if os.path.basename(f).startswith(i + '.') or os.path.basename(f).startswith(i + '-r1')]
            complete = all(f in before for f in files)
            page_level = [k for k in kinds if k != 'lines']
            if complete and page_level and i in h.processed:
                bad.append(('complete-pages-not-reprocessed', 'page %r was complete but processed again' % i))
        # a further run with nothing to do exits cleanly and processes nothing
        if [k for k in kinds if k != 'lines']:
            r = h.run_main(base, kinds, skip=True)
            if r != 'ok':
                bad.append(('clean-exit', 'run with nothing left to do: %s' % r))
            elif h.processed:
                bad.append(('complete-pages-not-reprocessed', 'idle run processed %r' % h.processed))
            # the same with worker processes requested (there is no page for them to work on)
            r = h.run_main(base, kinds, skip=True, processes=2)
            if r != 'ok':
                bad.append(('clean-exit', 'run with nothing left to do and --process-count 2: %s' % r))
    finally:
        shutil.rmtree(ref, ignore_errors=True)
        shutil.rmtree(base, ignore_errors=True)
    return bad


def _chunk(plans):
    import logging
    logging.disable(logging.CRITICAL)
    out = {'evaluations': 0, 'nontrivial': 0, 'failures': [], 'samples': []}
    devnull = open(os.devnull, 'w')
    for ids, kinds, kills in plans:
        out['evaluations'] += 1
        out['nontrivial'] += 1 if kills else 0
        so, se = sys.stdout, sys.stderr
        sys.stdout = sys.stderr = devnull
        try:
            bad = check_plan(ids, kinds, kills)
        except Exception as e:
            bad = [('no-exception', 'harness raised %r' % (e,))]
        finally:
            sys.stdout, sys.stderr = so, se
        for clause, detail in bad:
            out['failures'].append({'clause': clause, 'input': {'ids': list(ids), 'outputs': list(kinds), 'kills_before_write': list(kills)}, 'observed': detail})
        if len(out['samples']) < 2 and kills:
            out['samples'].append({'ids': list(ids), 'outputs': list(kinds), 'kills_before_write': list(kills)})
    return out


def writes_per_run(ids, kinds):
    per = sum({'xml': 1, 'render': 1, 'logits': 1, 'alto': 1, 'lines': 2}[k] for k in kinds)
    return per * len(ids)


def plans(thorough):
    out = []
    subsets = [tuple(s) for r in range(1, 6) for s in itertools.combinations(KINDS, r)]
    if not thorough:
        subsets = [('xml',), ('xml', 'logits', 'alto'), tuple(KINDS), ('alto', 'lines'), ('render', 'lines'), ('lines',), ('xml', 'render', 'logits'),
                   ('xml', 'lines')]
    ids = IDS_T if thorough else IDS_Q
    for ks in subsets:
        n = writes_per_run(ids, ks)
        out.append((ids, ks, ()))
        for k1 in range(n + 1):
            out.append((ids, ks, (k1,)))
            if k1 >= 1:
                out.append((ids, ks, (-k1,)))        # the same gap, killed at its earliest point
            if k1 < n and ('xml' in ks or 'alto' in ks):
                out.append((ids, ks, (k1 + 0.5,)))   # inside write k1+1, when the XML writer starts to serialise
        if thorough or len(ks) >= 3:
            step = 1 if (thorough and len(ks) <= 3) else 3
            for k1 in range(0, n + 1, step):
                for k2 in range(0, n + 1, step + 1):
                    out.append((ids, ks, (k1, k2) if (k1 + k2) % 2 == 0 else (-k1, k2)))
        if thorough and len(ks) in (2, 5):
            for k1, k2, k3 in itertools.product(range(0, n + 1, 4), repeat=3):
                out.append((ids, ks, (k1, k2, k3)))
    return out


def name_mapping(pf):
    """file name -> page id, exhaustive over short names; oracle: the id is the name without its last extension when
    that extension is one of .logits/.xml/.jpg, otherwise the file marks nothing"""
    bad = []
    alpha = ['a', '.', 'x', 'm', 'l', 'j', 'p', 'g']
    names = [''.join(t) for n in range(1, 6) for t in itertools.product(alpha, repeat=n)]
    names += ['a.jpg.b.xml', 'x.xml.bak', 'p.v2.logits', 'a.jpg.b.jpg', 'p1.xml', '.xml', 'a.xml.xml', 'p1.logits.jpg']
    real = os.listdir
    try:
        for chunk in range(0, len(names), 4000):
            part = names[chunk:chunk + 4000]
            pf.os.listdir = lambda d, part=part: list(part)
            got = pf.load_already_processed_files_in_directory('dir')
            want = set()
            for f in part:
                stem, ext = os.path.splitext(f)
                if ext in ('.logits', '.xml', '.jpg') and stem:
                    want.add(stem)
            # os.path.splitext treats leading dots specially ('.xml' -> ('.xml', '')): use a plain definition
            want = set()
            for f in part:
                for ext in ('.logits', '.xml', '.jpg'):
                    if f.endswith(ext) and len(f) > len(ext):
                        want.add(f[:-len(ext)])
            if got != want:
                d = sorted(got ^ want)[:4]
                bad.append(('file-name-to-page-id', 'ids %r differ (got-only %r, expected-only %r)' % (d, sorted(got - want)[:3], sorted(want - got)[:3])))
                break
    finally:
        pf.os.listdir = real
    return len(names), bad


def run(ctx):
    thorough = ctx.tier == 'thorough'
    ctx.level = 'other'
    ctx.explanation = (
        'Hybrid. PROVED / structurally decided on the real source: load_already_processed_files is the intersection over the given '
        'directories (bounded-symbolic, 4 optional directories, z3); resume-safety condition (every output kind written after a kind '
        'consulted by --skip-processed is itself consulted: then "consulted outputs present" implies "all requested outputs present" for '
        'every kill point between writes); every guarded block writes its path; the closing statistics cannot divide by zero (slice-mode '
        'obligation). BOUNDED: the real main() with a stub PageParser and the real cv2/lxml/pickle writers is killed before every write '
        'position (up to 3 successive crashes), for subsets of the five output kinds and page ids with dots / extension substrings; the '
        'final tree equals the uninterrupted one, complete pages are not reprocessed, idle runs exit cleanly. Files are assumed to be '
        'written atomically (the property cuts between writes).')
    core.setup_repo_path()
    try:
        from contracts import parsefolder
        from pyvc import solve
        reps = parsefolder.reports(core.repo_root())
        for r in reps:
            for vc in r.vcs:
                vc.func = r.name
        solve.discharge([vc for r in reps for vc in r.vcs], {r.name: r.axioms for r in reps})
        ctx.add_proof_reports(reps, clause='skip soundness (intersection, resume-safety), work completeness, clean exit')
    except ImportError:
        ctx.notes.append('contracts/parsefolder.py not present: bounded only')
    import parse_folder as pf
    nn, nb = name_mapping(pf)
    fails = []
    for clause, detail in nb:
        fails.append(Failure(sig('rt', 'load_already_processed_files_in_directory', clause), detail, function='load_already_processed_files_in_directory',
                             input={'case': 'names'}, observed=detail, clause=clause))
    ctx.add_bounded('file-names', 'all file names of length <= 5 over {a . x m l j p g} plus 8 hand-picked names', nn, nn // 2, True,
                    [{'name': 'a.jpg.b.xml', 'id': 'a.jpg.b'}], fails, rule='every name; non-trivial = contains a dot', clause='file name -> page id is "name minus its last extension"')
    ps = bounded.order(plans(thorough), ctx.seed)
    res = bounded.pmap(_chunk, bounded.shard(ps, 32))
    seen = set()
    fails = []
    for f in sorted(res['failures'], key=lambda f: (len(f['input']['kills_before_write']), len(f['input']['outputs']), str(f['input']))):
        s = sig('rt', 'parse_folder.main', f['clause'])
        if s in seen:
            continue
        seen.add(s)
        fails.append(Failure(s, 'resume contract %s fails: %s on %s' % (f['clause'], f['observed'], f['input']), function='parse_folder.main',
                             input=f['input'], observed=f['observed'], clause=f['clause']))
    ctx.add_bounded('crash-points', 'page ids %r; output subsets %s; a kill in every gap between two writes (both when the next write is about to start and as soon as the previous one has completed: negative positions), 1..%d successive crashes (strided for >1)' % (IDS_T if thorough else IDS_Q, 'all 31' if thorough else '8 representative', 3 if thorough else 2),
                    res['evaluations'], res['nontrivial'], thorough, res['samples'], fails,
                    rule='every plan (output subset, kill positions) of the stated grid; non-trivial = at least one crash',
                    clause='final tree equals uninterrupted tree; complete pages not reprocessed; clean exit')
    bounded.close()
    ctx.trusted += ['writes are atomic (a kill happens between two writes)', 'stub PageParser stands for the real pipeline (outputs are a function of the page id)']
    if thorough:
        selftest.run(ctx, MUTANTS)


def replay(entry):
    import logging
    logging.disable(logging.CRITICAL)
    inp = entry.get('input') or {}
    if 'ids' in inp:
        bad = check_plan(inp['ids'], tuple(inp['outputs']), tuple(inp['kills_before_write']))
    elif inp.get('case') == 'names':
        core.setup_repo_path()
        import parse_folder as pf
        bad = name_mapping(pf)[1]
    else:
        print('replay: obligation %s has no concrete input; solver output:\n%s' % (entry.get('obligation'), entry.get('solver_output')))
        return 1
    for b in bad:
        print('REPLAY-FAIL', b)
    print('replay: %d problem(s) on %r' % (len(bad), inp))
    return 1 if bad else 0
