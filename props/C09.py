"""C09 — saved logits restore exactly; saved artefacts suffice to rebuild outputs.

Proved (unbounded, heap model): PageLayout.load_logits' per-line loop — for every line whose id is in the file the three
fields become the file's entries, every other line keeps all three fields (frame), legacy files give characters None /
coords [None, None]; TextLine.get_dense_logits keeps every stored entry and writes the floor into pruned ones.
Bounded: real pickle / scipy.sparse round trips (path and bytes), partial files, missing components, dense
reconstruction, and PAGE XML + logits -> rebuilt layout -> same greedy transcription and same ALTO words."""
import itertools
import os
import tempfile
from vf import core, bounded, selftest
from vf.core import Failure, sig

F = 'pero_ocr/core/layout.py'
MUTANTS = [
    {'name': 'frame window not saved', 'file': F, 'old': "        logits_dict['logit_coords'] = dict(logit_coords)\n", 'new': ''},
    {'name': 'missing character table not reported', 'file': F,
     'old': "                if line.characters is None:\n                    raise Exception(f'Missing logits mapping to characters for line {line.id}.')\n", 'new': ''},
    {'name': 'floor written over small stored logits', 'file': F, 'old': '        dense_logits[dense_logits == 0] = zero_logit_value', 'new': '        dense_logits[np.abs(dense_logits) < 0.5] = zero_logit_value'},
    {'name': 'log-softmax over the wrong axis', 'file': F, 'old': '    a = np.logaddexp.reduce(x, axis=1)[:, np.newaxis]\n    return x - a', 'new': '    a = np.logaddexp.reduce(x, axis=0)[np.newaxis, :]\n    return x - a'},
    {'name': 'lines absent from the file lose their logits', 'file': F,
     'old': "                if line.id not in logits_dict:\n                    continue\n", 'new': "                if line.id not in logits_dict:\n                    line.logits = None\n                    continue\n"},
    {'name': 'characters of the first line used for all', 'file': F, 'old': "            characters += [(line.id, line.characters) for line in region.lines]",
     'new': "            characters += [(line.id, region.lines[0].characters) for line in region.lines]"},
]


def matrices(np, sparse):
    dense = [np.zeros((0, 3)), np.array([[0.5, -2.0, 3.25]]), np.array([[0.0, -1.5, 0.0], [0.25, 0.0, 0.0], [0.0, 0.0, -0.125]]),
             np.array([[4.0, -8.0, -8.0], [-8.0, -8.0, 4.0], [-8.0, 4.0, -8.0]]), np.zeros((2, 3))]
    return [sparse.csc_matrix(d) for d in dense]


def make_layout(np, sparse, layout, ids, mats, fields):
    """ids: list of line ids (two regions); fields: per line (matrix index or None, chars or None, coords or None)"""
    pl = layout.PageLayout(id='page', page_size=(60, 80))
    regs = [layout.RegionLayout('r1', np.array([[0, 0], [70, 0], [70, 25], [0, 25]])), layout.RegionLayout('r2', np.array([[0, 30], [70, 30], [70, 55], [0, 55]]))]
    for k, (lid, (mi, ch, co)) in enumerate(zip(ids, fields)):
        y = 10 + 15 * k
        line = layout.TextLine(id=lid, baseline=np.array([[5, y], [60, y]]), polygon=np.array([[5, y - 7], [60, y - 7], [60, y + 3], [5, y + 3]]),
                               heights=[7.0, 3.0], transcription='t%d' % k, logits=None if mi is None else mats[mi].copy(),
                               characters=None if ch is None else list(ch), logit_coords=None if co is None else list(co), index=k)
        regs[k % 2].lines.append(line)
    pl.regions = regs
    return pl


def same_matrix(a, b):
    if a is None or b is None:
        return a is b
    return a.shape == b.shape and a.dtype == b.dtype and (a != b).nnz == 0 and type(a) is type(b)


def check_roundtrip(np, sparse, layout, case, via):
    ids, fields, target_ids = case
    mats = matrices(np, sparse)
    bad = []
    src = make_layout(np, sparse, layout, ids, mats, fields)
    incomplete = any(mi is None or ch is None or co is None for mi, ch, co in fields)
    tmp = None
    try:
        if via == 'path':
            tmp = tempfile.mkdtemp(prefix='vf_c09.', dir='/var/tmp')
            fn = os.path.join(tmp, 'p.logits')
            try:
                src.save_logits(fn)
                data = fn
                raised = False
            except Exception:
                raised = True
                if os.path.exists(fn):
                    bad.append(('missing-component-reported', 'a file was written although a component is missing'))
        else:
            try:
                data = src.save_logits_bytes()
                raised = False
            except Exception:
                raised = True
        if incomplete != raised:
            bad.append(('missing-component-reported', 'incomplete=%r but save raised=%r' % (incomplete, raised)))
        if raised:
            return bad
        # target layout: same geometry, other (sentinel) logits fields, ids = target_ids
        sent_m = sparse.csc_matrix(np.array([[9.0, 9.0, 9.0]]))
        tfields = [(None, None, None)] * len(target_ids)
        dst = make_layout(np, sparse, layout, target_ids, mats, tfields)
        sentinels = {}
        for l in dst.lines_iterator():
            l.logits, l.characters, l.logit_coords = sent_m.copy(), ['s', 'e', 'n'], [7, 9]
            sentinels[l.id] = (l.logits, l.characters, l.logit_coords)
            l.get_dense_logits()        # history: the target line was already densified (decoded / exported) with its old logits
            l.get_full_logprobs()
        dst.load_logits(data)
        saved = {lid: f for lid, f in zip(ids, fields)}
        for l in dst.lines_iterator():
            if l.id in saved:
                mi, ch, co = saved[l.id]
                if not same_matrix(l.logits, mats[mi]) or l.characters != list(ch) or l.logit_coords != list(co):
                    bad.append(('restores-identical', 'line %r restored as %r / %r / %r' % (l.id, None if l.logits is None else l.logits.toarray().tolist(), l.characters, l.logit_coords)))
                elif mats[mi].shape[0] > 0:
                    arr = mats[mi].toarray()
                    d = l.get_dense_logits()
                    if d.shape != arr.shape or not np.array_equal(d[arr != 0], arr[arr != 0]) or not np.all(d[arr == 0] == -80):
                        bad.append(('dense-reflects-loaded', 'line %r: dense reconstruction after load_logits is %r, loaded matrix %r' % (l.id, d.tolist(), arr.tolist())))
            else:
                s = sentinels[l.id]
                if l.logits is not s[0] or l.characters is not s[1] or l.logit_coords is not s[2]:
                    bad.append(('absent-lines-untouched', 'line %r is not in the file but was modified: %r %r' % (l.id, l.characters, l.logit_coords)))
    finally:
        if tmp:
            import shutil
            shutil.rmtree(tmp, ignore_errors=True)
    return bad


def check_dense(np, sparse, layout):
    bad = []
    n = 0
    for m in matrices(np, sparse):
        if m.shape[0] == 0:
            continue
        n += 1
        line = layout.TextLine(id='l', logits=m.copy(), characters=['a', 'b', '~'])
        d = line.get_dense_logits()
        arr = m.toarray()
        if not np.array_equal(d[arr != 0], arr[arr != 0]) or not np.all(d[arr == 0] == -80):
            bad.append(('dense-keeps-stored', 'dense %r from stored %r' % (d.tolist(), arr.tolist())))
        lp = line.get_full_logprobs()
        if np.abs(np.exp(lp).sum(axis=1) - 1).max() > 1e-9:
            bad.append(('rows-normalised', 'rows of get_full_logprobs do not sum to 1: %r' % (np.exp(lp).sum(axis=1).tolist(),)))
        shift = lp - d
        if np.abs(shift - shift[:, :1]).max() > 1e-9:
            bad.append(('shift-by-row-constant', 'log-probabilities differ from the dense logits by more than a per-row constant'))
        # the floor is a parameter of both: pruned entries get THAT value, and the log-probabilities are those of THAT dense matrix
        for floor in (-50.0, -30, -12.5):
            df = line.get_dense_logits(floor)
            if not np.array_equal(df[arr != 0], arr[arr != 0]) or not np.all(df[arr == 0] == floor):
                bad.append(('dense-keeps-stored', 'dense matrix with floor %r: %r from stored %r' % (floor, df.tolist(), arr.tolist())))
            lpf = line.get_full_logprobs(floor)
            sh = lpf - df
            if np.abs(np.exp(lpf).sum(axis=1) - 1).max() > 1e-9 or np.abs(sh - sh[:, :1]).max() > 1e-9:
                bad.append(('rows-normalised', 'get_full_logprobs(%r) is not the row-normalised dense matrix with that floor (stored %r)' % (floor, arr.tolist())))
    # stored logits of tiny magnitude are still stored logits (only exact zeros are pruned entries)
    for dt in (np.float32, np.float64):
        tiny = np.array([[3e-9, -2.0, -3.0], [-1.0, -5e-9, -4.0], [0.0, 1e-12, -1.0]], dtype=dt)
        n += 1
        line = layout.TextLine(id='l', logits=sparse.csc_matrix(tiny), characters=['a', 'b', '~'])
        d = line.get_dense_logits()
        if not np.array_equal(d[tiny != 0], tiny[tiny != 0]) or not np.all(d[tiny == 0] == -80):
            bad.append(('dense-keeps-stored', 'stored logits of tiny magnitude (%s): dense %r from stored %r' % (np.dtype(dt).name, d.tolist(), tiny.tolist())))
    # engine output is float32 and un-normalised: frames of very different magnitude on one line (a confident frame next to a fully
    # pruned one or to one whose scores are all strongly negative); each row must still be normalised on its own
    wide = [np.array([[36.0, 2.0, 1.0], [0.0, 0.0, 0.0], [-70.0, -71.0, -75.0], [1.0, 30.0, 2.0]]),
            np.array([[90.0, 1.0, 2.0], [0.0, 0.0, 0.0], [-60.0, 0.0, 0.0]]),
            np.array([[0.0, 0.0, 0.0], [50.0, 49.0, 0.0]])]
    for w in wide:
        for dt in (np.float32, np.float64):
            n += 1
            line = layout.TextLine(id='l', logits=sparse.csc_matrix(w.astype(dt)), characters=['a', 'b', '~'])
            with np.errstate(all='ignore'):
                lp = np.asarray(line.get_full_logprobs(), dtype=np.float64)
                mass = np.logaddexp.reduce(lp, axis=1)
            if lp.shape != w.shape or not np.all(np.isfinite(lp)) or np.abs(mass).max() > 1e-4:
                bad.append(('rows-normalised', 'frames of very different magnitude (%s): log-mass of the rows of get_full_logprobs = %r'
                            % (np.dtype(dt).name, mass.tolist())))
    return n, bad


def check_rebuild(np, sparse, layout):
    """PAGE XML + logits -> rebuilt layout -> same greedy transcription, same ALTO words"""
    from pero_ocr.decoding.decoders import GreedyDecoder, BLANK_SYMBOL
    import lxml.etree as ET
    bad = []
    pl = layout.PageLayout(id='page', page_size=(60, 120))
    reg = layout.RegionLayout('r1', np.array([[0, 0], [110, 0], [110, 50], [0, 50]]))
    chars = ['a', 'b', ' ', '~']
    for k, path in enumerate([[0, 3, 1, 3, 2, 0, 3], [1, 1, 3, 1, 3, 3]]):
        lg = np.full((len(path), 4), -7.0)
        for t, c in enumerate(path):
            lg[t, c] = 5.0
        tr = {0: 'ab a', 1: 'bb'}[k]
        # (ids that look like already-validated ones, `id_…`, are ordinary ids: the logits file is keyed by them)
        reg.lines.append(layout.TextLine(id=('r1-l%d' if k == 0 else 'id_r1-l%d') % k, baseline=np.array([[5, 15 + 20 * k], [100, 15 + 20 * k]]),
                                         polygon=np.array([[5, 5 + 20 * k], [100, 5 + 20 * k], [100, 18 + 20 * k], [5, 18 + 20 * k]]), heights=[10.0, 3.0],
                                         transcription=tr, logits=sparse.csc_matrix(lg), characters=chars, logit_coords=[0, len(path)], index=k))
    pl.regions.append(reg)
    xml, data = pl.to_pagexml_string(), pl.save_logits_bytes()
    q = layout.PageLayout()
    q.from_pagexml_string(xml)
    q.load_logits(data)
    dec = GreedyDecoder(chars[:-1] + [BLANK_SYMBOL])
    for a, b in zip(pl.lines_iterator(), q.lines_iterator()):
        if a.id != b.id or b.logits is None:
            bad.append(('rebuilt-layout-redecodes', 'line saved as %r came back from PAGE XML + logits as %r with logits %s'
                        % (a.id, b.id, 'missing' if b.logits is None else 'present')))
            continue
        ta, tb = dec(a.get_full_logprobs()).best_hyp(), dec(b.get_full_logprobs()).best_hyp()
        if ta != tb or ta != a.transcription:
            bad.append(('rebuilt-layout-redecodes', 'line %s: %r vs %r (stored %r)' % (a.id, ta, tb, a.transcription)))

    def words(s):
        root = ET.fromstring(s.encode('utf8'))
        return [[w.get('CONTENT') for w in tl.iter('{*}String')] for tl in root.iter('{*}TextLine')]
    wa, wb = words(pl.to_altoxml_string()), words(q.to_altoxml_string())
    if wa != wb or wa != [['ab', 'a'], ['bb']]:
        bad.append(('rebuilt-layout-same-alto', 'ALTO words %r vs %r' % (wa, wb)))
    return bad


def cases(thorough):
    out = []
    chars = [('a', 'b', '~'), ('x', 'y', 'z', '~')]
    coords = [(0, 3), (None, None), (2, 12)]
    mis = [0, 1, 2, 3, 4]
    for n in (0, 1, 2, 3):
        ids = ['r1-l1', 'r2-l1', 'r1-l2'][:n]
        pool = [(mi, chars[(mi + 1) % 2], coords[mi % 3]) for mi in mis]
        combos = list(itertools.product(pool, repeat=n))
        if n == 3 and not thorough:
            combos = combos[::5]
        for fields in combos:
            targets = [ids, ids[:-1], ids + ['extra'], list(reversed(ids))]
            for t in targets:
                out.append((ids, list(fields), list(t)))
    # missing components
    for miss in range(3):
        f = [2, ('a', 'b', '~'), (0, 3)]
        f[miss] = None
        out.append((['r1-l1', 'r2-l1'], [(1, ('a', 'b', '~'), (0, 1)), tuple(f)], ['r1-l1', 'r2-l1']))
    return out


def _chunk(items):
    core.setup_repo_path()
    import numpy as np
    from scipy import sparse
    from pero_ocr.core import layout
    out = {'evaluations': 0, 'nontrivial': 0, 'failures': [], 'samples': []}
    for case, via in items:
        out['evaluations'] += 1
        out['nontrivial'] += 1 if len(case[0]) >= 2 else 0
        try:
            bad = check_roundtrip(np, sparse, layout, case, via)
        except Exception as e:
            bad = [('no-exception', 'raised %r' % (e,))]
        for clause, detail in bad:
            out['failures'].append({'clause': clause, 'input': {'ids': case[0], 'fields': [list(f) for f in case[1]], 'target_ids': case[2], 'via': via}, 'observed': detail})
        if len(out['samples']) < 2 and len(case[0]) == 2:
            out['samples'].append({'ids': case[0], 'fields': [list(f) for f in case[1]], 'target_ids': case[2], 'via': via})
    return out


def legacy_check(np, sparse, layout):
    import pickle
    bad = []
    m = matrices(np, sparse)[2]
    dst = make_layout(np, sparse, layout, ['r1-l1', 'r2-l1'], matrices(np, sparse), [(None, None, None)] * 2)
    dst.load_logits(pickle.dumps({'r1-l1': m}))
    l1, l2 = list(dst.lines_iterator())
    a, b = (l1, l2) if l1.id == 'r1-l1' else (l2, l1)
    if not same_matrix(a.logits, m) or a.characters is not None or a.logit_coords != [None, None]:
        bad.append(('legacy-file', 'legacy file restored as %r %r' % (a.characters, a.logit_coords)))
    if b.logits is not None:
        bad.append(('absent-lines-untouched', 'legacy file touched an absent line'))
    return bad


def run(ctx):
    from pyvc import run as vrun
    thorough = ctx.tier == 'thorough'
    ctx.level = 'other'
    ctx.explanation = (
        'Hybrid. PROVED for all layouts and files (heap model, pyvc): load_logits replaces the three fields of exactly the lines whose id is in '
        'the file by the entries of the file and leaves every other line untouched; get_dense_logits keeps stored entries and floors pruned ones. '
        'BOUNDED with real pickle/scipy: save/load round trips via path and bytes for 0..3 lines x 5 sparse matrices (incl. 0-row, all-zero), '
        'two charsets, coords present or [None, None], subset / superset / reordered target layouts, missing components, legacy files; dense '
        'reconstruction; PAGE XML + logits rebuild re-decodes to the same text and exports the same ALTO words.')
    core.setup_repo_path()
    try:
        from contracts import logitsio
        from pyvc import solve
        reps = vrun.verify(logitsio.KEYS, logitsio.CONTRACTS, root=core.repo_root(), both=thorough)
        extra = logitsio.reports(core.repo_root())
        for r in extra:
            for vc in r.vcs:
                vc.func = r.name
        solve.discharge([vc for r in extra for vc in r.vcs], {r.name: r.axioms for r in extra})
        ctx.add_proof_reports(reps + extra, clause='load_logits per-line restore + frame; dense reconstruction')
    except ImportError:
        ctx.notes.append('contracts/logitsio.py not present: bounded only')
    import numpy as np
    from scipy import sparse
    from pero_ocr.core import layout
    fails = []
    nd, bd = check_dense(np, sparse, layout)
    extra = []
    for fn in (check_rebuild, legacy_check):
        try:
            extra += fn(np, sparse, layout)
        except Exception as e:
            extra.append(('no-exception', '%s raised %r' % (fn.__name__, e)))
    for clause, detail in bd + extra:
        fails.append(Failure(sig('rt', 'logits', clause), detail, function='TextLine.get_dense_logits / PageLayout.load_logits', input={'case': clause}, observed=detail, clause=clause))
    ctx.add_bounded('dense-and-rebuild', '4 sparse matrices for dense reconstruction; one two-line page rebuilt from PAGE XML + logits; one legacy file', nd + 2, nd + 2, True,
                    [{'case': 'rebuild', 'words': [['ab', 'a'], ['bb']]}], fails[:3], rule='fixed cases', clause='dense keeps stored / floors pruned; rows normalised; rebuild re-decodes and exports the same ALTO words')
    items = [(c, v) for c in cases(thorough) for v in ('bytes', 'path')]
    items = bounded.order(items, ctx.seed)
    res = bounded.pmap(_chunk, bounded.shard(items, 32))
    seen = set()
    fails = []
    for f in sorted(res['failures'], key=lambda f: (len(f['input']['ids']), str(f['input']))):
        s = sig('rt', 'save/load_logits', f['clause'])
        if s in seen:
            continue
        seen.add(s)
        fails.append(Failure(s, 'logits persistence contract %s fails: %s on %s' % (f['clause'], f['observed'], f['input']), function='PageLayout.save_logits / load_logits',
                             input=f['input'], observed=f['observed'], clause=f['clause']))
    ctx.add_bounded('save-load', '0..3 lines x (5 sparse matrices, 2 charsets, 3 coord variants) x target layouts (same, subset, superset, reordered) x (bytes, path); missing components',
                    res['evaluations'], res['nontrivial'], True, res['samples'], fails,
                    rule='every case of the grid; non-trivial = at least two lines', clause='identical restore; absent lines untouched; missing component reported, nothing saved')
    bounded.close()
    ctx.trusted += ['A6: pickle and scipy.sparse (csc_matrix, toarray) are external', 'precondition of the property: no stored entry is exactly 0.0']
    if thorough:
        selftest.run(ctx, MUTANTS)


def replay(entry):
    core.setup_repo_path()
    import numpy as np
    from scipy import sparse
    from pero_ocr.core import layout
    inp = entry.get('input') or {}
    if 'ids' in inp:
        bad = check_roundtrip(np, sparse, layout, (inp['ids'], [tuple(None if x is None else (tuple(x) if isinstance(x, list) else x) for x in f) for f in inp['fields']], inp['target_ids']), inp['via'])
    elif 'case' in inp:
        bad = check_dense(np, sparse, layout)[1] + check_rebuild(np, sparse, layout) + legacy_check(np, sparse, layout)
    else:
        print('replay: obligation %s has no concrete input; solver output:\n%s' % (entry.get('obligation'), entry.get('solver_output')))
        return 1
    for b in bad:
        print('REPLAY-FAIL', b)
    print('replay: %d problem(s)' % len(bad))
    return 1 if bad else 0
