"""C01 — PAGE XML export/import preserves the page layout.

Proved (unbounded): PageLayout.sort_regions_by_reading_order yields a stable permutation of the regions ordered by
K(r) = reading_order[r.id] if listed else +inf (model of sorted(): stable permutation ordered by the key *given in the
source*).  Bounded: export -> import -> export contract (equality up to the documented rounding, fixpoint from the
second export on, regions written in reading order) on real lxml, exhaustive over a structured grid of layouts."""
import itertools
import re
from vf import core, bounded, selftest
from vf.core import Failure, sig

F = 'pero_ocr/core/layout.py'
MUTANTS = [
    {'name': 'original-defect: reading-order sort keyed by the region object', 'file': F,
     'old': 'key=lambda k: self.reading_order[k.id] if k.id in self.reading_order else float("inf"))',
     'new': 'key=lambda k: self.reading_order[k] if k in self.reading_order else float("inf"))'},
    {'name': 'x and y swapped when parsing points', 'file': F,
     'old': '    coords = [[int(round(float(x))), int(round(float(y)))] for x, y in coords]',
     'new': '    coords = [[int(round(float(y))), int(round(float(x)))] for x, y in coords]'},
    {'name': 'confidence written with 2 decimals', 'file': F, 'old': 'text_element.set("conf", f"{line.transcription_confidence:.3f}")',
     'new': 'text_element.set("conf", f"{line.transcription_confidence:.2f}")'},
    {'name': 'empty transcription not exported', 'file': F, 'old': '                if line.transcription is not None:\n                    text_element = ET.SubElement(text_line, "TextEquiv")',
     'new': '                if line.transcription:\n                    text_element = ET.SubElement(text_line, "TextEquiv")'},
    {'name': 'line index ignored on import', 'file': F, 'old': "                        new_textline.index = int(line.attrib['index'])", 'new': "                        new_textline.index = line_i"},
    {'name': 'unlisted regions first', 'file': F, 'old': 'else float("inf"))', 'new': 'else float("-inf"))'},
    {'name': 'heights swapped on export', 'file': F, 'old': 'f"heights_v2:[{line.heights[0]:.1f},{line.heights[1]:.1f}]"', 'new': 'f"heights_v2:[{line.heights[1]:.1f},{line.heights[0]:.1f}]"'},
    {'name': 'region type dropped on import', 'file': F, 'old': '        region_type = region_element.attrib["type"]', 'new': '        region_type = None'},
]

COORDS = [[[0, 0], [10, 0], [10, 5]], [[-3.0, 0.5], [1.5, 2.49], [1e4, 7.51]], [[2.5, 3.5], [4.4999, -0.5001]]]
HEIGHTS = [None, [0.04, 0.05], [10.26, 3.349]]
TEXTS = [None, '', ' a ', '<&>"\'', 'é', 'אב', '\U0001F600', 'a b', 'é  x',
         # XML-legal characters at the edges of the legal ranges: DEL, the C1 controls (NEL), the last BMP character before the
         # surrogates, private use, the replacement character (a "strip control characters" sanitiser must not eat them)
         'x\x7f\x80\x85\x9f\ud7ff\ue000\ufffdy', '\x85']
CONFS = [None, 0, 0.12345, 1]
INDEXES = [None, 0, 7]
IDS = ['r1', 'r.2', 'a b']


def rnd(x):
    import numpy as np
    return int(np.round(x))


def mk_line(np, layout, lid, coords, heights, text, conf, index):
    return layout.TextLine(id=lid, baseline=np.asarray(coords, dtype=float), polygon=np.asarray(coords[::-1] + coords, dtype=float),
                           heights=None if heights is None else list(heights), transcription=text,
                           transcription_confidence=conf, index=index)


def build(np, layout, spec):
    """spec: dict(regions=[dict(id, type, text, lines=[(coords,heights,text,conf,index)])], order=dict|None)"""
    pl = layout.PageLayout(id='page 1.jpg', page_size=(120, 80))
    for r in spec['regions']:
        reg = layout.RegionLayout(r['id'], np.asarray([[0, 0], [50.4, 0.6], [50, 40], [-1.5, 40]]), r.get('type'))
        reg.transcription = r.get('text')
        for li, l in enumerate(r['lines']):
            reg.lines.append(mk_line(np, layout, '%s-l%d' % (r['id'], li), *l))
        pl.regions.append(reg)
    pl.reading_order = None if spec.get('order') is None else dict(spec['order'])
    return pl


def strip_time(s):
    return re.sub(r'<(Created|LastChange)>[^<]*</\1>', '', s)


def expected_order(ids, order):
    if order is None:
        return list(ids)
    return [i for _, _, i in sorted(((order.get(i, float('inf')), k, i) for k, i in enumerate(ids)))]


def check_roundtrip(np, layout, spec, version):
    bad = []
    p = build(np, layout, spec)
    ids0 = [r.id for r in p.regions]
    snap = []
    for r in p.regions:
        snap.append((r.id, r.region_type, r.transcription, [rnd(v) for pt in r.polygon for v in pt],
                     [(l.id, l.index, [rnd(v) for pt in l.baseline for v in pt], [rnd(v) for pt in l.polygon for v in pt],
                       None if l.heights is None else [float('%.1f' % h) for h in l.heights], l.transcription,
                       None if (l.transcription_confidence is None or l.transcription is None) else float('%.3f' % l.transcription_confidence))
                      for l in r.lines]))
    s1 = p.to_pagexml_string(version=version)
    want_ids = expected_order(ids0, spec.get('order'))
    if [r.id for r in p.regions] != want_ids:
        bad.append(('regions-held-in-reading-order', 'after export regions are %r, reading order %r demands %r' % ([r.id for r in p.regions], spec.get('order'), want_ids)))
    q = layout.PageLayout()
    q.from_pagexml_string(s1)
    if q.id != p.id or tuple(q.page_size) != tuple(p.page_size):
        bad.append(('page-id-and-size', '%r %r' % (q.id, q.page_size)))
    if [r.id for r in q.regions] != want_ids:
        bad.append(('regions-written-in-reading-order', 'document lists regions %r, expected %r' % ([r.id for r in q.regions], want_ids)))
    # the reading order itself survives: the re-imported indices rank the listed regions as the original ones did
    o0, o1 = spec.get('order'), q.reading_order
    if o0:
        if not o1 or set(o1) != set(o0):
            bad.append(('reading-order-preserved', 'reading order %r came back as %r' % (o0, o1)))
        else:
            for a_ in o0:
                for b_ in o0:
                    if (o0[a_] < o0[b_]) != (o1[a_] < o1[b_]):
                        bad.append(('reading-order-preserved', 'reading order %r came back as %r (%r / %r ranked differently)' % (o0, o1, a_, b_)))
                        break
                else:
                    continue
                break
    bysnap = {s[0]: s for s in snap}
    for r in q.regions:
        s = bysnap.get(r.id)
        if s is None:
            bad.append(('same-regions', 'region %r appeared' % r.id))
            continue
        got = (r.id, r.region_type, r.transcription, [int(v) for pt in r.polygon for v in pt])
        if got != s[:4]:
            bad.append(('same-regions', 'region %r -> %r, expected %r' % (r.id, got, s[:4])))
        lines = []
        for i, l in enumerate(r.lines):
            lines.append((l.id, l.index, [int(v) for pt in l.baseline for v in pt], [int(v) for pt in l.polygon for v in pt],
                          None if l.heights is None else [float(h) for h in l.heights], l.transcription, l.transcription_confidence))
        want = [(a, (b if b is not None else i), c, d, e, f, g) for i, (a, b, c, d, e, f, g) in enumerate(s[4])]
        # a line exported without heights gets heights guessed from its polygon on import (documented behaviour):
        # heights are compared only where the original line had them
        lines = [l if w[4] is not None else l[:4] + (None,) + l[5:] for l, w in zip(lines, want)] + lines[len(want):]
        if lines != want:
            bad.append(('same-lines', 'region %r lines %r, expected %r' % (r.id, lines, want)))
    if len(q.regions) != len(snap):
        bad.append(('same-regions', '%d regions, expected %d' % (len(q.regions), len(snap))))
    # fixpoint from the second export on (timestamps aside)
    s2 = q.to_pagexml_string(version=version)
    q2 = layout.PageLayout()
    q2.from_pagexml_string(s2)
    s3 = q2.to_pagexml_string(version=version)
    if strip_time(s2) != strip_time(s3):
        bad.append(('fixpoint', 're-export of the re-imported page differs from its own re-import/re-export'))
    # importing a document gives what the document says, whatever was done with an earlier import of it: the coordinates of the
    # first import are shifted in place (as a caller that moves a layout does), then the same string is imported once more
    for r in q.regions:
        if r.polygon is not None:
            r.polygon += 1000
        for l in r.lines:
            for a in (l.baseline, l.polygon):
                if a is not None:
                    a += 1000
    q3 = layout.PageLayout()
    q3.from_pagexml_string(s1)
    if strip_time(q3.to_pagexml_string(version=version)) != strip_time(s2):
        bad.append(('import-independent-of-earlier-imports', 'the same document imported again after the coordinates of its first import were changed in place gives another page'))
    return bad


def specs(thorough):
    out = []
    base_line = (COORDS[0], HEIGHTS[2], 'abc', 0.5, 3)
    # 1. single region, single line: full product of the line attribute pools
    for c, h, t, cf, ix in itertools.product(COORDS, HEIGHTS, TEXTS, CONFS, INDEXES):
        out.append({'regions': [{'id': 'r1', 'lines': [(c, h, t, cf, ix)]}], 'order': None})
    # 2. structure: 0..3 regions x 0..2 lines, ids, types, region text, every (partial) reading order
    for n in (0, 1, 2, 3):
        ids = (['r1', 'r.2', 'a b'])[:n]
        for nl in itertools.product((0, 1, 2), repeat=n):
            regs = []
            for k, (i, m) in enumerate(zip(ids, nl)):
                lines = [(COORDS[(k + j) % 3], HEIGHTS[(k + j) % 3], TEXTS[(2 * k + j + 2) % len(TEXTS)], CONFS[(k + j) % 4], INDEXES[(k + j) % 3]) for j in range(m)]
                regs.append({'id': i, 'type': [None, 'paragraph', 'heading'][k % 3], 'text': [None, 'reg <t>\x85', ''][k % 3], 'lines': lines})
            orders = [None, {}]
            for r in range(1, n + 1):
                for sub in itertools.permutations(ids, r):
                    orders.append({i: k for k, i in enumerate(sub)})
            for r in range(1, n + 1):
                # indices need not be 0-based or contiguous
                orders.append({i: 10 * (k + 1) for k, i in enumerate(reversed(ids[:r]))})
            if n >= 2:
                # the dict is filled in an order that is not the reading order (as when it is filled while iterating over regions)
                orders.append({ids[0]: 2, ids[1]: 0})
                if n == 3:
                    orders.append({ids[0]: 2, ids[1]: 0, ids[2]: 1})
                orders.append({ids[-1]: 7})
                orders.append({ids[0]: 5, ids[1]: 5})          # equal indices: stable
                orders.append({ids[-1]: 0, 'ghost': 1})       # reference to a region that does not exist
            if not thorough and n == 3:
                orders = orders[::2]
            for o in orders:
                out.append({'regions': regs, 'order': o})
    return out


def _chunk(items):
    core.setup_repo_path()
    import numpy as np
    from pero_ocr.core import layout
    out = {'evaluations': 0, 'nontrivial': 0, 'failures': [], 'samples': []}
    for spec, vname in items:
        version = getattr(layout.PAGEVersion, vname)
        out['evaluations'] += 1
        if spec['regions'] and any(r['lines'] for r in spec['regions']):
            out['nontrivial'] += 1
        try:
            bad = check_roundtrip(np, layout, spec, version)
        except Exception as e:
            bad = [('no-exception', 'raised %r' % (e,))]
        for clause, detail in bad:
            out['failures'].append({'clause': clause, 'input': {'spec': spec, 'version': vname}, 'observed': detail})
        if len(out['samples']) < 2 and len(spec['regions']) == 2:
            out['samples'].append({'regions': [r['id'] for r in spec['regions']], 'order': spec['order'], 'version': vname})
    return out


def ctor_check(np, layout):
    """PageLayout(file=...) holds the regions in reading order"""
    import tempfile, os
    bad = []
    spec = {'regions': [{'id': 'r1', 'lines': []}, {'id': 'r2', 'lines': []}, {'id': 'r3', 'lines': []}], 'order': {'r3': 0, 'r1': 1}}
    p = build(np, layout, spec)
    p.reading_order = None
    s = p.to_pagexml_string()
    s = s.replace('<TextRegion', '<ReadingOrder><OrderedGroup id="ro"><RegionRefIndexed regionRef="r3" index="0"/><RegionRefIndexed regionRef="r1" index="1"/></OrderedGroup></ReadingOrder><TextRegion', 1)
    d = tempfile.mkdtemp(dir='/var/tmp')
    fn = os.path.join(d, 'p.xml')
    open(fn, 'w', encoding='utf8').write(s)
    try:
        q = layout.PageLayout(file=fn)
        if [r.id for r in q.regions] != ['r3', 'r1', 'r2']:
            bad.append(('regions-held-in-reading-order', 'PageLayout(file=...) holds %r, reading order r3, r1 (r2 unlisted)' % [r.id for r in q.regions]))
    finally:
        os.unlink(fn)
        os.rmdir(d)
    return bad


def run(ctx):
    from pyvc import run as vrun
    thorough = ctx.tier == 'thorough'
    ctx.level = 'other'
    ctx.explanation = (
        'Hybrid. PROVED for all region lists and reading orders: sort_regions_by_reading_order is a stable permutation ordered by '
        'reading_order[region.id] (unlisted regions last). BOUNDED on real lxml: export -> import equality up to the documented rounding '
        '(coordinates to integers, heights to 0.1, confidence to 0.001), fixpoint of the re-exported document (timestamps aside), regions '
        'written/held in reading order, for both PAGE versions, exhaustive over (1) the product of line attribute pools (coordinates incl. '
        'negative / .5 / 1e4, heights absent/present, 9 transcriptions incl. markup characters, combining marks, RTL, astral plane, blanks, '
        'confidence, index) and (2) all structures of 0..3 regions x 0..2 lines with every partial reading-order permutation. '
        'Fidelity for strings outside the pool and lxml itself are not decided.')
    core.setup_repo_path()
    try:
        from contracts import pagexml
        reps = vrun.verify(pagexml.KEYS, pagexml.CONTRACTS, root=core.repo_root(), both=thorough)
        ctx.add_proof_reports(reps, clause='reading-order sort: stable permutation ordered by reading_order[region.id]')
    except ImportError:
        ctx.notes.append('contracts/pagexml.py not present: bounded only')
    import numpy as np
    from pero_ocr.core import layout
    items = [(s, v) for s in specs(thorough) for v in ('PAGE_2019_07_15', 'PAGE_2013_07_15')]
    items = bounded.order(items, ctx.seed)
    res = bounded.pmap(_chunk, bounded.shard(items, 32))
    seen = set()
    fails = []
    for clause, detail in ctor_check(np, layout):
        fails.append(Failure(sig('rt', 'PageLayout', clause), detail, function='PageLayout.__init__', input={'case': 'ctor'}, observed=detail, clause=clause))
        seen.add(sig('rt', 'PageLayout', clause))
    for f in sorted(res['failures'], key=lambda f: (len(str(f['input'])), str(f['input']))):
        s = sig('rt', 'PageLayout', f['clause'])
        if s in seen:
            continue
        seen.add(s)
        fails.append(Failure(s, 'round-trip contract %s fails: %s' % (f['clause'], f['observed']), function='PageLayout.to_pagexml_string / from_pagexml',
                             input=f['input'], observed=f['observed'], clause=f['clause']))
    ctx.add_bounded('pagexml-roundtrip', '(1) 1 region x 1 line: product of 3 coordinate sets x 3 heights x 9 transcriptions x 4 confidences x 3 indexes; (2) 0..3 regions x 0..2 lines with all partial reading-order permutations; both PAGE versions',
                    res['evaluations'] + 1, res['nontrivial'], True, res['samples'], fails,
                    rule='every layout of the two sub-domains x 2 schema versions; non-trivial = at least one line',
                    clause='round trip equal up to rounding; fixpoint; reading order held and written')
    bounded.close()
    ctx.trusted += ['A6: lxml serialise/parse is the identity on the XML infoset for XML-legal text', 'sorted(): stable permutation ordered by the given key (model of the builtin)']
    if thorough:
        selftest.run(ctx, MUTANTS)


def replay(entry):
    core.setup_repo_path()
    import numpy as np
    from pero_ocr.core import layout
    inp = entry.get('input') or {}
    if 'spec' not in inp:
        bad = ctor_check(np, layout) if inp.get('case') == 'ctor' else [('no-input', entry.get('solver_output'))]
    else:
        bad = check_roundtrip(np, layout, inp['spec'], getattr(layout.PAGEVersion, inp['version']))
    for b in bad:
        print('REPLAY-FAIL', b)
    print('replay: %d problem(s)' % len(bad))
    return 1 if bad else 0
