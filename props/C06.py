"""C06 — ALTO export never loses, reorders or invents text and never fails.

Proved (unbounded, pyvc): the word segmentation used for the word boxes (runs of non-white-space characters delimited by
the white-space positions) yields exactly as many words as transcription.split() — stated over character classes; the
print-space arithmetic (bounding box of the blocks, margins tile the page).
Bounded: ArabicHelper._reverse permutation + involution over all short strings; to_altoxml_string / from_altoxml_string
contract on real lxml over a structured grid of pages (white-space variants, out-of-charset characters, Arabic/Latin
mixes; logits peaky / diffuse / too short / absent / unknown frame window; min_line_confidence)."""
import itertools
from vf import core, bounded, selftest
from vf.core import Failure, sig

F = 'pero_ocr/core/layout.py'
A = 'pero_ocr/core/arabic_helper.py'
MUTANTS = [
    {'name': 'original-defect: word boxes split on U+0020 only', 'file': F,
     'old': "space_idxs = [pos for pos, char in enumerate(line.transcription) if char.isspace()]",
     'new': "space_idxs = [pos for pos, char in enumerate(line.transcription) if char == ' ']"},
    {'name': 'min confidence filter inverted', 'file': F, 'old': '                    if line.transcription_confidence < min_line_confidence:', 'new': '                    if line.transcription_confidence > min_line_confidence:'},
    {'name': 'word content from the previous word', 'file': F, 'old': '                            string.set("CONTENT", splitted_transcription[w])', 'new': '                            string.set("CONTENT", splitted_transcription[max(w - 1, 0)])'},
    {'name': 'fallback branch drops the last word', 'file': F, 'old': "                    for w, word in enumerate(line.transcription.split()):\n                        string = ET.SubElement(text_line, \"String\")\n                        string.set(\"CONTENT\", arabic_helper.label_form_to_string(word) if arabic_line else word)",
     'new': "                    for w, word in enumerate(line.transcription.split()[:-1] or line.transcription.split()):\n                        string = ET.SubElement(text_line, \"String\")\n                        string.set(\"CONTENT\", arabic_helper.label_form_to_string(word) if arabic_line else word)"},
    {'name': 'non-integer geometry attribute', 'file': F, 'old': '                text_line.set("VPOS", str(int(text_line_vpos)))', 'new': '                text_line.set("VPOS", str(text_line_vpos))'},
    {'name': 'arabic run reversal skipped for runs of length 2', 'file': A, 'old': '            if seq.arabic:\n                seq.chars = seq.chars[::-1]', 'new': '            if seq.arabic and len(seq.chars) != 2:\n                seq.chars = seq.chars[::-1]'},
    {'name': 'trailing delimiters dropped by the order conversion', 'file': A,
     'old': '            if len(arabic_seq):\n                seq = Sequence(chars=arabic_seq, arabic=True)\n                sequences.append(seq)', 'new': '            pass'},
    {'name': 'original-defect: fixed sentinel 1000 as the end of the line (lines with more than ~1000 frames raise)', 'file': 'pero_ocr/core/confidence_estimation.py',
     'old': 'alignment = np.concatenate([aligned_letters, [2 * log_probs.shape[0]]])', 'new': 'alignment = np.concatenate([aligned_letters, [1000]])'},
]

CHARS = ['a', 'b', 'c', ' ', 'ا', 'ب', '~']
TEXTS = ['ab', 'a b', 'a  b', ' ab', 'ab ', ' a b ', 'a b', 'a\tb', 'a \t b', 'a b c', 'a　b', 'aXb', 'X', 'ab cab', 'اب', 'اب ab', 'ab اب ba', 'a​b']
LOGIT_KINDS = ['peaky', 'diffuse', 'short', 'none', 'nocoords']


def make_logits(np, text, kind, C):
    labels = [CHARS.index(ch) if ch in CHARS[:-1] else 0 for ch in text]
    if kind == 'none':
        return None
    if kind == 'short':
        T = max(1, len(text) // 2)
        return np.full((T, C), -3.0) + np.eye(T, C) * 2
    rows = []
    for l in labels:
        for c in (l, C - 1):
            r = np.full(C, -9.0 if kind != 'diffuse' else -1.6)
            r[c] = 3.0 if kind != 'diffuse' else -1.2
            rows.append(r)
    return np.array(rows) if rows else np.full((1, C), -2.0)


def build_page(np, sparse, layout, blocks, kind):
    pl = layout.PageLayout(id='pg 1.jpg', page_size=(200, 300))
    y = 20
    for b, texts in enumerate(blocks):
        x0 = 30 + 100 * b
        reg = layout.RegionLayout('r%d' % b, np.array([[x0 + 0.4, 10.6], [x0 + 90.2, 10.6], [x0 + 90.2, 150.9], [x0 + 0.4, 150.9]]))
        for k, t in enumerate(texts):
            yy = y + 25 * k
            lg = make_logits(np, t if t else 'a', kind, len(CHARS))
            line = layout.TextLine(id='r%d-l%d' % (b, k), baseline=np.array([[x0 + 5.5, yy + 0.25], [x0 + 85.5, yy + 0.75]]),
                                   polygon=np.array([[x0 + 5.5, yy - 12.5], [x0 + 85.5, yy - 12.5], [x0 + 85.5, yy + 4.25], [x0 + 5.5, yy + 4.25]]),
                                   heights=[12.0, 4.0], transcription=t, logits=None if lg is None else sparse.csc_matrix(lg), characters=list(CHARS),
                                   logit_coords=[None, None] if kind == 'nocoords' else [0, 0 if lg is None else lg.shape[0]], index=k)
            reg.lines.append(line)
        pl.regions.append(reg)
    return pl


def is_int(s):
    try:
        int(s)
        return True
    except (TypeError, ValueError):
        return False


def check_page(np, sparse, layout, ET, ah, blocks, kind, minconf):
    bad = []
    pl = build_page(np, sparse, layout, blocks, kind)
    try:
        xml = pl.to_altoxml_string(min_line_confidence=minconf)
    except Exception as e:
        return [('export-never-fails', 'to_altoxml_string raised %r' % (e,))]
    # which lines are dropped depends on the posteriors and the requested confidence only - not on a confidence value the line
    # happens to carry from an earlier stage (the engine's differently defined line confidence, a PAGE `conf` attribute, the 0 an
    # earlier export without logits wrote): the same page with such values on its lines exports the same lines
    if minconf > 0 and kind in ('peaky', 'diffuse'):
        for stale in (0.0, 1.0):
            pl2 = build_page(np, sparse, layout, blocks, kind)
            for l2 in pl2.lines_iterator():
                l2.transcription_confidence = stale
            try:
                xml2 = pl2.to_altoxml_string(min_line_confidence=minconf)
            except Exception as e:
                return [('export-never-fails', 'to_altoxml_string raised %r on lines with a stored confidence' % (e,))]
            ids = lambda x_: [el.get('ID') for el in ET.fromstring(x_.encode('utf8')).iter('{*}TextLine')]
            if ids(xml2) != ids(xml):
                bad.append(('only-unconfident-lines-dropped', 'with a stored confidence of %r on every line the export (min confidence %r) keeps lines %r, without it %r'
                            % (stale, minconf, ids(xml2), ids(xml))))
    root = ET.fromstring(xml.encode('utf8'))
    ns = '{*}'
    tbs = list(root.iter(ns + 'TextBlock'))
    if len(tbs) != len(blocks):
        bad.append(('blocks', '%d TextBlocks for %d regions' % (len(tbs), len(blocks))))
        return bad
    for b, (tb, texts) in enumerate(zip(tbs, blocks)):
        want = []
        for k, t in enumerate(texts):
            if not t or t.strip() == '':
                continue
            line = pl.regions[b].lines[k]
            if line.transcription_confidence is not None and line.transcription_confidence < minconf:
                continue
            ws = t.split()
            if ah.is_arabic_line(t):
                ws = [ah.label_form_to_string(w) for w in ws]
            want.append(ws)
        got = [[s.get('CONTENT') for s in tl.iter(ns + 'String')] for tl in tb.iter(ns + 'TextLine')]
        if got != want:
            bad.append(('words-equal-split', 'block %d: ALTO words %r, transcription words %r' % (b, got, want)))
    for el in root.iter():
        for a in ('HEIGHT', 'WIDTH', 'VPOS', 'HPOS', 'BASELINE'):
            v = el.get(a)
            if v is not None and not is_int(v):
                bad.append(('integer-geometry', '%s %s=%r' % (el.tag.split('}')[-1], a, v)))
        wc = el.get('WC')
        if wc is not None and not (0 <= float(wc) <= 1):
            bad.append(('word-confidence-in-unit-interval', 'WC=%r' % wc))
    # print space = bounding box of the blocks; margins tile the rest of the page
    H, W = pl.page_size
    ps = next(root.iter(ns + 'PrintSpace'))
    g = lambda e: tuple(int(e.get(k)) for k in ('HPOS', 'VPOS', 'WIDTH', 'HEIGHT'))
    if blocks:
        xs = [p[0] for r in pl.regions for p in r.polygon]
        ys = [p[1] for r in pl.regions for p in r.polygon]
        want_ps = (int(min(xs)), int(min(ys)), int(max(xs) - min(xs)), int(max(ys) - min(ys)))
        if g(ps) != want_ps:
            bad.append(('print-space-is-bbox', 'PrintSpace (hpos,vpos,width,height) %r, bounding box of the blocks %r' % (g(ps), want_ps)))
    hp, vp, pw, ph = g(ps)
    tm, lm, rm, bm = [next(root.iter(ns + n)) for n in ('TopMargin', 'LeftMargin', 'RightMargin', 'BottomMargin')]
    # every attribute is truncated to an integer separately, so sums of two or three truncated terms may be off by up to two pixels for fractional coordinates
    near = lambda a, b: abs(a - b) <= 2
    if not (near(int(tm.get('HEIGHT')), vp) and near(int(lm.get('WIDTH')), hp) and near(int(rm.get('HPOS')), hp + pw) and near(int(rm.get('WIDTH')), W - hp - pw)
            and near(int(bm.get('VPOS')), vp + ph) and near(int(bm.get('HEIGHT')), H - vp - ph)
            and int(tm.get('WIDTH')) == W and int(bm.get('WIDTH')) == W and int(lm.get('HEIGHT')) == H and int(rm.get('HEIGHT')) == H):
        bad.append(('margins-cover-the-rest', 'margins %r / print space %r / page %r' % ([dict(m.attrib) for m in (tm, lm, rm, bm)], g(ps), (W, H))))
    # re-import returns the same words
    q = layout.PageLayout()
    try:
        q.from_altoxml_string(xml)
        got2 = [[l.transcription.split() for l in r.lines] for r in q.regions]
        want2 = [[[s.get('CONTENT') for s in tl.iter(ns + 'String')] for tl in tb.iter(ns + 'TextLine')] for tb in tbs]
        want2 = [[w for w in ws] for ws in want2]
        if got2 != want2:
            bad.append(('reimport-same-words', 're-import %r vs exported %r' % (got2, want2)))
    except Exception as e:
        bad.append(('reimport-same-words', 'from_altoxml_string raised %r' % (e,)))
    return bad


def ah_any_arabic(ah, texts):
    return False


def _chunk(items):
    core.setup_repo_path()
    import logging
    logging.disable(logging.CRITICAL)
    import warnings
    warnings.simplefilter('ignore')
    import numpy as np
    from scipy import sparse
    import lxml.etree as ET
    from pero_ocr.core import layout
    from pero_ocr.core.arabic_helper import ArabicHelper
    ah = ArabicHelper()
    out = {'evaluations': 0, 'nontrivial': 0, 'failures': [], 'samples': []}
    for blocks, kind, minconf in items:
        out['evaluations'] += 1
        out['nontrivial'] += 1 if any(len(t.split()) > 1 for b in blocks for t in b) else 0
        try:
            bad = check_page(np, sparse, layout, ET, ah, blocks, kind, minconf)
        except Exception as e:
            bad = [('no-exception', 'harness raised %r' % (e,))]
        for clause, detail in bad:
            out['failures'].append({'clause': clause, 'input': {'blocks': [list(b) for b in blocks], 'logits': kind, 'min_line_confidence': minconf}, 'observed': detail})
        if len(out['samples']) < 2 and len(blocks) == 2:
            out['samples'].append({'blocks': [list(b) for b in blocks], 'logits': kind, 'min_line_confidence': minconf})
    return out


def _chunk_rev(strings):
    core.setup_repo_path()
    from pero_ocr.core.arabic_helper import ArabicHelper
    ah = ArabicHelper()
    out = {'evaluations': 0, 'nontrivial': 0, 'failures': [], 'samples': []}
    for s in strings:
        out['evaluations'] += 1
        r = ah._reverse(s)
        if r != s:
            out['nontrivial'] += 1
        if sorted(r) != sorted(s):
            out['failures'].append({'clause': 'order-conversion-is-permutation', 'input': {'text': s}, 'observed': '%r -> %r' % (s, r)})
        elif ah._reverse(r) != s:
            out['failures'].append({'clause': 'order-conversion-is-involution', 'input': {'text': s}, 'observed': '%r -> %r -> %r' % (s, r, ah._reverse(r))})
        if ah.string_to_label_form(s) != r or ah.label_form_to_string(s) != r:
            out['failures'].append({'clause': 'order-conversion-api', 'input': {'text': s}, 'observed': 'string_to_label_form / label_form_to_string differ from _reverse'})
    if strings:
        out['samples'].append({'text': strings[len(strings) // 2], 'converted': ah._reverse(strings[len(strings) // 2])})
    return out


def pages(thorough):
    out = []
    for t in TEXTS + ['', '   ']:
        for kind in LOGIT_KINDS:
            for mc in (0, 0.5):
                out.append((((t,),), kind, mc))
    pairs = list(itertools.product(TEXTS[:10] if not thorough else TEXTS, repeat=2))
    if not thorough:
        pairs = pairs[::3]
    for a, b in pairs:
        for kind in ('peaky', 'none', 'diffuse') if thorough else ('peaky', 'none'):
            out.append((((a, b),), kind, 0))
            out.append((((a,), (b,)), kind, 0))
    # script changes inside one block (the conversion applies to Arabic-script lines only), words with edge delimiters
    mixed = [('اب', 'ab, cab.'), ('ab, cab.', 'اب'), ('اب ab', 'a: b.'), ('a. b', 'اب', 'c, a'), ('اب', 'ba', 'اب', '.ab'),
             # Arabic-script LINES that also hold Latin words / numbers with an edge delimiter and words mixing both scripts: every
             # word of such a line goes through the order conversion, not only the purely Arabic ones
             ('اب cab. با',), ('ab: اب 7.5, با',), ('اب (با 7ب ab.',), ('اب cab.', 'a. با b,')]
    for m in mixed:
        for kind in LOGIT_KINDS:
            out.append(((m,), kind, 0))
            out.append((tuple((t,) for t in m), kind, 0))
    out.append(((), 'peaky', 0))
    out.append((((), ('a b',)), 'peaky', 0))
    return out


def run(ctx):
    from pyvc import run as vrun
    thorough = ctx.tier == 'thorough'
    ctx.level = 'other'
    ctx.explanation = (
        'Hybrid. PROVED for all block lists (any number of text blocks, any block extents; slice of the real to_altoxml_string, see '
        'functions_under_contract): the print-space box is the bounding box of the text blocks (an empty box at the origin for a page without '
        'blocks), its height and width are non-negative, every margin / print-space attribute is an int(...) value, and for integer block '
        'coordinates the four margins and the print space tile the page (top.HEIGHT = ps.VPOS, ps.VPOS + ps.HEIGHT = bottom.VPOS, '
        'bottom.VPOS + bottom.HEIGHT = page height; likewise horizontally).  The word segmentation and everything that goes through lxml are '
        'bounded only.  BOUNDED on real lxml: '
        'export never raises; per block and per non-blank line exactly one TextLine in order whose String CONTENTs are transcription.split() '
        '(logical order on Arabic lines); integer geometry; WC in [0,1]; only lines below min_line_confidence are dropped; re-import returns the '
        'same words; over pages of 1..2 blocks x 1..2 lines with 18 transcriptions (single / repeated / leading / trailing blanks, NBSP, tab, thin '
        'and ideographic space, zero-width space, out-of-charset, Arabic/Latin mixes) x logits {peaky, diffuse, too short, absent, unknown window}. '
        'ArabicHelper._reverse: permutation and involution over all strings up to length %d over a 9-symbol alphabet.' % (6 if thorough else 5))
    core.setup_repo_path()
    try:
        from contracts import alto
        from pyvc import solve
        reps = alto.reports(core.repo_root())
        for r in reps:
            for vc in r.vcs:
                vc.func = r.name
        solve.discharge([vc for r in reps for vc in r.vcs], {r.name: r.axioms for r in reps})
        ctx.add_proof_reports(reps, clause='print space = bounding box of the text blocks; integer attributes; margins tile the page')
    except ImportError:
        ctx.notes.append('contracts/alto.py not present: bounded only')
    items = bounded.order(pages(thorough), ctx.seed)
    res = bounded.pmap(_chunk, bounded.shard(items, 32))
    seen = set()
    fails = []
    for f in sorted(res['failures'], key=lambda f: (len(str(f['input'])), str(f['input']))):
        s = sig('rt', 'to_altoxml_string', f['clause'])
        if s in seen:
            continue
        seen.add(s)
        fails.append(Failure(s, 'ALTO contract %s fails: %s on %s' % (f['clause'], f['observed'], f['input']), function='PageLayout.to_altoxml_string',
                             input=f['input'], observed=f['observed'], clause=f['clause']))
    ctx.add_bounded('alto-pages', 'single lines: 20 transcriptions x 5 logits kinds x min confidence {0,.5}; two lines / two blocks: pairs of transcriptions x logits kinds; empty page / empty block',
                    res['evaluations'], res['nontrivial'], True, res['samples'], fails,
                    rule='every page of the grid; non-trivial = a line with more than one word', clause='ALTO export contract (see explanation)')
    from props import _longline
    import numpy as np_
    from scipy import sparse as sparse_
    from lxml import etree as ET_
    from pero_ocr.core import layout as layout_
    try:
        n_, bad_ = _longline.check_alto(np_, sparse_, layout_, ET_)
    except Exception as e:
        n_, bad_ = 2, [('no-exception', 'long-line check raised %r' % (e,))]
    ctx.add_bounded('long-lines', 'pages with one line of 1040 / 1300 logit frames (7 characters, the last four within the last 200 frames)', n_, n_, False, [{'frames': 1300}],
                    [Failure(sig('rt', 'to_altoxml_string', c_), d_, function='PageLayout.to_altoxml_string', input={'long_line': True}, observed=d_, clause=c_) for c_, d_ in bad_[:1]],
                    rule='fixed cases', clause='the export succeeds and keeps the words for lines of any length')
    alpha = ['ا', 'ب', '،', 'x', 'y', '7', ' ', '.', ':']
    L = 6 if thorough else 5
    strings = [''.join(t) for n in range(0, L + 1) for t in itertools.product(alpha, repeat=n)]
    res = bounded.pmap(_chunk_rev, bounded.shard(strings, 64))
    fails = []
    seen = set()
    for f in sorted(res['failures'], key=lambda f: (len(f['input']['text']), f['input']['text'])):
        s = sig('rt', 'ArabicHelper._reverse', f['clause'])
        if s not in seen:
            seen.add(s)
            fails.append(Failure(s, '%s: %s' % (f['clause'], f['observed']), function='ArabicHelper._reverse', input=f['input'], observed=f['observed'], clause=f['clause']))
    ctx.add_bounded('order-conversion', 'all strings of length <= %d over {alef, beh, arabic comma, x, y, 7, blank, dot, colon}' % L,
                    res['evaluations'], res['nontrivial'], True, res['samples'], fails,
                    rule='every string; non-trivial = the conversion changes the string', clause='only reorders characters; applying it twice is the identity')
    bounded.close()
    ctx.trusted += ['A6: lxml; EngineLineCropper.get_crop_inputs only feeds word boxes (C10)', 'str.split() splits on runs of characters with str.isspace() (CPython semantics)']
    if thorough:
        selftest.run(ctx, MUTANTS)


def replay(entry):
    core.setup_repo_path()
    import logging
    logging.disable(logging.CRITICAL)
    import numpy as np
    from scipy import sparse
    import lxml.etree as ET
    from pero_ocr.core import layout
    from pero_ocr.core.arabic_helper import ArabicHelper
    inp = entry.get('input') or {}
    if inp.get('long_line'):
        from props import _longline
        n_, bad = _longline.check_alto(np, sparse, layout, ET)
        for b in bad:
            print('REPLAY-FAIL', b)
        print('replay: %d problem(s) on the long lines' % len(bad))
        return 1 if bad else 0
    if 'blocks' in inp:
        bad = check_page(np, sparse, layout, ET, ArabicHelper(), tuple(tuple(b) for b in inp['blocks']), inp['logits'], inp['min_line_confidence'])
    elif 'text' in inp:
        bad = _chunk_rev([inp['text']])['failures']
    else:
        print('replay: obligation %s has no concrete input; solver output:\n%s' % (entry.get('obligation'), entry.get('solver_output')))
        return 1
    for b in bad:
        print('REPLAY-FAIL', b)
    print('replay: %d problem(s) on %r' % (len(bad), inp))
    return 1 if bad else 0
