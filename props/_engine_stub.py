"""stub OCR engine for the bounded harnesses of C07 / C08: a BaseEngineLineOCR whose run_ocr is a *local* network — the
output of frame t depends only on the pixel columns [4t-4, 4t+8) of its own row — so padding and batch-mates cannot
legitimately change a line's own frames (the hypothesis of property C07)."""


def make_engine(np, torch, le, batch_size, model_type='ctc'):
    class StubEngine(le.BaseEngineLineOCR):
        def __init__(self):
            self.line_px_height = 8
            self.line_vertical_scale = 1
            self.characters = ['a', 'b', 'c', '​']
            self.max_line_width = 1e10
            self.model_type = model_type
            self.device = torch.device('cpu')
            self.batch_size = batch_size
            self.line_padding_px = 32
            self.max_input_horizontal_pixels = 480 * batch_size
            self.net_subsampling = 4
            self.calls = 0

        def run_ocr(self, batch_data):
            self.calls += 1
            return net(np, batch_data, self.characters)
    return StubEngine()


def net(np, batch_data, characters):
    """batch_data: N x H x W x 3 uint8 -> (list of transcriptions, N x T x C float logits), T = W // 4"""
    x = batch_data.astype(np.float64).mean(axis=(1, 3))             # N x W column means
    N, W = x.shape
    T = W // 4
    C = len(characters)
    pad = np.zeros((N, 4))
    xp = np.concatenate([pad, x, np.zeros((N, 8))], axis=1)
    logits = np.zeros((N, T, C))
    for t in range(T):
        win = xp[:, 4 * t:4 * t + 12]                               # columns 4t-4 .. 4t+8 of the row
        m = win.mean(axis=1)
        c = (np.round(m / 40.0).astype(int)) % C                    # class from the local brightness
        c = np.where(m < 1e-9, C - 1, c)                            # dark (padding) -> blank
        for n in range(N):
            row = np.full(C, -6.0 - 0.01 * t)
            row[c[n]] = 3.0 + (win[n, 5] % 7) * 0.1
            if t % 5 == 2 and m[n] >= 1e-9:          # never over pure padding: padding frames stay confidently blank
                # an ambiguous frame: two classes share the top score (posterior ~0.5 each) and a third lies 8.8 below them, i.e. at
                # posterior 7.5e-5 — below the 1e-4 threshold of the sparse storage, but above 1e-4 *relative to the best class*
                row[(c[n] + 1) % C] = row[c[n]]
                row[(c[n] + 2) % C] = row[c[n]] - 8.8
            logits[n, t] = row
    texts = []
    for n in range(N):
        am = logits[n].argmax(axis=1)
        out, prev = [], None
        for a in am:
            if a != prev and a != C - 1:
                out.append(characters[a])
            prev = a
        texts.append(''.join(out))
    return texts, logits


def make_line(np, width, seedv):
    """8 x width x 3 crop with a deterministic texture depending on the seed (so that lines differ)"""
    cols = (np.arange(width) * 7 + seedv * 13) % 5
    img = np.zeros((8, width, 3), dtype=np.uint8)
    img[:, :, :] = (40 + 40 * cols)[None, :, None]
    return img
