"""C02 — CTC prefix beam search never over-counts and is exact when unpruned.  BOUNDED overall (see DESIGN.md §5 C02):
the whole-algorithm contract is checked on the real decoder, exhaustively over a finite grid of matrices, against the
executable specs (alpha recursion validated against brute-force enumeration; reference frame-synchronous beam search).
Deductive part: helper contracts (where pyvc reaches them)."""
import itertools
from vf import core, bounded, selftest
from vf.core import Failure, sig
from specs import ctc as S
from props import _ctc

F = 'pero_ocr/decoding/decoders.py'
MUTANTS = [
    {'name': 'no prefix joining', 'file': F, 'old': '            adjust_for_prefix_joining(total_Pnb, prefixes, reduced_last_chars)\n', 'new': ''},
    {'name': 'joined mass not removed from the source (double count)', 'file': F,
     'old': '        P_visual[joinable_prefix_ind, last_chars[p_ind]] = -np.inf\n', 'new': ''},
    {'name': 'continuation mask dropped', 'file': F, 'old': 'P_switching_letter = np.add.outer(Pnb_old, Pc) + delta',
     'new': 'P_switching_letter = np.add.outer(Pnb_old, Pc)'},
    {'name': 'Pb forgets Pnb', 'file': F, 'old': '        return np.logaddexp(Pb_old, Pnb_old) + P_blank', 'new': '        return Pb_old + P_blank'},
    {'name': 'guard removed', 'file': F,
     'old': "        if logprobs_max_deviation(logits) > max_unnormalization:\n            raise ValueError('Expected properly normalized logits')\n\n        prefixes = [EMPTY_PREFIX]",
     'new': "        prefixes = [EMPTY_PREFIX]"},
    {'name': 'all-pruned frame keeps Pnb', 'file': F, 'old': '                Pnb[...] = self.LOG_ZERO_PROBABILITY\n', 'new': ''},
]


def _chunk(args):
    mats, ks, modes = args
    core.setup_repo_path()
    import numpy as np
    from pero_ocr.decoding import decoders as D
    out = {'evaluations': 0, 'nontrivial': 0, 'failures': [], 'samples': []}
    for lg in mats:
        for k in ks:
            for pruning in modes:
                out['evaluations'] += 1
                if len(lg) >= 2:
                    out['nontrivial'] += 1
                try:
                    bad = _ctc.check_c02(np, D, lg, k, pruning)
                except Exception as e:
                    bad = [('no-exception', 'raised %r' % (e,))]
                for clause, detail in bad:
                    out['failures'].append({'clause': clause, 'input': {'logits': lg, 'k': k, 'pruning_selector': pruning}, 'observed': detail})
        if len(out['samples']) < 2 and len(lg) == 2:
            out['samples'].append({'logits': lg, 'k': ks[0]})
    # ONE long-lived decoder (as PageDecoder keeps it): it first decodes lines that begin with blank-only frames (every symbol
    # below the pruning threshold: the shortcut branch of the frame loop), then the matrices of this shard; every result is held to
    # the same clauses as with a fresh decoder
    three = [lg for lg in mats if len(lg[0]) == 3 and len(lg) >= 2][:3]
    if three:
        lead = [[-14.0, -14.0, -1.7e-6]] * 2
        for k in ks:
            for pruning in modes:
                kw = {} if pruning else {'relevant_logits_selector': _ctc.identity_selector(np)}
                dec = D.CTCPrefixLogRawNumpyDecoder(_ctc.LETTERS2, k=k, **kw)
                hist = []
                for lg in three:
                    m_ = lead + [list(r) for r in lg]
                    for cur in (m_, lg):
                        out['evaluations'] += 1
                        hist.append(cur)
                        try:
                            bad = _ctc.check_c02(np, D, cur, k, pruning, dec=dec)
                        except Exception as e:
                            bad = [('no-exception', 'raised %r' % (e,))]
                        for clause, detail in bad:
                            out['failures'].append({'clause': clause, 'input': {'history': list(hist), 'logits': cur, 'k': k, 'pruning_selector': pruning},
                                                    'observed': 'call #%d of one decoder: %s' % (len(hist), detail)})
    return out


def _lean_pigeonhole(thorough):
    """the counting step of the top_k contract is a Lean 4 / Mathlib theorem; Lean re-checks it in the thorough tier"""
    import hashlib, os, shutil, subprocess, time
    fn = os.path.join(core.VERIF, 'lean', 'Pigeonhole.lean')
    info = {'file': 'lean/Pigeonhole.lean', 'theorem': 'topk_no_bot', 'sha256_16': hashlib.sha256(open(fn, 'rb').read()).hexdigest()[:16],
            'uses_sorry': 'sorry' in open(fn).read().split('-/', 1)[-1]}
    if not thorough:
        info['checked'] = 'not in this tier (about 2 minutes: import Mathlib); run ./check C02 --tier thorough'
        return info
    if shutil.which('lean') is None:
        info['checked'] = 'lean not on PATH'
        return info
    t0 = time.time()
    try:
        p = subprocess.run(['lean', fn], capture_output=True, text=True, timeout=1500, cwd=os.path.dirname(fn))
        out = (p.stdout + p.stderr).strip()
        info.update({'checked': p.returncode == 0 and 'error' not in out and 'sorry' not in out, 'exit': p.returncode, 'output': out[-400:], 'seconds': round(time.time() - t0, 1)})
    except subprocess.TimeoutExpired:
        info['checked'] = 'timeout'
    return info


def run(ctx):
    thorough = ctx.tier == 'thorough'
    ctx.level = 'other'
    ctx.explanation = (
        'Hybrid. PROVED for all inputs (pyvc, contracts/decoders.py): (1) the per-frame recurrences of the prefix search — compute_Pb, '
        'compute_Pnb (extension from blank always, from non-blank only when the character differs from the last one; "keep" column), '
        'get_reduced_Pc, get_reduced_last_chars, get_continuation_mask; (2) the bookkeeping — get_new/old_prefixes_positions, '
        'find_new_prefixes, find_matching, adjust_for_prefix_joining (the mass of "parent + last character" is moved to the existing child '
        'and removed from the parent row, exactly those cells and no others); (3) the beam loop of CTCPrefixLogRawNumpyDecoder.__call__ '
        '(configuration without a language model): inductive invariant "the beam holds pairwise distinct prefixes of real characters, each with '
        'non-zero probability, last_chars[p] is the last symbol of prefix p, and Pb[p] <= CTCB(t, prefix p), Pnb[p] <= CTCNB(t, prefix p)" '
        'where CTCB / CTCNB are the textbook CTC prefix-probability recurrences (ending in blank / non-blank) — hence pairwise distinct transcripts and '
        'vis score <= CTC log-probability of the transcript for EVERY matrix, beam width and pre-selection; ValueError iff the '
        'normalisation deviation exceeds the tolerance; (4) multisort.top_k itself (k pairwise different cells, each at least every cell not returned) from '
        'models of ravel / argpartition / unravel_index, its counting consequence in Lean.  ASSUMED (listed under trusted_base, validated by the '
        'bounded tier): the configurable pre-selection returns strictly increasing positions, blank has non-zero probability in every frame.  BOUNDED stand-in for the numeric clauses: the run-time contract of the decoder — '
        'vis_sc <= CTC log-probability (also proved, see above), exact bag when nothing is pruned, equality with a reference frame-synchronous k-best prefix beam '
        'search (cases whose k-th place is tied are compared on the weaker clauses only), rejection of unnormalised input — is evaluated '
        'on the real decoder for every matrix of a finite grid.  Spec functions: CTC alpha recursion validated against explicit '
        'enumeration of all alignments.')
    core.setup_repo_path()
    from pyvc import run as vrun
    from contracts import decoders as DC
    reps = vrun.verify(DC.KEYS, DC.CONTRACTS, root=core.repo_root(), both=thorough)
    ctx.add_proof_reports(reps, clause='per-frame recurrences, prefix bookkeeping, distinct-prefix invariant of the beam loop')
    ctx.extra['lean_pigeonhole'] = _lean_pigeonhole(thorough)
    if ctx.extra['lean_pigeonhole'].get('uses_sorry') or (thorough and ctx.extra['lean_pigeonhole'].get('checked') is not True):
        ctx.undecided.append('lean/Pigeonhole.lean (counting step of the top_k contract) was not confirmed by Lean: %r' % (ctx.extra['lean_pigeonhole'],))
    ctx.trusted += ['multisort.top_k is PROVED from models of ravel / np.argpartition / np.unravel_index (pyvc.lib); the counting consequence "k <= number of finite cells => no returned cell is -inf" is lean/Pigeonhole.lean::topk_no_bot (checked by Lean in the thorough tier; quick tier records the file hash)',
                    'ASSUMED contract: the pre-selection callable returns strictly increasing positions of the row',
                    'ASSUMED input property: blank has non-zero probability in every frame; no +inf log-probabilities',
                    'decoder proved in the configuration without a language model (self._lm is None, model_eos = return_h = False)']
    n, bad = S.validate(3)
    ctx.extra['spec_validation'] = {'cases': n, 'mismatches': len(bad), 'what': 'CTC alpha recursion vs enumeration of all alignments'}
    if bad:
        ctx.broken.append('spec ctc_logprob disagrees with brute force: %r' % (bad[0],))
    import numpy as np
    from pero_ocr.decoding import decoders as D
    fails = []
    g = _ctc.check_guard(np, D)
    for clause, detail in g:
        fails.append(Failure(sig('rt', 'decoder', clause), detail, function='CTCPrefixLogRawNumpyDecoder.__call__', input={'case': detail}, observed=detail, clause=clause))
    mats = _ctc.grid(3, zero_variants=(S.NEG_INF,))
    mats += _ctc.grid(2, zero_variants=(-80.0,))
    if thorough:
        mats += _ctc.grid(4, extreme_only_from=4)[len(_ctc.grid(3)):]
        mats += _ctc.grid(3, C=4, denom=2)
    mats += _ctc.wide_alphabet_matrices()        # symbol indices with two digits (13 letters + blank)
    mats = bounded.order(mats, ctx.seed)
    ks = [1, 2, 3, 10 ** 6]
    res = bounded.pmap(_chunk, [(c, ks, (True, False)) for c in bounded.shard(mats, 48)])
    seen = set()
    for f in sorted(res['failures'], key=lambda f: (len(f['input']['logits']), str(f['input']))):
        s = sig('rt', 'CTCPrefixLogRawNumpyDecoder.__call__', f['clause'])
        if s in seen:
            continue
        seen.add(s)
        fails.append(Failure(s, 'run-time contract %s fails: %s on %s' % (f['clause'], f['observed'], f['input']),
                             function='CTCPrefixLogRawNumpyDecoder.__call__', input=f['input'], observed=f['observed'], clause=f['clause']))
    ctx.add_bounded('beam-search-grid',
                    'all matrices T<=3 (thorough: + T=4 over near-deterministic rows, + C=4 half rows T<=3) with rows = all distributions with quarter probabilities over 3 classes (log 0 = -inf; T<=2 also with -80), plus 116 matrices T=3..4 over 13 letters + blank where only the symbols 1, 2, 11, 12 are probable; k in {1,2,3,1e6}; default and non-pruning selector',
                    res['evaluations'] + 6, res['nontrivial'], True, res['samples'], fails,
                    rule='every (matrix, k, selector) of the grid; non-trivial = at least two frames',
                    clause='distinct transcripts; no over-count; exact when unpruned; equals reference beam search; rejects unnormalised input')
    bounded.close()
    ctx.trusted += ['executable specs specs/ctc.py (alpha recursion validated against brute force on %d cases; reference beam search)' % n,
                    'numpy float arithmetic (comparisons with tolerance 1e-6)']
    if thorough:
        selftest.run(ctx, MUTANTS)


def replay(entry):
    core.setup_repo_path()
    import numpy as np
    from pero_ocr.decoding import decoders as D
    inp = entry.get('input') or {}
    if 'logits' not in inp:
        bad = _ctc.check_guard(np, D)
    else:
        lg = [[float(x) for x in r] for r in inp['logits']]
        dec = None
        if inp.get('history'):
            kw = {} if inp['pruning_selector'] else {'relevant_logits_selector': _ctc.identity_selector(np)}
            dec = D.CTCPrefixLogRawNumpyDecoder(_ctc.LETTERS2, k=inp['k'], **kw)
            for m_ in inp['history'][:-1]:
                dec(np.asarray(m_, dtype=float))
        bad = _ctc.check_c02(np, D, lg, inp['k'], inp['pruning_selector'], dec=dec)
    for b in bad:
        print('REPLAY-FAIL', b)
    print('replay: %d problem(s)' % len(bad))
    return 1 if bad else 0
