"""C16 — every reported confidence is a probability derived from normalised posteriors.

Proved (unbounded, modulo the stated axioms for exp / log-sum-exp): get_prob stays in [0,1]; get_line_confidence and
get_line_confidence_transformer entries are in [0,1]; BagOfHypotheses posteriors <= 0, confidence and
transcript_confidence in [0,1]; line_confident_enough is monotone in its threshold (relational).  What these proofs
detect is structural: a dropped normalisation, a missing clip, a maximum over the wrong set.
Bounded (numeric): range, shift invariance, one-hot -> 1, posteriors sum to 1, on a finite grid of matrices and on
bag histories (query / add / re-weight / query)."""
import itertools
import math
from vf import core, bounded, selftest
from vf.core import Failure, sig

CE = 'pero_ocr/core/confidence_estimation.py'
PP = 'pero_ocr/document_ocr/page_parser.py'
BH = 'pero_ocr/decoding/bag_of_hypotheses.py'
MUTANTS = [
    {'name': 'line confidence not clipped at 0', 'file': CE, 'old': 'confidences[i] = max(0, label_prob - other_prob)', 'new': 'confidences[i] = label_prob - other_prob'},
    {'name': 'competitor not masked for the aligned label', 'file': CE, 'old': '        masked_probs[:, label] = 0\n', 'new': ''},
    {'name': 'posteriors not normalised', 'file': BH, 'old': '        return [s - total_prob for s in total_scores]', 'new': '        return [s for s in total_scores]'},
    {'name': 'confident-line test without normalisation', 'file': PP,
     'old': '    log_probs = logits - np.logaddexp.reduce(logits, axis=1)[:, np.newaxis]\n    best_probs = np.max(log_probs, axis=-1)\n    worst_best_prob',
     'new': '    log_probs = logits\n    best_probs = np.max(log_probs, axis=-1)\n    worst_best_prob'},
    {'name': 'page confidence in log space (exp dropped)', 'file': PP, 'old': '        best_probs = np.exp(np.max(log_probs, axis=-1))', 'new': '        best_probs = np.max(log_probs, axis=-1)'},
    {'name': 'letter confidence from unnormalised logits', 'file': CE, 'old': '    log_probs = normalize_logits(logits)\n', 'new': '    log_probs = logits\n'},
    {'name': 'confident-line test inverted for large thresholds', 'file': PP, 'old': '    return worst_best_prob > confidence_threshold',
     'new': '    return worst_best_prob > confidence_threshold or confidence_threshold > 0.99'},
    {'name': 'original-defect: fixed sentinel 1000 as the end of the line (lines with more than ~1000 frames raise)', 'file': 'pero_ocr/core/confidence_estimation.py',
     'old': 'alignment = np.concatenate([aligned_letters, [2 * log_probs.shape[0]]])', 'new': 'alignment = np.concatenate([aligned_letters, [1000]])'},
]


def matrices(np, thorough):
    """small logit matrices: T frames x 4 classes (blank last), dense and sparse-with-floor style"""
    vals = [-6.0, -1.0, 0.5, 2.5]
    rows = [list(r) for r in itertools.product(vals, repeat=4) if len(set(r)) > 1][::(3 if thorough else 7)]
    rows += [[50.0, -80.0, -80.0, -80.0], [-80.0, -80.0, 50.0, -80.0], [-80.0, -80.0, -80.0, 50.0], [0.25, 0.25, 0.25, 0.25]]
    mats = []
    for T in (2, 3, 4):
        step = max(1, len(rows) ** T // (1500 if thorough else 400))
        for k, m in enumerate(itertools.product(range(len(rows)), repeat=T)):
            if k % step == 0:
                mats.append([rows[i] for i in m])
    return mats


def check_matrix(np, sparse, ce, pp, layout, lg):
    from pero_ocr.core.layout import TextLine
    bad = []
    arr = np.asarray(lg, dtype=float)
    T, C = arr.shape
    # per-frame constants: none; a small ramp; one frame lifted far above the others (any constant must be immaterial,
    # also one that makes naive exponentiation of the other frames underflow)
    shifts = [lambda t: 0.0, lambda t: 0.37 * (t + 1), lambda t: 1000.5 if t == T // 2 else 0.0]
    results = []
    for sh in shifts:
        a = arr + np.asarray([sh(t) for t in range(T)])[:, None]
        line = TextLine(id='l', logits=sparse.csc_matrix(a), characters=['a', 'b', 'c', '~'], transcription='')
        lp = line.get_full_logprobs()
        if np.any(lp > 1e-12) or abs(np.exp(lp).sum(axis=1) - 1).max() > 1e-9:
            bad.append(('normalised-posteriors', 'get_full_logprobs rows do not sum to 1'))
        am = [int(x) for x in lp.argmax(axis=1)]
        labels = [k for k, _ in itertools.groupby(am) if k != C - 1]
        res = {}
        if labels and len(labels) < T:
            conf = ce.get_line_confidence(line, np.asarray(labels))
            res['line'] = [float(x) for x in conf]
            if np.any(conf < -1e-12) or np.any(conf > 1 + 1e-12):
                bad.append(('line-confidence-in-unit-interval', 'get_line_confidence %r' % (conf,)))
            lc = ce.get_letter_confidence(a, am, C - 1)
            res['letter'] = [float(x) for x in lc]
            if any(x > 1e-12 for x in lc):
                bad.append(('letter-confidence-is-log-probability', 'get_letter_confidence %r' % (lc,)))
        if len(labels) == T:
            conf = ce.get_line_confidence(line, np.asarray(labels))
            res['transformer'] = [float(x) for x in conf]
            if np.any(conf < 0) or np.any(conf > 1 + 1e-12):
                bad.append(('line-confidence-in-unit-interval', 'transformer path %r' % (conf,)))
        w = pp.PageParser.compute_line_confidence(line)
        res['worst'] = float(w)
        if not (0 <= w <= 1 + 1e-12):
            bad.append(('page-confidence-in-unit-interval', 'compute_line_confidence %r' % w))
        dense = line.get_dense_logits()
        # "all thresholds": also negative ones (a disabled filter is commonly written as -1) and values above 1
        ths = (-1.0, -1e-3, 0.0, 0.3, 0.6, 0.9, 1.0, 1.5)
        import warnings
        with warnings.catch_warnings():
            warnings.simplefilter('ignore')
            flags = [bool(pp.line_confident_enough(dense, th)) for th in ths]
        res['flags'] = flags[2:7]
        if any(b and not a for a, b in zip(flags, flags[1:])):
            bad.append(('threshold-monotone', 'line_confident_enough over thresholds %r: %r' % (ths, flags)))
        flags = flags[2:7]
        if flags[-1]:
            bad.append(('threshold-monotone', 'a probability exceeds threshold 1.0'))
        # the test as PageDecoder APPLIES it: a line is kept undecoded exactly when it is confident enough at the configured threshold
        # (thresholds written as int 0, float 0.0, numpy 0.0 included), so the kept/decoded decision is monotone as well
        if sh is shifts[0]:
            class _Bag:
                def best_hyp(self):
                    return '<decoded>'

            class _Dec:
                calls = 0

                def __call__(self, logits, **kw):
                    _Dec.calls += 1
                    return _Bag()
            sweep = (-1.0, 0, 0.0, np.float64(0.0), 1e-12, 0.3, 0.6, 0.9, 1.0, 1.5)
            kept = []
            for th in sweep:
                pd_ = pp.PageDecoder(_Dec(), line_confidence_threshold=th)
                before = _Dec.calls
                with warnings.catch_warnings():
                    warnings.simplefilter('ignore')
                    pd_.decode_line(line)
                    want = bool(pp.line_confident_enough(pp.prepare_dense_logits(line), th))
                kept.append(_Dec.calls == before)
                if kept[-1] != want:
                    bad.append(('threshold-monotone', 'PageDecoder with threshold %r %s the line, line_confident_enough says %r' % (th, 'keeps' if kept[-1] else 'decodes', want)))
            if any(b and not a for a, b in zip(kept, kept[1:])):
                bad.append(('threshold-monotone', 'PageDecoder keeps the line undecoded at thresholds %r: %r' % (sweep, kept)))
        results.append(res)
    a = results[0]
    # exact ties (two equal top scores in a frame, or neighbouring frames with equal best probability) make the alignment and the
    # most-confident-frame choice ambiguous: a constant of 1000 perturbs the log-softmax by ~1e-13 and may resolve such a tie the other
    # way (so does the 1e-16 noise of the small ramp), which legitimately changes the confidences.  Shift invariance is therefore
    # compared on tie-free matrices only (the other clauses are evaluated on every matrix and every variant).
    srt = np.sort(arr, axis=1)
    pm = np.exp(arr - np.log(np.exp(arr).sum(axis=1, keepdims=True))).max(axis=1)
    ties = bool((np.abs(srt[:, -1] - srt[:, -2]) < 1e-9).any() or (np.abs(pm[1:] - pm[:-1]) < 1e-9).any())
    for vi, b in enumerate(results[1:], 1):
        if ties:
            continue
        for key in a:
            if key == 'flags':
                same = a[key] == b.get(key)
            elif isinstance(a[key], list):
                same = len(a[key]) == len(b.get(key, [])) and all(abs(x - y) < 1e-7 for x, y in zip(a[key], b[key]))
            else:
                same = key in b and abs(a[key] - b[key]) < 1e-7
            if not same:
                bad.append(('shift-invariance', '%s changes when a constant is added to every frame: %r vs %r' % (key, a[key], b.get(key))))
    return bad


def onehot_cases(np, sparse, ce, pp):
    from pero_ocr.core.layout import TextLine
    from specs.ctc import collapse
    bad = []
    # one-hot posteriors along EVERY path over {a, b, c, blank} of 2..5 frames that spells at least one character (characters
    # held for several frames, repeats split by a blank, leading / trailing blanks, ...): every character confidence is 1
    for T in (2, 3, 4, 5):
        for path in itertools.product(range(4), repeat=T):
            labels = collapse(path, 3)
            if not labels or len(labels) == T:
                continue
            m = np.full((T, 4), -80.0)
            for t, c in enumerate(path):
                m[t, c] = 40.0
            ln = TextLine(id='l', logits=sparse.csc_matrix(m), characters=['a', 'b', 'c', '~'])
            try:
                cf = ce.get_line_confidence(ln, np.asarray(labels))
            except Exception as e:
                bad.append(('no-exception', 'get_line_confidence on one-hot path %r raised %r' % (path, e)))
                break
            if np.abs(cf - 1).max() > 1e-9:
                bad.append(('one-hot-is-one', 'get_line_confidence on one-hot posteriors along path %r (labels %r): %r' % (list(path), labels, cf.tolist())))
                break
        if bad:
            break
    a = np.full((4, 4), -80.0)
    path = [0, 3, 1, 3]
    for t, c in enumerate(path):
        a[t, c] = 40.0
    line = TextLine(id='l', logits=sparse.csc_matrix(a), characters=['a', 'b', 'c', '~'])
    conf = ce.get_line_confidence(line, np.asarray([0, 1]))
    if np.abs(conf - 1).max() > 1e-9:
        bad.append(('one-hot-is-one', 'get_line_confidence on one-hot posteriors: %r' % (conf,)))
    if abs(pp.PageParser.compute_line_confidence(line) - 1) > 1e-9:
        bad.append(('one-hot-is-one', 'compute_line_confidence on one-hot posteriors'))
    lc = ce.get_letter_confidence(a, path, 3)
    if max(abs(x) for x in lc) > 1e-9:
        bad.append(('one-hot-is-one', 'get_letter_confidence %r' % (lc,)))
    return bad


def bag_histories(BagOfHypotheses):
    """a bag queried, extended / re-weighted and queried again must report probabilities at every point"""
    bad = []
    n = 0
    vals = [(-0.2, -1.0), (-3.0, -0.1), (-1.0, None), (-7.5, -4.0), (0.0, 0.0)]
    for combo in itertools.permutations(range(len(vals)), 3):
        for w0, w1 in ((1.0, 1.0), (0.0, 2.5), (0.5, 0.5)):
            hy = [vals[i] for i in combo]
            if any(l is None for _, l in hy) and not all(l is None for _, l in hy):
                hy = [(v, (l if l is not None else -2.0)) for v, l in hy]
            bag = BagOfHypotheses(lm_weight=w0)

            def query(k, weights):
                post = bag.posteriors()
                ssum = sum(math.exp(p) for p in post)
                c = bag.confidence()
                tc = [bag.transcript_confidence('t%d' % j) for j in range(k)]
                if abs(ssum - 1) > 1e-9 or any(p > 1e-12 for p in post):
                    bad.append(('posteriors-sum-to-one', {'hyps': hy[:k], 'weights': weights}, 'posteriors %r sum to %r' % (post, ssum)))
                if not (0 <= c <= 1 + 1e-12) or any(not (0 <= x <= 1 + 1e-12) for x in tc):
                    bad.append(('bag-confidence-in-unit-interval', {'hyps': hy[:k], 'weights': weights}, 'confidence %r, transcript confidences %r' % (c, tc)))
                if abs(c - max(tc)) > 1e-12:
                    bad.append(('confidence-is-max-posterior', {'hyps': hy[:k], 'weights': weights}, 'confidence %r vs %r' % (c, tc)))

            for step, (v, l) in enumerate(hy):
                bag.add('t%d' % step, v, l)
                if step == 1:
                    bag.lm_weight = w1
                n += 1
                query(step + 1, [w0, w1])
            # the weight of an already queried bag is changed with no add in between (seeded change C16r: a normaliser cached
            # by the first query and dropped only by add()), then the bag is re-ordered and queried once more
            for w2 in (0.0, 2.5, w0):
                bag.lm_weight = w2
                n += 1
                query(len(hy), [w0, w1, w2])
            bag.sort()
            n += 1
            query(len(hy), [w0, w1, w0, 'sorted'])
            if bag.transcript_confidence('absent') != 0.0:
                bad.append(('bag-confidence-in-unit-interval', {'hyps': hy}, 'absent transcript has confidence'))
    return n, bad


def _chunk(mats):
    core.setup_repo_path()
    import numpy as np
    from scipy import sparse
    from pero_ocr.core import confidence_estimation as ce
    from pero_ocr.document_ocr import page_parser as pp
    from pero_ocr.core import layout
    out = {'evaluations': 0, 'nontrivial': 0, 'failures': [], 'samples': []}
    for lg in mats:
        out['evaluations'] += 1
        out['nontrivial'] += 1 if len(lg) >= 3 else 0
        try:
            bad = check_matrix(np, sparse, ce, pp, layout, lg)
        except Exception as e:
            bad = [('no-exception', 'raised %r' % (e,))]
        for clause, detail in bad:
            out['failures'].append({'clause': clause, 'input': {'logits': lg}, 'observed': detail})
        if len(out['samples']) < 1:
            out['samples'].append({'logits': lg})
    return out


def engine_line_check():
    # confidences of lines as the ENGINE stores them: the real process_lines (default sparse storage) on a network whose posteriors
    # are one-hot (winner 40, all others -40 per frame) - the line confidence and every character confidence are 1
    try:
        import numpy as npx
        import torch as torchx
        from pero_ocr.ocr_engine import line_ocr_engine as lex
        from pero_ocr.core import layout as layoutx, confidence_estimation as cex
        from pero_ocr.document_ocr import page_parser as ppx
        from props import _engine_stub as ESx
        engx = ESx.make_engine(npx, torchx, lex, 4)
        path = [3, 3, 0, 3, 1, 1, 3, 2, 3, 0, 3, 3]

        def sat_net(batch_data):
            N, T = batch_data.shape[0], batch_data.shape[2] // 4
            lg = npx.full((N, T, 4), -40.0, dtype=npx.float32)
            lg[:, :, 3] = 40.0
            for t_, c_ in enumerate(path):
                lg[:, 8 + t_, :] = -40.0
                lg[:, 8 + t_, c_] = 40.0
            return ['abca'] * N, lg
        engx.run_ocr = sat_net
        tr_, lg_, co_ = engx.process_lines([ESx.make_line(npx, 60, 1)])
        linex = layoutx.TextLine(id='l', transcription=tr_[0], logits=lg_[0], characters=list(engx.characters), logit_coords=co_[0])
        cw = float(ppx.PageParser.compute_line_confidence(linex))
        cc = cex.get_line_confidence(linex, npx.asarray([0, 1, 2, 0]))
        bad_e = []
        if abs(cw - 1) > 1e-3:
            bad_e.append(('one-hot-posteriors-give-one', 'line produced by process_lines from one-hot network posteriors: compute_line_confidence %.4f' % cw))
        if npx.abs(npx.asarray(cc) - 1).max() > 1e-3:
            bad_e.append(('one-hot-posteriors-give-one', 'line produced by process_lines from one-hot network posteriors: character confidences %r' % npx.asarray(cc).round(4).tolist()))
    except Exception as e:
        bad_e = [('no-exception', 'engine-line check raised %r' % (e,))]
    return bad_e


def run(ctx):
    from pyvc import run as vrun
    thorough = ctx.tier == 'thorough'
    ctx.level = 'other'
    ctx.explanation = (
        'Hybrid. PROVED (modulo the listed axioms exp > 0, exp(x) <= 1 for x <= 0, lse(x) >= x_i): range obligations of the functions '
        'under contract. BOUNDED numeric: every confidence in [0,1], invariance under adding a constant to every logit of a frame, '
        'one-hot posteriors give 1, hypothesis posteriors sum to 1, confident-line test monotone in the threshold — on a finite grid '
        'of logit matrices (dense and sparse-with-floor) and on bag histories (query, add, re-weight, query again).')
    core.setup_repo_path()
    try:
        from contracts import conf
        reps = vrun.verify(conf.KEYS, conf.CONTRACTS, root=core.repo_root(), both=thorough)
        ctx.add_proof_reports(reps, clause='range of confidences under the exp / lse axioms')
        from pyvc import solve
        rel = conf.extra_reports(core.repo_root())
        allv = [vc for r in rel for vc in r.vcs]
        for r in rel:
            for vc in r.vcs:
                vc.func = r.name
        solve.discharge(allv, {r.name: r.axioms for r in rel})
        ctx.add_proof_reports(rel, clause='confident-line test is monotone in its threshold (relational)')
    except ImportError:
        ctx.notes.append('contracts/conf.py not present: bounded only')
    import numpy as np
    from scipy import sparse
    from pero_ocr.core import confidence_estimation as ce
    from pero_ocr.document_ocr import page_parser as pp
    from pero_ocr.decoding.bag_of_hypotheses import BagOfHypotheses
    fails = []
    for clause, detail in onehot_cases(np, sparse, ce, pp):
        fails.append(Failure(sig('rt', 'confidence', clause), detail, function='get_line_confidence', input={'case': 'one-hot'}, observed=detail, clause=clause))
    nb, bb = bag_histories(BagOfHypotheses)
    seen = set()
    for clause, inp, detail in bb:
        s = sig('rt', 'BagOfHypotheses', clause)
        if s not in seen:
            seen.add(s)
            fails.append(Failure(s, 'bag contract %s fails: %s on %s' % (clause, detail, inp), function='BagOfHypotheses.posteriors', input=inp, observed=detail, clause=clause))
    ctx.add_bounded('bag-histories', 'all ordered triples of 5 hypotheses added one by one, weight changed after the second add, queried after every step, then re-weighted three times with no add in between and re-ordered, queried after each; with and without LM scores',
                    nb + 3, nb, True, [{'hyps': [(-0.2, -1.0), (-3.0, -0.1)], 'weights': [0.0, 2.5]}], fails,
                    rule='every history of the domain; non-trivial = every query point', clause='posteriors sum to 1; confidences in [0,1]; confidence = max posterior; one-hot = 1')
    mats = bounded.order(matrices(np, thorough), ctx.seed)
    res = bounded.pmap(_chunk, bounded.shard(mats, 32))
    seen = set()
    fails = []
    for f in sorted(res['failures'], key=lambda f: (len(f['input']['logits']), str(f['input']))):
        s = sig('rt', 'confidence', f['clause'])
        if s in seen:
            continue
        seen.add(s)
        fails.append(Failure(s, 'run-time contract %s fails: %s on %s' % (f['clause'], f['observed'], f['input']),
                             function='confidence functions', input=f['input'], observed=f['observed'], clause=f['clause']))
    ctx.add_bounded('logit-matrices', 'systematic subset of T in {2,3,4} x 4-class matrices with entries from {-6,-1,0.5,2.5} (no stored entry is exactly 0) plus one-hot and uniform rows; each also with a per-frame constant added',
                    res['evaluations'], res['nontrivial'], False, res['samples'], fails,
                    rule='every k-th matrix of the product (stated stride); non-trivial = at least three frames',
                    clause='range; shift invariance; threshold monotonicity; normalised posteriors')
    bad_e = engine_line_check()
    ctx.add_bounded('engine-lines', 'one line through the real BaseEngineLineOCR.process_lines (sparse storage) with a stub network whose posteriors are one-hot', 1, 1, False, [{'path': 'abca'}],
                    [Failure(sig('rt', 'confidence', c_), d_, function='process_lines -> compute_line_confidence / get_line_confidence', input={'engine_line': True}, observed=d_, clause=c_) for c_, d_ in bad_e[:1]],
                    rule='fixed case', clause='one-hot posteriors give confidence 1 for lines as the engine stores them')
    from props import _longline
    import numpy as np_
    from scipy import sparse as sparse_
    from pero_ocr.core import layout as layout_, confidence_estimation as ce_
    try:
        n_, bad_ = _longline.check_confidence(np_, sparse_, layout_, ce_)
    except Exception as e:
        n_, bad_ = 4, [('no-exception', 'long-line check raised %r' % (e,))]
    ctx.add_bounded('long-lines', 'lines of 600 / 1040 / 1300 / 2100 logit frames with nearly one-hot posteriors whose last characters lie within the last 200 frames', n_, n_, False,
                    [{'frames': 1300}], [Failure(sig('rt', 'confidence', c_), d_, function='get_line_confidence', input={'long_line': True}, observed=d_, clause=c_) for c_, d_ in bad_[:1]],
                    rule='fixed cases', clause='per-character confidences exist and lie in [0, 1] for lines of any length')
    bounded.close()
    ctx.trusted += ['axioms: exp(x) > 0; x <= 0 => exp(x) <= 1; logsumexp(xs) >= every x_i (A2: reals, no round-off)']
    if thorough:
        selftest.run(ctx, MUTANTS)


def replay(entry):
    core.setup_repo_path()
    import numpy as np
    from scipy import sparse
    from pero_ocr.core import confidence_estimation as ce
    from pero_ocr.document_ocr import page_parser as pp
    from pero_ocr.core import layout
    from pero_ocr.decoding.bag_of_hypotheses import BagOfHypotheses
    inp = entry.get('input') or {}
    if inp.get('engine_line'):
        bad = engine_line_check()
        for b in bad:
            print('REPLAY-FAIL', b)
        print('replay: %d problem(s) on the engine-stored line' % len(bad))
        return 1 if bad else 0
    if inp.get('long_line'):
        from props import _longline
        n_, bad = _longline.check_confidence(np, sparse, layout, ce)
        for b in bad:
            print('REPLAY-FAIL', b)
        print('replay: %d problem(s) on the long lines' % len(bad))
        return 1 if bad else 0
    if 'logits' in inp:
        bad = check_matrix(np, sparse, ce, pp, layout, inp['logits'])
    elif inp.get('case') == 'one-hot':
        bad = onehot_cases(np, sparse, ce, pp)
    elif 'hyps' in inp:
        bad = bag_histories(BagOfHypotheses)[1]
    else:
        print('replay: obligation %s has no concrete input; solver output:\n%s' % (entry.get('obligation'), entry.get('solver_output')))
        return 1
    for b in bad[:5]:
        print('REPLAY-FAIL', b)
    print('replay: %d problem(s)' % len(bad))
    return 1 if bad else 0
