"""C15 — stitching the parts of an over-long line never loses text.

Proved (unbounded): find_best_overlap returns 0 <= o <= min(|t1|,|t2|); merge_transcriptions_and_logits keeps
rows(logits) == chars, |result| == sum|parts| - sum o, and every step is acc[:|acc|-ceil(o/2)] ++ t[floor(o/2):]
(so o == 0 is plain concatenation, the result ends with the last part less floor(o/2) symbols, and with two parts
begins with the first part less ceil(o/2) symbols).  Bounded: the same clauses as run-time contract on the real
functions with real numpy logits, exhaustive over short part lists.
"""
import itertools
from specs import lev as _lev
from vf import core, bounded, selftest
from vf.core import Failure, sig

PROOF_KEYS = ['find_best_overlap', 'merge_transcriptions_and_logits']

MUTANTS = [
    {'name': 'original-defect [:-overlap//2]', 'file': 'pero_ocr/ocr_engine/line_ocr_engine.py',
     'old': 'result_transcription = result_transcription[:keep] + transcription[overlap // 2:]',
     'new': 'result_transcription = result_transcription[:-overlap // 2] + transcription[overlap // 2:]'},
    {'name': 'logits cut differs from text cut', 'file': 'pero_ocr/ocr_engine/line_ocr_engine.py',
     'old': 'result_logits = np.concatenate([result_logits[:keep], logits[overlap // 2:]], axis=0)',
     'new': 'result_logits = np.concatenate([result_logits[:keep], logits[(overlap + 1) // 2:]], axis=0)'},
    {'name': 'floor instead of ceil on the left cut', 'file': 'pero_ocr/ocr_engine/line_ocr_engine.py',
     'old': 'keep = len(result_transcription) - (overlap + 1) // 2',
     'new': 'keep = len(result_transcription) - overlap // 2 - 1'},
    {'name': 'logits not shrunk to text length', 'file': 'pero_ocr/ocr_engine/line_ocr_engine.py',
     'old': 'logits_parts_shrinked.append(logits[:len(transcription)])',
     'new': 'logits_parts_shrinked.append(logits[:len(transcription) + 1])'},
    {'name': 'overlap may exceed the shorter text', 'file': 'pero_ocr/ocr_engine/line_ocr_engine.py',
     'old': 'max_overlap = min(len(text1), len(text2))',
     'new': 'max_overlap = max(len(text1), len(text2))'},
]


def check_merge(le, np, parts, extra):
    """run-time contract of merge_transcriptions_and_logits on one list of parts; returns list of problems"""
    logits = []
    for pi, t in enumerate(parts):
        rows = len(t) + extra
        logits.append(np.array([[pi, r] for r in range(rows)], dtype=float).reshape(rows, 2))
    text, lg = le.merge_transcriptions_and_logits(list(parts), [l.copy() for l in logits])
    bad = []
    if len(lg) != len(text):
        bad.append('rows(logits)=%d != chars=%d' % (len(lg), len(text)))
    # replay the steps with the real find_best_overlap and the step relation of the contract
    acc, acc_rows = parts[0], [(0, r) for r in range(len(parts[0]))]
    total = len(parts[0])
    for pi, t in enumerate(parts[1:], 1):
        o = le.find_best_overlap(acc, t)
        if not (0 <= o <= min(len(acc), len(t))):
            bad.append('overlap %d outside [0, min(%d,%d)]' % (o, len(acc), len(t)))
        if (not acc or not t) and o != 0:
            bad.append('overlap %d with an empty part' % o)
        # independent specification of the detected overlap: the first length whose character error rate (own edit distance) is
        # minimal, provided that minimum is below 1; otherwise 0 (neighbours without overlap are concatenated unchanged)
        cers = [(_lev.lev(list(acc[-j:]), list(t[:j])) / j, j) for j in range(1, min(len(acc), len(t)) + 1)]
        want = 0
        if cers and min(cers)[0] < 1:
            want = min(cers)[1]
        if o != want:
            bad.append('detected overlap of %r and %r is %d, the first minimiser of the error rate below 1 is %d' % (acc, t, o, want))
        if not (set(acc) & set(t)) and o != 0:
            bad.append('parts %r and %r share no character but an overlap of %d is reported' % (acc, t, o))
        cut = len(acc) - (o + 1) // 2
        acc = acc[:cut] + t[o // 2:]
        acc_rows = acc_rows[:cut] + [(pi, r) for r in range(o // 2, len(t))]
        total += len(t) - o
    if text != acc:
        bad.append('text %r != step relation %r' % (text, acc))
    if len(text) != total:
        bad.append('length %d != sum(parts) - sum(overlaps) = %d' % (len(text), total))
    got_rows = [(int(r[0]), int(r[1])) for r in lg]
    if got_rows != acc_rows:
        bad.append('logits rows %r != rows of the kept characters %r' % (got_rows[:6], acc_rows[:6]))
    return bad


def _chunk(args):
    lists, extra = args
    core.setup_repo_path()
    import numpy as np
    from pero_ocr.ocr_engine import line_ocr_engine as le
    out = {'evaluations': 0, 'nontrivial': 0, 'failures': [], 'samples': []}
    for parts in lists:
        out['evaluations'] += 1
        if len(parts) >= 2 and all(parts):
            out['nontrivial'] += 1
        try:
            bad = check_merge(le, np, parts, extra)
        except Exception as e:
            bad = ['raised %r' % (e,)]
        for b in bad:
            out['failures'].append({'input': {'parts': list(parts), 'extra_rows': extra}, 'observed': b})
        if len(out['samples']) < 2 and len(parts) == 2 and all(parts):
            t, _ = le.merge_transcriptions_and_logits(list(parts), [np.zeros((len(p), 1)) for p in parts])
            out['samples'].append({'parts': list(parts), 'merged': t})
    return out


ALPHA = 'abcdefghijklmnopqrstuvwxyzABCDEFGHIJKLMNOPQRSTUVWXYZ0123456789'


BLANKPX = '\0'


def _split_chunk(cases):
    """the real process_lines of a transformer-type engine with max_line_width configured: every over-long line is cut into
    overlapping windows, recognised in parts and stitched by merge_transcriptions_and_logits.  The stub network reads the text
    painted into the crop (one pixel column per character), so the expected parts of a line are the windows of its own text."""
    core.setup_repo_path()
    import numpy as np
    import torch
    from pero_ocr.ocr_engine import line_ocr_engine as le
    MAXW = 16
    out = {'evaluations': 0, 'nontrivial': 0, 'failures': [], 'samples': []}

    class Stub(le.BaseEngineLineOCR):
        def __init__(self, batch_size):
            self.line_px_height = 4
            self.line_vertical_scale = 1
            self.characters = list(ALPHA) + ['~']
            self.max_line_width = MAXW
            self.model_type = 'transformer'
            self.device = torch.device('cpu')
            self.batch_size = batch_size
            self.line_padding_px = 32
            self.max_input_horizontal_pixels = 480 * batch_size
            self.net_subsampling = 4

        def run_ocr(self, batch_data):
            texts, logits = [], []
            for row in batch_data[:, 0, :, 0]:
                idx = [int(v) - 1 for v in row if v > 0]
                texts.append(''.join(ALPHA[i] for i in idx))
                lg = np.full((len(idx) + 2, len(ALPHA) + 1), -5.0)
                for r, i in enumerate(idx):
                    lg[r, i] = 5.0
                logits.append(lg)
            return texts, logits

    from pero_ocr.ocr_engine import transformer_ocr_engine as te

    class Net:
        """stands for the trained transformer: the encoder hands the painted symbols on, the decoder emits them one per step and
        the sentence boundary after the last one (greedy decoding, batching, stopping, trimming are the real engine's)"""
        def __init__(self, nsym):
            self.nsym = nsym
            self.trans_decoder = self

        def encode(self, lines):
            return torch.round(lines[:, 0, 0, :] * 255.0).permute(1, 0).unsqueeze(2)          # (width, batch, 1)

        def dec_embeder(self, tokens):
            return tokens.float().unsqueeze(1)

        def pos_encoder(self, x):
            return x

        def infer(self, label_embs, encoded, is_cached=False):
            step = label_embs.shape[0] - 1
            lg = torch.full((encoded.shape[1], self.nsym), -5.0)
            for b in range(encoded.shape[1]):
                syms = [int(v) - 1 for v in encoded[:, b, 0] if v > 0]
                lg[b, syms[step] if step < len(syms) else self.nsym - 2] = 5.0
            return lg

        def dec_out_proj(self, x):
            return x

    class RealTransformer(te.TransformerEngineLineOCR):
        """the real run_ocr / transcribe_batch / postprocess_decoded / decode of the transformer engine around the stub network"""
        def __init__(self, batch_size):
            Stub.__init__(self, batch_size)
            self.characters = list(ALPHA) + [u'\u200B', '']
            self.sentence_boundary_ind, self.ignore_ind = len(self.characters) - 2, len(self.characters) - 1
            self.net = Net(len(self.characters))

    def paint(text):
        img = np.zeros((4, len(text), 3), dtype=np.uint8)
        img[:, :, :] = np.array([0 if c == BLANKPX else ALPHA.index(c) + 1 for c in text], dtype=np.uint8)[None, :, None]
        return img

    def windows(text):
        if len(text) <= MAXW:
            return [text]
        ov, parts, s0, e0 = MAXW // 4, [], 0, MAXW
        while e0 < len(text):
            parts.append(text[s0:e0])
            s0 += MAXW - ov
            e0 += MAXW - ov
        parts.append(text[s0:e0])
        return [p_.replace(BLANKPX, '') for p_ in parts]
    for case in cases:
        lengths, batch_size, offset = case[:3]
        margin = case[3] if len(case) > 3 else 0
        out['evaluations'] += 1
        texts = [''.join(ALPHA[(offset + 17 * k + j) % len(ALPHA)] for j in range(n)) for k, n in enumerate(lengths)]
        # an indented first line: `margin` blank pixel columns in front of its text (its first window then holds fewer characters
        # than the later ones, although it is as wide)
        texts[0] = BLANKPX * margin + texts[0]
        if sum(1 for t in texts if len(t) > MAXW) >= 2:
            out['nontrivial'] += 1
        bad = []
        for engine in ((Stub, RealTransformer) if out['evaluations'] % 4 == 1 or margin else (Stub,)):
          try:
            got, logits, _ = engine(batch_size).process_lines([paint(t) for t in texts], sparse_logits=False)
            for k, (t, g) in enumerate(zip(texts, got)):
                parts = windows(t)
                t = t.replace(BLANKPX, '')
                ov = MAXW // 4
                if g is None or not g.startswith(parts[0][:len(parts[0]) - (ov + 1) // 2 if len(parts) > 1 else len(parts[0])]):
                    bad.append('line %d: stitched text %r does not begin with its own first part %r (less half the overlap)' % (k, g, parts[0]))
                elif not g.endswith(parts[-1][ov // 2:] if len(parts) > 1 else parts[-1]):
                    bad.append('line %d: stitched text %r does not end with its own last part %r' % (k, g, parts[-1]))
                elif len(set(t)) == len(t) and g != t:
                    bad.append('line %d: windows of a text without repeated symbols overlap unambiguously, yet %r != %r' % (k, g, t))
                elif logits[k].shape[0] != len(g):
                    bad.append('line %d: %d logit rows for %d characters (%s)' % (k, logits[k].shape[0], len(g), engine.__name__))
          except Exception as e:
            bad.append('raised %r (%s)' % (e, engine.__name__))
        for b in bad:
            out['failures'].append({'input': {'line_lengths': list(lengths), 'batch_size': batch_size, 'offset': offset, 'margin': margin}, 'observed': b})
        if len(out['samples']) < 2 and len(lengths) == 2:
            out['samples'].append({'line_lengths': list(lengths), 'batch_size': batch_size})
    return out


def run(ctx):
    from pyvc import run as vrun
    from contracts import lineocr
    thorough = ctx.tier == 'thorough'
    ctx.level = 'proof'
    ctx.explanation = (
        'find_best_overlap and merge_transcriptions_and_logits are verified against their sidecar contracts for all part '
        'lists (any number of parts, any strings, logits with at least as many rows as characters): strings are z3 sequences '
        'of opaque symbols, a logits matrix is a z3 sequence of opaque rows; python slice semantics (negative / clamped '
        'bounds, floor division of negatives) are encoded exactly. The window arithmetic of process_lines (25 % overlap) is '
        'not under contract: it is covered by the bounded check split-and-stitch (the real process_lines of a transformer-type stub engine; every line must be stitched from the windows of its own text).')
    reps = vrun.verify([(lineocr.PATH, k) for k in PROOF_KEYS], lineocr.REGISTRY, root=core.repo_root(), both=thorough)
    ctx.add_proof_reports(reps, clause='per-step relation, length equation, rows == chars, overlap range')
    strings = [''.join(s) for k in range(0, (4 if thorough else 3) + 1) for s in itertools.product('ab', repeat=k)]
    lists = [(a,) for a in strings] + [(a, b) for a in strings for b in strings]
    small = [s for s in strings if len(s) <= (3 if thorough else 2)]
    lists += [(a, b, c) for a in small for b in small for c in small]
    lists = bounded.order(lists, ctx.seed)
    for extra in (0, 2):
        res = bounded.pmap(_chunk, [(c, extra) for c in bounded.shard(lists, 32)])
        fails = []
        if res['failures']:
            f = sorted(res['failures'], key=lambda f: (sum(len(p) for p in f['input']['parts']), str(f['input'])))[0]
            fails.append(Failure(sig('rt', 'merge_transcriptions_and_logits'), 'run-time contract of merge_transcriptions_and_logits fails: %s on %s'
                                 % (f['observed'], f['input']), function='merge_transcriptions_and_logits', input=f['input'],
                                 observed=f['observed'], expected='step relation / rows == chars / length equation'))
        ctx.add_bounded('merge-parts-extra%d' % extra,
                        'all lists of 1..2 parts over {a,b}^<=%d and 3 parts over {a,b}^<=%d, logits rows = chars + %d'
                        % (4 if thorough else 3, 3 if thorough else 2, extra),
                        res['evaluations'], res['nontrivial'], True, res['samples'], fails,
                        rule='every list of parts in the domain; non-trivial = at least two non-empty parts',
                        clause='same contract as the proof, on the real functions with real numpy logits')
    # the caller: window splitting + stitching inside process_lines (several over-long lines in one batch, several batches)
    widths = (5, 16, 17, 28, 29, 41, 60)
    cases = [((a,), bs, 0) for a in widths for bs in (1, 2)] + \
            [((a, b), bs, off) for a in widths for b in widths for bs in (1, 2, 8) for off in ((0, 5) if thorough else (0,))] + \
            [((a, b, c), bs, 3) for a in widths[2:] for b in widths[2:] for c in widths[::3] for bs in ((2, 8) if thorough else (8,))]
    cases += [((a, b), bs, 1, m) for a in (20, 30) for b in (5, 24) for bs in (2, 8) for m in (10, 13, 20)]      # indented first line
    res = bounded.pmap(_split_chunk, bounded.shard(bounded.order(cases, ctx.seed), 16))
    fails = []
    if res['failures']:
        f = sorted(res['failures'], key=lambda f: (sum(f['input']['line_lengths']), str(f['input'])))[0]
        fails.append(Failure(sig('rt', 'process_lines', 'split-lines-stitched-from-own-parts'),
                             'a line split for recognition is not stitched from its own parts: %s on %s' % (f['observed'], f['input']),
                             function='BaseEngineLineOCR.process_lines', input=f['input'], observed=f['observed'],
                             expected='begins with its first window less half the overlap, ends with its last window, equals the text when the windows overlap unambiguously; one logit row per character',
                             clause='split-lines-stitched-from-own-parts'))
    ctx.add_bounded('split-and-stitch', 'process_lines of a transformer-type stub engine (max_line_width 16, overlap 4) on 1..3 painted lines of '
                    '%r characters, batch sizes 1/2/8' % (widths,), res['evaluations'], res['nontrivial'], False, res['samples'], fails,
                    rule='line-length tuples x batch sizes; non-trivial = at least two over-long lines in the call',
                    clause='a split line is stitched from its own parts (begins with the first, ends with the last, length equation)')
    bounded.close()
    if thorough:
        selftest.run(ctx, MUTANTS)


def replay(entry):
    core.setup_repo_path()
    import numpy as np
    from pero_ocr.ocr_engine import line_ocr_engine as le
    inp = entry.get('input') or {}
    if 'line_lengths' in inp:
        case = (tuple(inp['line_lengths']), inp['batch_size'], inp['offset']) + ((inp['margin'],) if inp.get('margin') else ())
        r = _split_chunk([case])
        for f in r['failures']:
            print('REPLAY-FAIL', f['observed'])
        print('replay: %d problem(s) on %r' % (len(r['failures']), inp))
        return 1 if r['failures'] else 0
    if 'parts' not in inp:
        print('replay: obligation %s has no concrete input; solver output:\n%s' % (entry.get('obligation'), entry.get('solver_output')))
        return 1
    bad = check_merge(le, np, tuple(inp['parts']), inp.get('extra_rows', 0))
    for b in bad:
        print('REPLAY-FAIL', b)
    print('replay: %d problem(s) on %r' % (len(bad), inp))
    return 1 if bad else 0
