"""C12 — region sorting only permutes regions and always terminates.  BOUNDED overall (DESIGN.md §5 C12): both sorters on
every page of a finite grid of axis-parallel boxes (incl. degenerate / identical / nested / overlapping), a slanted-line
page (non-zero de-skew), within a time budget.  Deductive part: NaiveRegionSorter.process_page meets the precondition of
DBSCAN (at least one sample) and rebuilds page.regions as the given permutation of the old list."""
import itertools
import signal
from vf import core, bounded, selftest
from vf.core import Failure, sig

N = 'pero_ocr/layout_engines/naive_sorter.py'
S = 'pero_ocr/layout_engines/smart_sorter.py'
MUTANTS = [
    {'name': 'original-defect: no guard for an empty page', 'file': N,
     'old': "        if len(page_layout.regions) < 2:  # nothing to sort (and DBSCAN rejects an empty set of points)\n            return page_layout\n\n", 'new': ''},
    {'name': 'naive sorter keeps one region per cluster', 'file': N, 'old': '            order.extend(sorted_idxs)', 'new': '            order.extend(sorted_idxs[:1] if len(regions) > 3 else sorted_idxs)'},
    {'name': 'smart sorter forgets to rotate back', 'file': S, 'old': '        page_layout = SmartRegionSorter.rotate_page_layout(page_layout, rotation)\n\n        return page_layout',
     'new': '        return page_layout'},
    {'name': 'smart sorter maps duplicate ids to the first region', 'file': S, 'old': 'if region.id == region_id)) for region_id in ordered_ids]',
     'new': 'if region.id[:2] == region_id[:2])) for region_id in ordered_ids]'},
]


class Timeout(Exception):
    pass


def _alarm(signum, frame):
    raise Timeout()


def boxes(grid=4):
    out = []
    for x0, x1 in itertools.combinations_with_replacement(range(grid + 1), 2):
        for y0, y1 in itertools.combinations_with_replacement(range(grid + 1), 2):
            if x1 - x0 > 2 and y1 - y0 > 2 and (x0, y0) != (0, 0):
                continue
            out.append((x0 * 50, y0 * 50, x1 * 50, y1 * 50))
    return out


def make_page(np, layout, bxs, slanted=False):
    pl = layout.PageLayout(id='p', page_size=(300, 300))
    # 'int': the clear slant with INTEGER coordinate arrays, which is what the PAGE XML reader produces
    dt = int if slanted == 'int' else float
    for k, (x0, y0, x1, y1) in enumerate(bxs):
        reg = layout.RegionLayout('r%02d' % k, np.array([[x0, y0], [x1, y0], [x1, y1], [x0, y1]], dtype=dt))
        reg.transcription = 't%d' % k
        nl = 1 + (k % 2)
        for j in range(nl):
            yb = y0 + 10 + 12 * j
            dy = {False: 0.0, True: 6.0, 'int': 6}.get(slanted, slanted)      # rise of the line over its width: none / clearly slanted / a fraction of a pixel
            reg.lines.append(layout.TextLine(id='r%02d-l%d' % (k, j), baseline=np.array([[x0 + 2, yb], [x1 - 2 if x1 > x0 + 4 else x0 + 30, yb + dy]], dtype=dt),
                                             polygon=np.array([[x0 + 2, yb - 8], [x1 - 2, yb - 8 + dy], [x1 - 2, yb + 3 + dy], [x0 + 2, yb + 3]], dtype=dt),
                                             heights=[8.0, 3.0], transcription='line %d %d' % (k, j), index=j))
        pl.regions.append(reg)
    return pl


def same_shape(np, geometry, a, b, tol=1e-6):
    a, b = np.asarray(a, dtype=float), np.asarray(b, dtype=float)
    if a.shape == b.shape and np.abs(a - b).max(initial=0) <= tol:
        return True
    if len(b) == len(a) + 1 and np.abs(b[:-1] - a).max(initial=0) <= tol and np.abs(b[-1] - b[0]).max() <= tol:
        return True       # the same ring written with its closing point
    try:
        pa, pb = geometry.Polygon(a), geometry.Polygon(b)
        if pa.area > 0 and pa.is_valid and pb.is_valid:
            return pa.symmetric_difference(pb).area <= 1e-4 * max(pa.area, 1.0)
    except Exception:
        pass
    return False


def check_page(np, layout, geometry, sorter_factory, name, bxs, slanted):
    bad = []
    pl = make_page(np, layout, bxs, slanted)
    before = list(pl.regions)
    snap = {id(r): (r.id, r.transcription, np.array(r.polygon, dtype=float).copy(), [(l.id, l.transcription, np.array(l.polygon).copy(), np.array(l.baseline).copy()) for l in r.lines], [id(l) for l in r.lines]) for r in before}
    image = np.zeros((300, 300, 3), dtype=np.uint8)
    signal.signal(signal.SIGALRM, _alarm)
    signal.setitimer(signal.ITIMER_REAL, 5.0)
    try:
        out = sorter_factory().process_page(image, pl)
    except Timeout:
        return [('terminates', '%s did not return within 5 s' % name)]
    except RecursionError:
        return [('terminates', '%s exceeded the recursion limit' % name)]
    except Exception as e:
        return [('no-exception', '%s raised %r' % (name, e))]
    finally:
        signal.setitimer(signal.ITIMER_REAL, 0)
    after = list(out.regions)
    if sorted(map(id, after)) != sorted(map(id, before)):
        bad.append(('permutation-of-regions', '%s returned regions %r for input %r' % (name, [r.id for r in after], [r.id for r in before])))
        return bad
    for r in after:
        rid, rtr, poly, lines, lids = snap[id(r)]
        if r.id != rid or r.transcription != rtr or [id(l) for l in r.lines] != lids:
            bad.append(('regions-intact', 'region %r: id / text / lines changed' % rid))
        if not same_shape(np, geometry, poly, r.polygon, 1e-6):
            bad.append(('geometry-unchanged', 'region %r polygon %r -> %r' % (rid, poly.tolist(), np.asarray(r.polygon).tolist())))
        for l, (lid, ltr, lpoly, lbase) in zip(r.lines, lines):
            if l.id != lid or l.transcription != ltr:
                bad.append(('regions-intact', 'line %r changed' % lid))
            if not same_shape(np, geometry, lpoly, l.polygon, 1e-6) or np.abs(np.asarray(l.baseline, dtype=float) - lbase).max() > 1e-6:
                bad.append(('geometry-unchanged', 'line %r geometry changed' % lid))
    return bad


def _chunk(items):
    core.setup_repo_path()
    import configparser
    import numpy as np
    from shapely import geometry
    from pero_ocr.core import layout
    from pero_ocr.layout_engines import naive_sorter, smart_sorter
    cfg = configparser.ConfigParser()
    out = {'evaluations': 0, 'nontrivial': 0, 'failures': [], 'samples': []}
    for bxs, slanted, ip in items:
        cfg.read_dict({'s': {'FakeIntersectionParameter': str(ip)}})
        for name, fac in (('NaiveRegionSorter', lambda: naive_sorter.NaiveRegionSorter(cfg['s'])), ('SmartRegionSorter', lambda: smart_sorter.SmartRegionSorter(cfg['s']))):
            out['evaluations'] += 1
            out['nontrivial'] += 1 if len(bxs) >= 2 else 0
            bad = check_page(np, layout, geometry, fac, name, bxs, slanted)
            for clause, detail in bad:
                out['failures'].append({'clause': clause, 'input': {'boxes': [list(b) for b in bxs], 'slanted_line': slanted, 'intersect_param': ip, 'sorter': name}, 'observed': detail})
        if len(out['samples']) < 2 and len(bxs) == 2:
            out['samples'].append({'boxes': [list(b) for b in bxs], 'slanted_line': slanted, 'intersect_param': ip})
    return out


def plans(thorough):
    bs = boxes()
    out = [((), False, 0.1)]
    for b in bs:
        out.append(((b,), False, 0.1))
    pairs = list(itertools.product(bs, repeat=2))
    for a, b in (pairs if thorough else pairs[::3]):
        out.append(((a, b), False, 0.1))
    for a, b in pairs[::(7 if thorough else 31)]:
        out.append(((a, b), True, 0.5))
    trip = list(itertools.combinations(bs[::2], 3))
    for t in trip[::(5 if thorough else 41)]:
        out.append((t, False, 0.1))
        out.append((t, True, 0.5))
    quad = list(itertools.combinations(bs[::3], 4))
    for q in quad[::(97 if thorough else 1501)]:
        out.append((q, False, 0.5))
    # hand-picked: identical boxes, nested, mutually overlapping in both axes (recursive fallback path), grid, columns
    hp = [((0, 0, 100, 100),) * 3, ((0, 0, 200, 200), (50, 50, 100, 100), (60, 60, 90, 90)), ((0, 0, 120, 120), (60, 60, 180, 180), (0, 100, 100, 200), (110, 0, 200, 70)),
          tuple((x, y, x + 40, y + 40) for x in (0, 50, 100) for y in (0, 50, 100)), ((0, 0, 40, 200), (50, 0, 90, 200), (100, 0, 140, 90), (100, 100, 140, 200))]
    def staircase(n, rev=False):
        # a tiling nested n levels deep: a strip across the top, then a strip down the left of what remains, and so on (every level
        # of the recursive row / column splitting peels off one region)
        x0, y0, x1, y1 = 0, 0, 290, 290
        out_ = []
        for i in range(n):
            if i % 2 == 0:
                h_ = int((y1 - y0) * 0.12)
                out_.append((x0, y0, x1, y0 + h_ - 2))
                y0 += h_
            else:
                w_ = int((x1 - x0) * 0.12)
                out_.append((x0, y0, x0 + w_ - 2, y1))
                x0 += w_
        out_.append((x0, y0, x1, y1))
        return tuple(reversed(out_)) if rev else tuple(out_)
    for st in (staircase(13), staircase(16, rev=True)):
        out.append((st, False, 0.1))
        out.append((st, False, 0.5))
    for h in hp:
        # no slant, a clear slant (6 px) and barely tilted lines (0.05 / 0.3 px over the line: a de-skew angle far below 0.1 degrees
        # and just below 1 degree) — the de-skew rotation and its inverse must cancel for every angle
        for sl in (False, True, 0.05, 0.3, 'int'):
            for ip in (0.1, 0.5):
                out.append((h, sl, ip))
    for a, b in pairs[::(11 if thorough else 53)]:
        out.append(((a, b), 0.05, 0.1))
        out.append(((a, b), 'int', 0.5))
    return out


def run(ctx):
    from pyvc import run as vrun
    thorough = ctx.tier == 'thorough'
    ctx.level = 'other'
    ctx.explanation = (
        'BOUNDED stand-in (termination is observed up to a 5 s budget per page, not proved): both sorters return exactly the input region '
        'objects, each once, with ids / text / lines intact and polygons unchanged as shapes (de-skew round-off 1e-6), on every page of a grid: '
        '0..2 boxes exhaustively (pairs strided in the quick tier), strided triples / quadruples, identical / nested / mutually overlapping / grid / '
        'column layouts, with and without a slanted line (non-zero de-skew), intersect_param in {0.1, 0.5}. PROVED (pyvc): '
        'NaiveRegionSorter.process_page calls the clustering only with at least one sample and rebuilds page.regions by indexing the old list with '
        'the returned order (assumed contract of sort_regions: a permutation of range(n), bounded evidence only).')
    core.setup_repo_path()
    try:
        from contracts import sorters
        reps = vrun.verify(sorters.KEYS, sorters.CONTRACTS, root=core.repo_root(), both=thorough)
        ctx.add_proof_reports(reps, clause='call-site precondition of the clustering; page.regions rebuilt from the returned order')
    except ImportError:
        ctx.notes.append('contracts/sorters.py not present: bounded only')
    items = bounded.order(plans(thorough), ctx.seed)
    res = bounded.pmap(_chunk, bounded.shard(items, 64))
    seen = set()
    fails = []
    for f in sorted(res['failures'], key=lambda f: (len(f['input']['boxes']), str(f['input']))):
        s = sig('rt', f['input']['sorter'], f['clause'])
        if s in seen:
            continue
        seen.add(s)
        fails.append(Failure(s, 'sorter contract %s fails: %s' % (f['clause'], f['observed']), function=f['input']['sorter'] + '.process_page',
                             input=f['input'], observed=f['observed'], clause=f['clause']))
    ctx.add_bounded('sorter-pages', 'pages of 0..4 axis-parallel boxes with corners on a 50 px grid (incl. zero-width / zero-height / identical), hand-picked overlapping layouts, slanted-line variant; both sorters',
                    res['evaluations'], res['nontrivial'], False, res['samples'], fails,
                    rule='every page of the stated (strided) grid x 2 sorters; non-trivial = at least two regions', clause='permutation of the region objects; regions intact; geometry unchanged as shapes; returns within 5 s')
    bounded.close()
    ctx.trusted += ['A6: sklearn DBSCAN, shapely, cv2', 'termination beyond the time budget / the grid is not decided']
    if thorough:
        selftest.run(ctx, MUTANTS)


def replay(entry):
    core.setup_repo_path()
    inp = entry.get('input') or {}
    if 'boxes' not in inp:
        print('replay: obligation %s has no concrete input; solver output:\n%s' % (entry.get('obligation'), entry.get('solver_output')))
        return 1
    r = _chunk([(tuple(tuple(b) for b in inp['boxes']), inp['slanted_line'], inp['intersect_param'])])
    for f in r['failures']:
        print('REPLAY-FAIL', f['clause'], f['observed'])
    print('replay: %d problem(s) on %r' % (len(r['failures']), inp))
    return 1 if r['failures'] else 0
