"""known_findings.json: committed, never written at run time.
entries: {"kind": "finding", "property": "Cxx", "signature": "<failure signature>", "what": "<what fails>"}
         {"kind": "fixed",   "property": "Cxx", "commit": "<sha>", "what": "<what failed>"}   (suppresses nothing)"""
import json
import os

PATH = os.path.join(os.path.dirname(os.path.dirname(os.path.abspath(__file__))), 'known_findings.json')


def load():
    if not os.path.exists(PATH):
        return []
    return json.load(open(PATH))


def match(entries, pid, signature):
    for e in entries:
        if e.get('kind') == 'finding' and e.get('property') == pid and e.get('signature') == signature:
            return e
    return None
