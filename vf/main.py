"""entry point:  python -m vf.main Cxx --tier quick|thorough [--replay FILE]"""
import argparse
import importlib
import json
import os
import sys
import traceback

from . import core


def main():
    ap = argparse.ArgumentParser()
    ap.add_argument('pid')
    ap.add_argument('--tier', default=os.environ.get('VERIF_TIER', 'quick'), choices=['quick', 'thorough'])
    ap.add_argument('--replay')
    a = ap.parse_args()
    seed = int(os.environ.get('VERIF_SEED', '0') or 0)
    core.setup_repo_path()
    try:
        mod = importlib.import_module('props.' + a.pid)
    except ModuleNotFoundError as e:
        print('no check for %s: %s' % (a.pid, e))
        return 3
    if a.replay:
        entry = json.load(open(a.replay))
        try:
            return mod.replay(entry)
        except Exception:
            traceback.print_exc()
            return 3
    ctx = core.Ctx(a.pid, a.tier, seed)
    try:
        mod.run(ctx)
    except Exception:
        traceback.print_exc()
        ctx.broken.append('check crashed: %s' % traceback.format_exc().splitlines()[-1])
    try:
        from . import bounded
        for msg in bounded.STALLS:
            ctx.undecided.append('bounded check incomplete: ' + msg)
    except Exception:
        pass
    try:
        from pyvc import solve
        solve.close_pool()
    except Exception:
        pass
    return ctx.finish()


if __name__ == '__main__':
    sys.exit(main())
