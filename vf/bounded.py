"""vf.bounded — helpers for the bounded stand-ins: exhaustive enumeration of a stated finite domain, sharded over
worker processes.  A bounded check is never counted as proved (DESIGN 2.8)."""
import multiprocessing as mp
import os
import random


def shard(items, n):
    items = list(items)
    k = max(1, (len(items) + n - 1) // n)
    return [items[i:i + k] for i in range(0, len(items), k)]


_POOL = None


def pool():
    global _POOL
    if _POOL is None:
        n = int(os.environ.get('VF_JOBS', str(min(16, os.cpu_count() or 4))))
        _POOL = mp.get_context('forkserver').Pool(n)  # clean workers: forking after cv2/torch/OpenMP threads exist in the parent can dead-lock
    return _POOL


def close():
    global _POOL
    if _POOL is not None:
        _POOL.terminate()
        _POOL = None


def pmap(fn, chunks):
    """fn(chunk) -> dict(evaluations, nontrivial, failures=[...], samples=[...]); merged result"""
    res = {'evaluations': 0, 'nontrivial': 0, 'failures': [], 'samples': []}
    if len(chunks) <= 1 or os.environ.get('VF_SERIAL'):
        outs = [fn(c) for c in chunks]
    else:
        outs = _map_with_watchdog(fn, chunks)
    for o in outs:
        res['evaluations'] += o.get('evaluations', 0)
        res['nontrivial'] += o.get('nontrivial', 0)
        res['failures'].extend(o.get('failures', []))
        if len(res['samples']) < 6:
            res['samples'].extend(o.get('samples', [])[:2])
    return res


STALLS = []          # read by vf.main: a bounded check that could not be completed makes the run UNDECIDED, never a pass


def _map_with_watchdog(fn, chunks):
    """pool.map that cannot hang: the code under test may loop for ever or kill its worker (a changed tree!).  When no shard
    has completed for VF_STALL_S seconds (default 900) the shards still outstanding are abandoned and recorded in STALLS."""
    import time
    stall_s = float(os.environ.get('VF_STALL_S', '900'))
    p = pool()
    pending = {i: p.apply_async(fn, (c,)) for i, c in enumerate(chunks)}
    outs, last = [], time.time()
    while pending:
        done = [i for i, ar in pending.items() if ar.ready()]
        if done:
            last = time.time()
            for i in done:
                outs.append(pending.pop(i).get())
        elif time.time() - last > stall_s:
            STALLS.append('%s: %d of %d shards gave no answer within %d s (non-terminating code under test or a dead worker)'
                          % (getattr(fn, '__name__', 'bounded check'), len(pending), len(chunks), stall_s))
            pending.clear()
            close()
        else:
            time.sleep(0.05)
    return outs


def order(items, seed):
    """VERIF_SEED only permutes enumeration order (the domain stays exhaustive)"""
    items = list(items)
    if seed:
        random.Random(seed).shuffle(items)
    return items
