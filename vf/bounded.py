"""vf.bounded — helpers for the bounded stand-ins: exhaustive enumeration of a stated finite domain, sharded over
worker processes.  A bounded check is never counted as proved (DESIGN 2.8)."""
import multiprocessing as mp
import os
import random


def shard(items, n):
    items = list(items)
    k = max(1, (len(items) + n - 1) // n)
    return [items[i:i + k] for i in range(0, len(items), k)]


_POOL = None


def pool():
    global _POOL
    if _POOL is None:
        n = int(os.environ.get('VF_JOBS', str(min(16, os.cpu_count() or 4))))
        _POOL = mp.get_context('forkserver').Pool(n)  # clean workers: forking after cv2/torch/OpenMP threads exist in the parent can dead-lock
    return _POOL


def close():
    global _POOL
    if _POOL is not None:
        _POOL.terminate()
        _POOL = None


def pmap(fn, chunks):
    """fn(chunk) -> dict(evaluations, nontrivial, failures=[...], samples=[...]); merged result"""
    res = {'evaluations': 0, 'nontrivial': 0, 'failures': [], 'samples': []}
    if len(chunks) <= 1 or os.environ.get('VF_SERIAL'):
        outs = [fn(c) for c in chunks]
    else:
        outs = pool().map(fn, chunks)
    for o in outs:
        res['evaluations'] += o.get('evaluations', 0)
        res['nontrivial'] += o.get('nontrivial', 0)
        res['failures'].extend(o.get('failures', []))
        if len(res['samples']) < 6:
            res['samples'].extend(o.get('samples', [])[:2])
    return res


def order(items, seed):
    """VERIF_SEED only permutes enumeration order (the domain stays exhaustive)"""
    items = list(items)
    if seed:
        random.Random(seed).shuffle(items)
    return items
