"""vf.core — glue between the property modules, the VC generator (pyvc), the bounded/runtime tier and the
interface required by MANIFEST.json (exit codes, VIOLATION / KNOWN-FINDING lines, evidence files, replay files)."""
import hashlib
import json
import os
import sys
import time
import traceback

VERIF = os.path.dirname(os.path.dirname(os.path.abspath(__file__)))
sys.path.insert(0, VERIF)

GLOBAL_ASSUMPTIONS = [
    "A1: Python int exact; numpy int32/int64 treated as mathematical integers (sizes and costs far below 2^31)",
    "A2: IEEE doubles treated as reals extended with +-inf; NaN excluded; 'equal' means equal in real arithmetic",
    "A3: numpy / builtins behave as the pyvc.lib model table says (differential-tested on small inputs by vf.conform, not proved)",
    "A4: numba.jit preserves Python semantics; single-threaded execution; no monkey-patching of the verified functions",
    "A6: external objects (lxml, pickle, scipy.sparse, shapely, sklearn, cv2, torch, OCR net, LM) satisfy the assumed contracts named in coverage.trusted_base",
    "VC generator pyvc (this repository, ~3k lines) is trusted; its soundness is defended by mutation self-tests and concrete conformance runs, not proved",
]


def repo_root():
    return os.environ.get('VERIF_REPO', '/repo')


def setup_repo_path():
    """make `import pero_ocr` resolve to the tree under check (working tree of /repo, or a scratch copy)"""
    root = repo_root()
    for p in (root, os.path.join(root, 'user_scripts')):
        if p not in sys.path:
            sys.path.insert(0, p)
    os.environ.setdefault('OMP_NUM_THREADS', '1')
    os.environ.setdefault('MKL_NUM_THREADS', '1')
    os.environ.setdefault('NUMBA_DISABLE_JIT', '0')


class Failure:
    """one violation candidate: a refuted obligation or a firing runtime contract"""

    def __init__(self, signature, what, obligation=None, function=None, input=None, observed=None, expected=None,
                 solver_output=None, has_input=True, clause=None):
        self.signature = signature      # stable identity used by known_findings.json
        self.what = what
        self.obligation = obligation
        self.function = function
        self.input = input
        self.observed = observed
        self.expected = expected
        self.solver_output = solver_output
        self.has_input = has_input
        self.clause = clause


class Ctx:
    def __init__(self, pid, tier, seed):
        self.pid, self.tier, self.seed = pid, tier, seed
        self.t0 = time.time()
        self.level = 'other'
        self.failures = []
        self.undecided = []          # strings
        self.broken = []             # checker problems (exit 3)
        self.functions = []          # functions under contract
        self.obligations = []        # dicts
        self.bounded = []            # dicts: name, domain, evaluations, distinct_nontrivial, exhaustive, samples
        self.assumptions = list(GLOBAL_ASSUMPTIONS)
        self.trusted = []
        self.havocked = []
        self.notes = []
        self.solver_time_ms = 0
        self.extra = {}
        self.explanation = ''
        self.checker_cmd = './check %s --tier %s' % (pid, tier)
        self.mutants = None

    # ------------------------------------------------------------------------------------------
    def add_proof_reports(self, reps, clause=None):
        """reps: list of pyvc.run.FnReport"""
        for r in reps:
            f = {'function': r.name, 'clause': clause}
            if r.info is not None:
                f.update({'file': r.info.path, 'lines': list(r.info.lines), 'source_sha256_16': r.info.sha,
                          'dropped_decorators': r.info.decorators})
            f['obligations'] = len(r.vcs)
            f['paths'] = r.paths
            f['generation_s'] = round(r.gen_s, 2)
            self.functions.append(f)
            self.trusted.extend(r.assumed)
            if r.unsupported:
                self.undecided.append('%s: outside the modelled subset: %s' % (r.name, r.unsupported))
            for why in getattr(r, 'vacuous', ()):
                self.broken.append('%s: vacuity guard: %s' % (r.name, why))
            if not r.vcs and not r.unsupported:
                self.broken.append('%s: zero obligations generated (vacuity guard)' % r.name)
            for vc in r.vcs:
                o = {'name': vc.name, 'function': r.name, 'kind': vc.kind, 'line': vc.line, 'result': vc.result,
                     'solver': vc.solver, 'ms': vc.ms, 'text': vc.note[:160]}
                if getattr(vc, 'ladder', None):
                    o['ground_instance'] = vc.ladder
                if getattr(vc, 'second', None):
                    o['second_solver'] = list(vc.second)
                self.obligations.append(o)
                self.solver_time_ms += vc.ms or 0
                if vc.result == 'sat':
                    self.failures.append(Failure(
                        signature='obligation:%s' % vc.name, what='obligation %s refuted: %s' % (vc.name, vc.note[:120]),
                        obligation=vc.name, function=r.name,
                        solver_output={'solver': vc.solver, 'result': 'sat', 'ground_instance': getattr(vc, 'ladder', None),
                                       'model': vc.model}, has_input=False, clause=clause))
                elif vc.result != 'unsat':
                    self.undecided.append('%s: %s (%s)' % (vc.name, vc.result, getattr(vc, 'reason', '')))

    def add_bounded(self, name, domain, evaluations, nontrivial, exhaustive, samples, failures=(), rule='', clause=None):
        self.bounded.append({'name': name, 'domain': domain, 'evaluations': evaluations,
                             'distinct_nontrivial': nontrivial, 'exhaustive': exhaustive, 'samples': samples[:5],
                             'rule': rule, 'clause': clause, 'failures': len(failures)})
        self.failures.extend(failures)

    # ------------------------------------------------------------------------------------------
    def finish(self):
        from . import findings
        kf = findings.load()
        wall = time.time() - self.t0
        viol = []
        known = []
        for f in self.failures:
            m = findings.match(kf, self.pid, f.signature)
            if m is not None:
                known.append((f, m))
            else:
                viol.append(f)
        # a refuted obligation without concrete input borrows the failing input that the bounded search of the same
        # contract found on the real code (replayed counterexample)
        with_input = [f for f in self.failures if f.has_input and f.input is not None]
        for f in self.failures:
            if not f.has_input and with_input:
                fn = (f.function or '').split('::')[-1].split('.')[-1]
                cand = [g for g in with_input if fn and fn in (g.function or '')] or with_input
                g = cand[0]
                f.input, f.observed, f.expected, f.has_input = g.input, g.observed, g.expected, True
                f.what += ' [concrete failing input found by the bounded search of the same contract]'
        # replay files
        lines = []
        seen_known = set()
        for f, m in known:
            if m['signature'] in seen_known:
                continue
            seen_known.add(m['signature'])
            lines.append('KNOWN-FINDING: property=%s %s' % (self.pid, m['what']))
        rdir = os.path.join(os.environ.get('VF_REPLAY_DIR') or os.path.join(VERIF, 'replays'), self.pid)
        seen_sig = set()
        for f in viol:
            if f.signature in seen_sig:
                continue
            seen_sig.add(f.signature)
            os.makedirs(rdir, exist_ok=True)
            fn = os.path.join(rdir, hashlib.sha256(f.signature.encode()).hexdigest()[:12] + '.json')
            with open(fn, 'w') as fh:
                json.dump({'property': self.pid, 'signature': f.signature, 'obligation': f.obligation,
                           'function': f.function, 'clause': f.clause, 'what': f.what, 'input': f.input,
                           'observed': f.observed, 'expected': f.expected, 'solver_output': f.solver_output,
                           'repo': repo_root(), 'tier': self.tier}, fh, indent=1, default=str)
            tail = '' if f.has_input else ' no-failing-input-found'
            lines.append('VIOLATION property=%s replay=%s%s' % (self.pid, fn, tail))
        self.write_evidence(wall, len(seen_sig), [m['signature'] for _, m in known])
        for l in lines:
            print(l)
        n_obl = len(self.obligations)
        n_dis = sum(1 for o in self.obligations if o['result'] == 'unsat')
        print('%s tier=%s: %d functions under contract, %d/%d obligations discharged, %d bounded checks (%d evaluations), '
              '%d violation(s), %d known finding(s), %d undecided, %.1fs'
              % (self.pid, self.tier, len(self.functions), n_dis, n_obl, len(self.bounded),
                 sum(b['evaluations'] for b in self.bounded), len(seen_sig), len(seen_known), len(self.undecided), wall))
        if self.broken:
            for b in self.broken:
                print('CHECKER-BROKEN: %s' % b)
            return 3
        if seen_sig:
            return 1
        if self.undecided:
            for u in self.undecided[:20]:
                print('UNDECIDED: %s' % u)
            return 2
        return 0

    def write_evidence(self, wall, nviol, known_sigs):
        n_obl = len(self.obligations)
        n_dis = sum(1 for o in self.obligations if o['result'] == 'unsat')
        evals = sum(b['evaluations'] for b in self.bounded)
        nontriv = sum(b['distinct_nontrivial'] for b in self.bounded)
        samples = []
        for o in self.obligations:
            if o['solver'] != 'simplifier':
                samples.append({'obligation': o['name'], 'text': o['text'], 'result': o['result'], 'solver': o['solver'], 'ms': o['ms']})
            if len(samples) >= 4:
                break
        for b in self.bounded:
            for s in b['samples'][:2]:
                samples.append({'bounded_check': b['name'], 'case': s})
        backends = {}
        for o in self.obligations:
            backends[o['solver']] = backends.get(o['solver'], 0) + 1
        cov = {
            'explanation': self.explanation,
            'functions_under_contract': self.functions,
            'obligations': n_obl,
            'discharged': n_dis,
            'obligations_by_backend': backends,
            'obligation_list': self.obligations if len(self.obligations) <= 400 else self.obligations[:400],
            'solver_time_s': round(self.solver_time_ms / 1000.0, 2),
            'checker_cmd': self.checker_cmd,
            'trusted_base': sorted(set(self.trusted)),
            'havocked': sorted(set(self.havocked)),
            'bounded': self.bounded,
            'evaluations': evals,
            'distinct_nontrivial': nontriv,
            'rule': '; '.join(sorted({b['rule'] for b in self.bounded if b['rule']})),
            'samples': samples or [{'note': 'no obligations or cases were generated'}],
            'exhaustive': bool(self.bounded) and all(b['exhaustive'] for b in self.bounded),
            'undecided': self.undecided[:50],
            'known_findings_matched': sorted(set(known_sigs)),
            'notes': self.notes,
        }
        if self.mutants is not None:
            cov['mutation_self_test'] = self.mutants
        cov.update(self.extra)
        ev = {'property_id': self.pid, 'tier': self.tier, 'seed': self.seed, 'level': self.level, 'coverage': cov,
              'assumptions': self.assumptions, 'wall_s': round(wall, 2), 'violations': nviol}
        evdir = os.environ.get('VF_EVIDENCE_DIR') or os.path.join(VERIF, 'evidence')
        os.makedirs(evdir, exist_ok=True)
        with open(os.path.join(evdir, self.pid + '.json'), 'w') as fh:
            json.dump(ev, fh, indent=1, default=str)


def sig(*parts):
    return ':'.join(str(p) for p in parts)
