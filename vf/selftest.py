"""vf.selftest — mutation self-test (thorough tier): property-breaking edits are applied to a scratch copy of the
repository (outside /repo and /verif, removed afterwards) and the same check is run against it with VERIF_REPO;
every mutant must be rejected (exit 1) and the unmutated scratch copy accepted (exit 0)."""
import json
import os
import shutil
import subprocess
import tempfile

from . import core


def scratch_copy():
    d = tempfile.mkdtemp(prefix='vf_mut.', dir='/var/tmp')
    root = core.repo_root()
    for name in ('pero_ocr', 'user_scripts'):
        shutil.copytree(os.path.join(root, name), os.path.join(d, name),
                        ignore=shutil.ignore_patterns('__pycache__', '*.pyc'))
    return d


LAST_SIGNATURES = []


def run_check(pid, root, tier='quick', jobs=8, timeout=1800):
    ev = tempfile.mkdtemp(prefix='vf_ev.', dir='/var/tmp')
    env = dict(os.environ, VERIF_REPO=root, VF_EVIDENCE_DIR=ev, VF_REPLAY_DIR=ev, PYVC_JOBS=str(jobs), VF_JOBS=str(jobs),
               VF_NO_SELFTEST='1')
    try:
        p = subprocess.run([os.path.join(core.VERIF, 'check'), pid, '--tier', tier], env=env, capture_output=True,
                           text=True, timeout=timeout)
        lines = [l for l in p.stdout.splitlines() if l.startswith(('VIOLATION', 'KNOWN-FINDING', 'UNDECIDED', 'CHECKER'))]
        sigs = []
        rd = os.path.join(ev, pid)
        if os.path.isdir(rd):
            for fn in sorted(os.listdir(rd)):
                try:
                    sigs.append(json.load(open(os.path.join(rd, fn))).get('signature'))
                except Exception:
                    pass
        LAST_SIGNATURES[:] = sigs
        return p.returncode, lines[:6]
    except subprocess.TimeoutExpired:
        return 124, ['timeout']
    finally:
        shutil.rmtree(ev, ignore_errors=True)


def apply_mutant(root, m):
    """m: dict(file, old, new) textual substitution, or dict(patch=path) unified diff"""
    if 'patch' in m:
        p = subprocess.run(['patch', '-p1', '-s', '-i', m['patch']], cwd=root, capture_output=True, text=True)
        if p.returncode != 0:
            raise RuntimeError('patch does not apply: %s' % (p.stdout + p.stderr)[:200])
        return
    path = os.path.join(root, m['file'])
    src = open(path, encoding='utf8').read()
    if src.count(m['old']) != 1:
        raise RuntimeError('mutant anchor occurs %d times in %s' % (src.count(m['old']), m['file']))
    open(path, 'w', encoding='utf8').write(src.replace(m['old'], m['new']))


def seeded_mutants(pid):
    out = []
    sd = os.path.join(core.VERIF, 'seeded')
    if os.path.isdir(sd):
        for name in sorted(os.listdir(sd)):
            meta = os.path.join(sd, name, 'meta.json')
            if os.path.exists(meta) and json.load(open(meta)).get('property') == pid:
                out.append({'patch': os.path.join(sd, name, 'patch.diff'), 'name': 'seeded/' + name})
    return out


def run(ctx, mutants, tier='quick'):
    if os.environ.get('VF_NO_SELFTEST'):
        return
    res = {'total': 0, 'killed': 0, 'details': []}
    base = scratch_copy()
    try:
        rc, lines = run_check(ctx.pid, base, tier)
        res['unmutated_copy_exit'] = rc
        if rc != 0:
            ctx.broken.append('self-test: unmutated scratch copy is not accepted (exit %d) %s' % (rc, lines[:2]))
    finally:
        shutil.rmtree(base, ignore_errors=True)
    def one(m):
        d = scratch_copy()
        try:
            try:
                apply_mutant(d, m)
            except RuntimeError as e:
                return {'mutant': m.get('name'), 'status': 'not-applicable: %s' % e}
            rc, lines = run_check(ctx.pid, d, tier, jobs=6, timeout=1200)
            return {'mutant': m.get('name'), 'exit': rc, 'killed': rc == 1, 'lines': lines[:3]}
        finally:
            shutil.rmtree(d, ignore_errors=True)
    # three mutants at a time (each check run uses 6 worker processes)
    from concurrent.futures import ThreadPoolExecutor
    with ThreadPoolExecutor(max_workers=3) as tp:
        for det in tp.map(one, list(mutants) + seeded_mutants(ctx.pid)):
            res['details'].append(det)
            if 'exit' in det:
                res['total'] += 1
                res['killed'] += int(det['killed'])
    ctx.mutants = res
    if res['total'] and res['killed'] < res['total']:
        ctx.notes.append('mutation self-test: %d of %d mutants not rejected (see coverage.mutation_self_test)'
                         % (res['total'] - res['killed'], res['total']))
