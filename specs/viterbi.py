"""Executable specification for forced alignment (C05): the minimum over ALL frame labelings that collapse to the labels
(explicit enumeration — the property's own words), and the min-plus DP V(t, s) used by the proof obligations."""
import itertools
from specs.ctc import collapse

INF = float('inf')


def brute_min(costs, labels, blank):
    """(min cost, set of optimal labelings) over all labelings of the T frames with C symbols that collapse to labels"""
    T = len(costs)
    C = len(costs[0]) if T else 0
    best = INF
    for path in itertools.product(range(C), repeat=T):
        if collapse(path, blank) == list(labels):
            c = sum(costs[t][s] for t, s in enumerate(path))
            if c < best:
                best = c
    return best


def states(labels, blank):
    ext = [blank]
    for s in labels:
        ext += [s, blank]
    return ext


def viterbi_value(costs, labels, blank):
    """min-plus DP over the 2L+1 CTC states: start in {0,1}, end in {S-2,S-1}, skip only between different labels"""
    ext = states(labels, blank)
    S = len(ext)
    T = len(costs)
    if T == 0:
        return INF
    V = [INF] * S
    V[0] = costs[0][ext[0]]
    if S > 1:
        V[1] = costs[0][ext[1]]
    for t in range(1, T):
        new = [INF] * S
        for s in range(S):
            m = V[s]
            if s >= 1:
                m = min(m, V[s - 1])
            if s >= 2 and s % 2 == 1 and ext[s] != ext[s - 2]:
                m = min(m, V[s - 2])
            new[s] = m + costs[t][ext[s]]
        V = new
    return min(V[S - 1], V[S - 2]) if S > 1 else V[0]
