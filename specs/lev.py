"""Executable specification functions for C13 (pure Python, no numpy).

`lev` is the textbook Wagner-Fischer recurrence (the same LEV(i, j) that the proof obligations use);
`lev_bruteforce` is the *definition* in the property's words: the minimum total cost over all edit scripts,
computed by exhaustive recursion without memoisation or any DP shortcut.  `validate()` compares the two on
an exhaustive small domain; that comparison is bounded evidence that LEV means "minimum edit cost".
"""
import itertools


def lev(src, tgt, sub=1, ins=1, dele=1):
    n, m = len(src), len(tgt)
    row = [j * ins for j in range(m + 1)]
    for i in range(1, n + 1):
        new = [i * dele] + [0] * m
        for j in range(1, m + 1):
            new[j] = min(row[j] + dele, new[j - 1] + ins, row[j - 1] + (0 if src[i - 1] == tgt[j - 1] else sub))
        row = new
    return row[m]


def lev_bruteforce(src, tgt, sub=1, ins=1, dele=1):
    """min over all edit scripts (delete a source symbol / insert a target symbol / match-or-substitute)"""
    if not src:
        return len(tgt) * ins
    if not tgt:
        return len(src) * dele
    return min(lev_bruteforce(src[1:], tgt, sub, ins, dele) + dele,
               lev_bruteforce(src, tgt[1:], sub, ins, dele) + ins,
               lev_bruteforce(src[1:], tgt[1:], sub, ins, dele) + (0 if src[0] == tgt[0] else sub))


def substring_distance(a, b, sub=1, ins=1, dele=1):
    """min over all substrings w of the longer sequence of lev(w, shorter)   (property: unit costs)"""
    longer, shorter = (a, b) if len(a) >= len(b) else (b, a)
    best = None
    for i in range(len(longer) + 1):
        for j in range(i, len(longer) + 1):
            d = lev(longer[i:j], shorter, sub, ins, dele)
            if best is None or d < best:
                best = d
    return best


def projections(alig, empty=None):
    return [a for a, b in alig if a is not empty and a != empty], [b for a, b in alig if b is not empty and b != empty]


def proj_src(alig, empty=None):
    return [a for a, b in alig if not _is_empty(a, empty)]


def proj_tgt(alig, empty=None):
    return [b for a, b in alig if not _is_empty(b, empty)]


def _is_empty(x, empty):
    return x is empty if empty is None else x == empty


def alignment_cost(alig, sub=1, ins=1, dele=1, empty=None):
    c = 0
    for a, b in alig:
        ea, eb = _is_empty(a, empty), _is_empty(b, empty)
        if ea and eb:
            return None            # a pair that aligns nothing to nothing is not an edit operation
        if ea:
            c += ins
        elif eb:
            c += dele
        elif a != b:
            c += sub
    return c


def path_walk(path, src, tgt, sub=1, ins=1, dele=1):
    """follow a path of moves (1 = consume source, -1 = consume target, 0 = both) from (0,0);
    returns (i, j, cost) or None if it leaves the grid"""
    i = j = c = 0
    for w in path:
        if w > 0:
            if i >= len(src):
                return None
            i += 1
            c += dele
        elif w < 0:
            if j >= len(tgt):
                return None
            j += 1
            c += ins
        else:
            if i >= len(src) or j >= len(tgt):
                return None
            c += 0 if src[i] == tgt[j] else sub
            i += 1
            j += 1
    return i, j, c


def strip_free(alig, longer_is_first, empty=None):
    """remove the maximal leading and trailing runs of pairs that only consume the longer sequence"""
    def free(p):
        return _is_empty(p[1], empty) if longer_is_first else _is_empty(p[0], empty)
    k = 0
    while k < len(alig) and free(alig[k]):
        k += 1
    e = len(alig)
    while e > k and free(alig[e - 1]):
        e -= 1
    return alig[k:e]


def validate(max_len=4, alphabet=(0, 1, 2), costs=((1, 1, 1), (1, 2, 3), (3, 1, 2))):
    """lev == lev_bruteforce on every pair of sequences up to max_len; returns (cases, mismatches)"""
    n = 0
    bad = []
    seqs = [list(s) for k in range(max_len + 1) for s in itertools.product(alphabet, repeat=k)]
    for a in seqs:
        for b in seqs:
            if len(a) + len(b) > max_len + 2:
                continue
            for c in costs:
                n += 1
                if lev(a, b, *c) != lev_bruteforce(a, b, *c):
                    bad.append((a, b, c))
    return n, bad
