"""Executable specification for confusion networks (C14)."""
import itertools


def readable(cn):
    """set of strings (tuples of symbols) obtained by choosing one arc per position (None = skip)"""
    out = {()}
    for pos in cn:
        nxt = set()
        for pre in out:
            for sym in pos:
                nxt.add(pre if sym is None else pre + (sym,))
        out = nxt
    return out


def embeddings(n_old, n_new):
    """order-preserving injections of old positions into new positions"""
    return itertools.combinations(range(n_new), n_old)


def check_add(old, new, w, s, tol=1e-9):
    """contract of add_hypothese(old, w, s) -> new.  returns list of violated clauses"""
    bad = []
    ro, rn = readable(old), readable(new)
    if not ro <= rn and old:
        bad.append(('readable-before-kept', 'lost %r' % (sorted(ro - rn)[:3],)))
    if tuple(w) not in rn:
        bad.append(('new-hypothesis-readable-in-order', '%r not readable from %r' % (w, new)))
    if old:
        W = sum(sum(p.values()) for p in old) / len(old)
        ok = False
        for emb in embeddings(len(old), len(new)):
            good = True
            for oi, ni in enumerate(emb):
                o, n = old[oi], new[ni]
                diffs = []
                for k in set(o) | set(n):
                    d = n.get(k, 0) - o.get(k, 0)
                    if k not in n or abs(d) > tol:
                        diffs.append((k, d))
                if not (len(diffs) == 1 and abs(diffs[0][1] - s) < tol and diffs[0][0] in n):
                    good = False
                    break
            if not good:
                continue
            for ni in range(len(new)):
                if ni in emb:
                    continue
                n = new[ni]
                syms = [k for k in n if k is not None]
                if not (None in n and len(n) == 2 and abs(n[None] - W) < tol and abs(n[syms[0]] - s) < tol):
                    good = False
                    break
            if good:
                ok = True
                break
        if not ok:
            bad.append(('no-weight-lost', 'no order-preserving embedding of %r into %r where every old position gains exactly %r on one arc '
                        'and every new position is {None: %r, sym: %r}' % (old, new, s, W, s)))
    else:
        if [dict(p) for p in new] != [{c: s} for c in w]:
            bad.append(('single-hypothesis-network', 'network of the first hypothesis %r is %r' % (w, new)))
    return bad
