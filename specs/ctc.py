"""Executable specification functions for the CTC decoders (C02, C03, C04) — pure Python + math, no numpy.

ctc_logprob        log-sum over all frame alignments that collapse to a transcript (alpha recursion)
ctc_bruteforce     the same by explicit enumeration of all C^T alignments (the definition; validates the recursion)
collapse           CTC collapse: merge adjacent repeats, then drop blanks
ref_beam_search    frame-synchronous prefix beam search keeping the k best prefixes after every frame
ToyLM              history-dependent toy language model whose state is the whole prefix
"""
import itertools
import math
import zlib


def _h(*parts):
    return zlib.crc32(repr(parts).encode())

NEG_INF = float('-inf')


def lse(*xs):
    m = max(xs)
    if m == NEG_INF:
        return NEG_INF
    return m + math.log(sum(math.exp(x - m) for x in xs))


def collapse(path, blank):
    out = []
    prev = None
    for s in path:
        if s != prev and s != blank:
            out.append(s)
        prev = s
    return out


def ctc_bruteforce(logits, w, blank):
    T = len(logits)
    C = len(logits[0]) if T else 0
    tot = NEG_INF
    for path in itertools.product(range(C), repeat=T):
        if collapse(path, blank) == list(w):
            tot = lse(tot, sum(logits[t][s] for t, s in enumerate(path)))
    return tot


def ctc_logprob(logits, w, blank):
    """standard CTC forward recursion over the extended label sequence (blank, w0, blank, w1, ..., blank)"""
    T = len(logits)
    ext = [blank]
    for s in w:
        ext += [s, blank]
    S = len(ext)
    if T == 0:
        return 0.0 if not w else NEG_INF
    alpha = [NEG_INF] * S
    alpha[0] = logits[0][blank]
    if S > 1:
        alpha[1] = logits[0][ext[1]]
    for t in range(1, T):
        new = [NEG_INF] * S
        for s in range(S):
            a = alpha[s]
            if s >= 1:
                a = lse(a, alpha[s - 1])
            if s >= 2 and ext[s] != blank and ext[s] != ext[s - 2]:
                a = lse(a, alpha[s - 2])
            new[s] = a + logits[t][ext[s]] if a != NEG_INF else NEG_INF
        alpha = new
    return lse(alpha[S - 1], alpha[S - 2]) if S > 1 else alpha[0]


def ctc_prefix_rec(logits, w, blank):
    """CTC(w) by the prefix-probability recurrences CTCB / CTCNB stated in contracts/decoders.py (ctc_theory), transcribed
    literally: B(t,w) = (B(t-1,w) (+) NB(t-1,w)) + x_t[blank];  NB(t,w) = (NB(t-1,w) + x_t[c]) (+) EXT(t-1, parent(w), c) with
    EXT(t,v,c) = (B(t,v) + x[c]) (+) (NB(t,v) + x[c] unless v ends in c);  B(0,[]) = 0, everything else at t=0 is -inf."""
    memo = {}

    def B(t, w):
        k = ('b', t, w)
        if k not in memo:
            if t == 0:
                memo[k] = 0.0 if not w else NEG_INF
            else:
                memo[k] = lse(B(t - 1, w), NB(t - 1, w)) + logits[t - 1][blank]
        return memo[k]

    def ext(t, w, c):
        xc = logits[t][c]
        return lse(B(t, w) + xc, NB(t, w) + xc if (not w or w[-1] != c) else NEG_INF)

    def NB(t, w):
        k = ('n', t, w)
        if k not in memo:
            if t == 0 or not w:
                memo[k] = NEG_INF
            else:
                c = w[-1]
                memo[k] = lse(NB(t - 1, w) + logits[t - 1][c], ext(t - 1, w[:-1], c))
        return memo[k]
    T = len(logits)
    w = tuple(w)
    return lse(B(T, w), NB(T, w))


def all_transcripts(T, nletters):
    out = [()]
    for k in range(1, T + 1):
        out += list(itertools.product(range(nletters), repeat=k))
    return out


class ToyLM:
    """deterministic history-dependent LM: the state *is* the prefix (tuple of symbol indices, after an optional start
    context); per-symbol log-probabilities are a pseudo-random function of the whole prefix, so that any
    route-dependence of the bookkeeping shows.  Same interface as LMWrapper as far as the decoder uses it; hidden
    states are numpy arrays of integer state ids (fancy-indexable, item-assignable)."""

    def __init__(self, nletters, salt=1):
        import numpy as np
        self.np = np
        self.n = nletters
        self.salt = salt
        self.ids = {}
        self.prefixes = []
        self.advances = 0

    def _id(self, prefix):
        if prefix not in self.ids:
            self.ids[prefix] = len(self.prefixes)
            self.prefixes.append(prefix)
        return self.ids[prefix]

    def lp(self, prefix):
        """log-probs over the letters (not normalised on purpose: the decoder must only add them up)"""
        out = []
        for c in range(self.n):
            h = _h(self.salt, prefix, c) % 1000003
            out.append(-0.25 - 2.5 * ((h % 997) / 997.0))
        return out

    def eos(self, prefix):
        h = _h(self.salt, prefix, 'eos') % 1000003
        return -0.5 - 1.5 * ((h % 991) / 991.0)

    # --- interface used by the decoder -----------------------------------------------------------
    def initial_h(self, batch_size):
        return self.np.asarray([self._id(('<s>',))] * batch_size)

    def state_of(self, prefix, start=('<s>',)):
        return self._id(tuple(start) + tuple(prefix))

    def log_probs(self, h):
        return self.np.asarray([self.lp(self.prefixes[int(i)]) for i in h])

    def eos_scores(self, h):
        return self.np.asarray([self.eos(self.prefixes[int(i)]) for i in h])

    def advance_h0(self, x, h0):
        self.advances += len(x)
        return self.np.asarray([self._id(self.prefixes[int(i)] + (int(c),)) for c, i in zip(x, h0)])

    # --- reference values ------------------------------------------------------------------------
    def score(self, w, bonus=0.0, eos=False, start=('<s>',)):
        p = tuple(start)
        tot = 0.0
        for c in w:
            tot += self.lp(p)[c] + bonus
            p = p + (c,)
        if eos:
            tot += self.eos(p)
        return tot


def ref_beam_search(logits, k, blank, selector=None, lm=None, lm_scale=1.0, bonus=0.0, start=('<s>',)):
    """frame-synchronous prefix beam search.  beam: dict prefix(tuple) -> [pb, pnb, lm].  After every frame the k
    best candidates by (pb (+) pnb) + lm_scale * lm with finite score are kept.
    selector(row_without_blank) -> list of symbol indices that may extend a prefix in this frame (pre-selection);
    returns (beam, ambiguous) where ambiguous tells that a tie at the k-th place made the choice arbitrary."""
    beam = {(): [0.0, NEG_INF, 0.0]}
    ambiguous = False
    for row in logits:
        sel = list(range(len(row) - 1)) if selector is None else list(selector(row[:-1]))
        cand = {}
        pblank = row[blank]
        if not sel:
            for p, (pb, pnb, l) in beam.items():
                beam[p] = [lse(pb, pnb) + pblank, NEG_INF, l]
            continue
        for p, (pb, pnb, l) in beam.items():
            last = p[-1] if p else None
            stay_nb = pnb + row[last] if (last is not None and last in sel) else NEG_INF
            c = cand.setdefault(p, [NEG_INF, NEG_INF, l])
            c[0] = lse(c[0], lse(pb, pnb) + pblank)
            c[1] = lse(c[1], stay_nb)
            for s in sel:
                ext = pb + row[s]
                if s != last:
                    ext = lse(ext, pnb + row[s])
                q = p + (s,)
                if q in beam:
                    lq = beam[q][2]
                elif lm is not None:
                    lq = l + lm.lp(tuple(start) + p)[s] + bonus
                else:
                    lq = 0.0
                c2 = cand.setdefault(q, [NEG_INF, NEG_INF, lq])
                c2[1] = lse(c2[1], ext)
        scored = []
        for p, (pb, pnb, l) in cand.items():
            v = lse(pb, pnb)
            if v == NEG_INF:
                continue
            tot = v + (lm_scale * l if lm is not None else 0.0)
            scored.append((tot, p))
        scored.sort(key=lambda x: -x[0])
        if len(scored) > k:
            if abs(scored[k - 1][0] - scored[k][0]) < 1e-9:
                ambiguous = True
            scored = scored[:k]
        beam = {p: cand[p] for _, p in scored}
    return beam, ambiguous


def validate(max_T=3):
    """ctc_logprob == ctc_bruteforce on all quarter-probability matrices over 3 classes, T <= max_T (T<=2 exhaustive,
    T=3 on a systematic subset); returns (cases, mismatches)"""
    rows = quarter_rows(3)
    n = 0
    bad = []
    for T in range(1, max_T + 1):
        mats = list(itertools.product(range(len(rows)), repeat=T))
        if T >= 3:
            mats = mats[::7]
        for m in mats:
            lg = [rows[i] for i in m]
            for w in all_transcripts(T, 2):
                n += 1
                a, b = ctc_logprob(lg, w, 2), ctc_bruteforce(lg, w, 2)
                if not (a == b or abs(a - b) < 1e-9):
                    bad.append((m, w, a, b))
                c = ctc_prefix_rec(lg, w, 2)          # the recurrences used as the specification of the decoder proof
                if not (c == b or abs(c - b) < 1e-9):
                    bad.append((m, w, c, b, 'prefix recurrences'))
    return n, bad


def quarter_rows(C, zero=NEG_INF, denom=4):
    rows = []
    for combo in itertools.product(range(denom + 1), repeat=C):
        if sum(combo) == denom:
            rows.append([math.log(x / denom) if x else zero for x in combo])
    return rows
