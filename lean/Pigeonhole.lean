/-
Pigeon-hole consequence used in the assumed part of the contract of `multisort.top_k` (contracts/decoders.py):

  if the k returned cells are pairwise different (a Finset S of cardinality k), every cell that is not returned is at most every
  returned cell, and at least k cells carry a value other than -∞ (⊥), then no returned cell carries -∞.

The three hypotheses are proved for the real `top_k` by the VC generator (obligations post#0..post#3 of multisort.py::top_k);
this file closes the counting step, which an SMT solver cannot do.  The "number of finite cells" of the contract is a lower
bound of the number of cells different from -∞, which is all that `hk` needs (`P c` = "cell c is finite").
-/
import Mathlib

theorem topk_no_bot {ι : Type*} [Fintype ι] [DecidableEq ι] (a : ι → WithBot ℝ) (S : Finset ι)
    (P : ι → Prop) [DecidablePred P] (hP : ∀ c, P c → a c ≠ ⊥)
    (hdom : ∀ c, c ∉ S → ∀ s ∈ S, a c ≤ a s)
    (hk : S.card ≤ (Finset.univ.filter P).card) :
    ∀ s ∈ S, a s ≠ ⊥ := by
  intro s hs hbot
  have h1 : ∀ c, a c ≠ ⊥ → c ∈ S := by
    intro c hc
    by_contra hcS
    have h := hdom c hcS s hs
    rw [hbot] at h
    exact hc (le_bot_iff.mp h)
  have h2 : Finset.univ.filter P ⊆ S.erase s := by
    intro c hc
    rw [Finset.mem_filter] at hc
    rw [Finset.mem_erase]
    refine ⟨?_, h1 c (hP c hc.2)⟩
    intro hcs
    exact hP c hc.2 (hcs ▸ hbot)
  have h3 := Finset.card_le_card h2
  rw [Finset.card_erase_of_mem hs] at h3
  have hpos : 0 < S.card := Finset.card_pos.mpr ⟨s, hs⟩
  omega
