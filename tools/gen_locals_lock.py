#!/usr/bin/env python3
"""Writes contracts/locals.lock.json: for every function under contract, its function-scope locals in order of first binding,
as they are in the tree the contracts were written against (see pyvc/extract.py, realign_locals).  Re-run after a contract has
been re-anchored to changed code."""
import importlib, json, os, sys
V = os.path.dirname(os.path.dirname(os.path.abspath(__file__)))
sys.path.insert(0, V)
os.environ['PYVC_NO_REALIGN'] = '1'
from pyvc import extract
out = {}
for fn in sorted(os.listdir(os.path.join(V, 'contracts'))):
    if not fn.endswith('.py') or fn.startswith('_'):
        continue
    mod = importlib.import_module('contracts.' + fn[:-3])
    for regname in ('CONTRACTS', 'REGISTRY', 'LOCK_EXTRA'):
        reg = getattr(mod, regname, None)
        if isinstance(reg, (list, tuple)):
            reg = {k: None for k in reg}         # functions executed in slice mode
        if not isinstance(reg, dict):
            continue
        for key in reg:
            path, qual = key[0], key[1]
            try:
                info = extract.get_function(path, qual)
            except Exception as e:
                print('skip', key, e)
                continue
            out['%s::%s' % (path, qual)] = {'locals': extract.ordered_locals(info.node), 'loops': extract.loop_shape(info.node)}
json.dump(out, open(os.path.join(V, 'contracts', 'locals.lock.json'), 'w'), indent=0, sort_keys=True)
print(len(out), 'functions')
