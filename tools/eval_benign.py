#!/usr/bin/env python3
"""Runs the quick check of the owning property against every stored behaviour-preserving change (scratch copy, VERIF_REPO)
and records the outcome in benign/<name>/meta.json and benign/RESULTS.md.  Expected: exit 0 (exit 2 = the proof could not be
re-established on the rewritten code and the check says so; exit 1 would be a false alarm)."""
import json, os, shutil, sys
V = os.path.dirname(os.path.dirname(os.path.abspath(__file__)))
sys.path.insert(0, V)
from vf import selftest
only = sys.argv[1:]
rows = []
for name in sorted(os.listdir(os.path.join(V, 'benign'))):
    mp = os.path.join(V, 'benign', name, 'meta.json')
    if not os.path.exists(mp):
        continue
    meta = json.load(open(mp))
    if not only or name in only:
        pid = meta['property']
        d = selftest.scratch_copy()
        try:
            selftest.apply_mutant(d, {'patch': os.path.join(V, 'benign', name, 'patch.diff')})
            rc, lines = selftest.run_check(pid, d)
        except Exception as e:
            rc, lines = -1, [str(e)]
        finally:
            shutil.rmtree(d, ignore_errors=True)
        meta['check_outcome'] = {'check': './check %s --tier quick' % pid, 'exit': rc, 'lines': lines[:4]}
        json.dump(meta, open(mp, 'w'), indent=1, ensure_ascii=False)
        print(name, pid, rc, lines[:3], flush=True)
    oc = meta.get('check_outcome') or {}
    s = meta.get('summary')
    if isinstance(s, list):
        s = '; '.join(str(x) for x in s)
    rows.append((name, meta['property'], {0: 'exit 0 (accepted)', 1: 'exit 1 (FALSE ALARM)', 2: 'exit 2 (undecided: contract needs re-anchoring)'}.get(oc.get('exit'), 'exit %s' % oc.get('exit')),
                 '; '.join(oc.get('lines') or [])[:200].replace('|', '/'), (s or '')[:160].replace('|', '/')))
with open(os.path.join(V, 'benign', 'RESULTS.md'), 'w') as f:
    f.write('| behaviour-preserving change | property | quick check | reported | edits |\n|---|---|---|---|---|\n')
    for r in rows:
        f.write('| %s | %s | %s | %s | %s |\n' % r)
