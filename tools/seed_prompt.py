#!/usr/bin/env python3
"""Prints the prompt given to a fresh sub-agent that seeds a property-breaking change.
Usage: seed_prompt.py Cxx <worktree> [variant-hint]"""
import json, sys
pid, wt = sys.argv[1], sys.argv[2]
hint = sys.argv[3] if len(sys.argv) > 3 else ""
rec = None
for l in open('/verif/properties.jsonl'):
    r = json.loads(l)
    if r['id'] == pid:
        rec = r
print(f"""You are helping to evaluate how well a verification effort detects regressions in the Python OCR library DCGM/pero-ocr.

You have your own scratch git worktree of the repository at {wt} (a checkout of the current code). Work ONLY inside {wt}; do not touch /repo, /verif or any other directory, and do not read anything under /verif. There is no network.

Here is one semantic property of the library (JSON record):

{json.dumps(rec, indent=1, ensure_ascii=False)}

Task: make ONE realistic change to the library source code in {wt} (files under pero_ocr/ or user_scripts/, not the tests) that BREAKS this property, while
 - the code still imports/compiles, and
 - the repository's existing test suite still passes exactly as before (run it with:
   cd {wt} && PYTHONPATH={wt} /venv/bin/python -m pytest -q -p no:cacheprovider --timeout=900 test
   On the unchanged code 217 tests pass and 4 tests in test/test_decoding/test_multisort.py fail; that must stay exactly so. Check that `PYTHONPATH={wt} /venv/bin/python -c "import pero_ocr; print(pero_ocr.__file__)"` prints a path inside {wt}.)

The change should look like a plausible maintainer edit (refactor, optimisation, "simplification", off-by-one, dropped reset, wrong index/axis/key, changed default, reordered statements, boundary condition...), NOT something ordinary use would expose at once. It should need something specific to manifest: an unusual input, a particular multi-step sequence of operations or history, a particular crash/fault point, or two cooperating sites that each look fine alone. Small diffs (1-15 lines) are best. {hint}

Also write a demonstration: a small stand-alone Python program {wt}/demo_{pid}.py (run as `cd {wt} && PYTHONPATH={wt} /venv/bin/python demo_{pid}.py`) that exits 0 and prints PASS on the ORIGINAL code and exits 1 and prints FAIL (with what went wrong) on your CHANGED code. The demonstration must exercise the real library functions and state the expectation that follows from the property statement. To test both ways use `git -C {wt} diff -- pero_ocr user_scripts > {wt}/patch.diff; git -C {wt} apply -R {wt}/patch.diff; ...; git -C {wt} apply {wt}/patch.diff`. NEVER use `git stash` (the stash is shared with other worktrees of the same repository and other people use it concurrently). Heavy dependencies (numpy, torch, scipy, lxml, shapely, cv2, sklearn) are importable with /venv/bin/python; no trained models exist, so use stub networks/stub objects where the property needs an engine.

Deliverables, all inside {wt}:
 1. the change left applied in the working tree (do not commit), and `git -C {wt} diff -- pero_ocr user_scripts > {wt}/patch.diff` written,
 2. demo_{pid}.py,
 3. notes.json with keys: "property" ("{pid}"), "summary" (what was changed, 1-3 sentences), "needs" (what specific input/sequence/history/fault is needed for the breakage to manifest), "tests" (the pytest summary line you observed with the change applied), "demo_original" and "demo_changed" (exit code + last line of the demo on original and changed code).

Finish with a short report: the diff, and the observed results of the test-suite and of the demo on both versions. Do not make more than one change set; if your first idea is caught by the existing tests, revise it until the tests pass.""")
