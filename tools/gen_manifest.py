#!/usr/bin/env python3
"""Regenerates MANIFEST.json from tools/manifest_data.py (claimed checks) — every property that is not claimed is
listed under not_applicable with its reason."""
import json, os, sys
sys.path.insert(0, os.path.dirname(os.path.abspath(__file__)))
import manifest_data as D
V = os.path.dirname(os.path.dirname(os.path.abspath(__file__)))
ids = [json.loads(l)['id'] for l in open(os.path.join(V, 'properties.jsonl'))]
checks = []
for pid in ids:
    c = D.CHECKS.get(pid)
    if not c:
        continue
    checks.append({
        'property_id': pid,
        'quick_cmd': './check %s --tier quick' % pid,
        'thorough_cmd': './check %s --tier thorough' % pid,
        'evidence_file': 'evidence/%s.json' % pid,
        'replay_cmd_template': './check %s --replay {path}' % pid,
        'engine': 'pyvc',
        'level_claimed': {'category': c['level'], 'text': c['text'], 'design_ref': c.get('design_ref', 'DESIGN.md §5 ' + pid)},
        'level_note': c['note'],
        'technique': c['technique'],
    })
na = [{'property_id': pid, 'reason': D.NOT_APPLICABLE.get(pid, 'no check built yet in this round (see DESIGN.md)')}
      for pid in ids if pid not in D.CHECKS]
m = {
    'version': 1,
    'setup_cmd': './setup.sh',
    'hooks': {
        'guard': 'PERO_OCR_VERIF',
        'enable': 'no hooks: contracts are sidecar files under /verif/contracts, /repo is read as it is (VERIF_REPO selects another tree for self-tests)',
        'baseline_off_cmd': 'cd /repo && /venv/bin/python -m pytest -ra -q -p no:cacheprovider --timeout=900 --continue-on-collection-errors',
        'source_commits': [],
        'add_only': True,
    },
    'engines': [
        {'name': 'pyvc', 'path': 'pyvc/', 'serves_properties': sorted(D.CHECKS),
         'kind_free_text': 'sidecar contracts -> verification conditions generated from the real Python source (ast) on every run -> z3 / cvc5; bounded run-time contract tier (exhaustive small domains) as labelled stand-in'},
    ],
    'checks': checks,
    'notes': D.NOTES,
    'not_applicable': na,
}
json.dump(m, open(os.path.join(V, 'MANIFEST.json'), 'w'), indent=1)
print('MANIFEST.json: %d checks, %d not applicable' % (len(checks), len(na)))
