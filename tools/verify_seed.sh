#!/bin/bash
# verify_seed.sh <id> <srcdir> [name]: confirm a seeded change in a fresh scratch worktree, then store it under /verif/seeded/<name>
# checks: patch applies to /repo HEAD; test-suite outcome identical to baseline (217 pass / 4 known failures);
# demo exits 0 on the original and non-zero on the changed code.
set -u
id=$1; src=$2; name=${3:-$id}
W=$(mktemp -d /var/tmp/seedchk.XXXXXX)
git -C /repo worktree add -q --detach $W/wt HEAD || exit 2
cd $W/wt
cp $src/demo_$id.py . 2>/dev/null || cp $src/demo*.py ./demo_$id.py
export PYTHONPATH=$W/wt OMP_NUM_THREADS=2
/venv/bin/python demo_$id.py > $W/demo_orig.log 2>&1; do=$?
git apply $src/patch.diff || { echo "APPLY-FAIL $id"; git -C /repo worktree remove --force $W/wt; rm -rf $W; exit 3; }
/venv/bin/python demo_$id.py > $W/demo_chg.log 2>&1; dc=$?
/venv/bin/python -m pytest -q -p no:cacheprovider --timeout=900 test > $W/tests.log 2>&1
tl=$(tail -1 $W/tests.log)
failed=$(grep -E "^FAILED" $W/tests.log | grep -v test_multisort | wc -l)
echo "$name: demo_orig=$do demo_changed=$dc tests='$tl' unexpected_failures=$failed"
if [ $do -eq 0 ] && [ $dc -ne 0 ] && [ $failed -eq 0 ] && echo "$tl" | grep -q "217 passed"; then
  mkdir -p /verif/seeded/$name
  cp $src/patch.diff /verif/seeded/$name/patch.diff
  cp demo_$id.py /verif/seeded/$name/demo.py
  /venv/bin/python - "$id" "$name" "$src" "$tl" "$(tail -1 $W/demo_orig.log)" "$(tail -1 $W/demo_chg.log)" <<'PY'
import json,sys
id,name,src,tl,do,dc=sys.argv[1:7]
try: notes=json.load(open(src+'/notes.json'))
except Exception: notes={}
meta={"property":id,"summary":notes.get("summary"),"needs":notes.get("needs"),
 "author":"independent sub-agent given only the property record and a scratch worktree",
 "confirmed":{"how":"tools/verify_seed.sh in a fresh scratch worktree of /repo HEAD: patch applied, full pytest suite, demo on both versions",
   "tests_with_change":tl,"demo_original_last_line":do,"demo_changed_last_line":dc},
 "detected_by":None}
json.dump(meta,open('/verif/seeded/%s/meta.json'%name,'w'),indent=1,ensure_ascii=False)
PY
  echo "STORED $name"
else
  echo "REJECTED $name"; tail -5 $W/demo_orig.log; tail -5 $W/demo_chg.log
fi
cd /; git -C /repo worktree remove --force $W/wt; rm -rf $W
