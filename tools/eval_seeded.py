#!/usr/bin/env python3
"""Runs the quick check of the owning property against every confirmed seeded change (scratch copy, VERIF_REPO) and
records the outcome in seeded/<name>/meta.json ("detected_by") and in seeded/RESULTS.md."""
import json, os, shutil, sys
V = os.path.dirname(os.path.dirname(os.path.abspath(__file__)))
sys.path.insert(0, V)
from vf import selftest
only = sys.argv[1:]
rows = []
if only == ['--table']:
    # rebuild RESULTS.md from the recorded outcomes (no check is re-run)
    for name in sorted(os.listdir(os.path.join(V, 'seeded'))):
        mp = os.path.join(V, 'seeded', name, 'meta.json')
        if os.path.exists(mp):
            meta = json.load(open(mp))
            det = meta.get('detected_by') or {}
            rows.append((name, meta['property'], ('DETECTED' if det.get('detected') else 'exit %s' % det.get('exit')) + ' — ' +
                         '; '.join(x.replace('obligation:', '').split('::')[-1] for x in (det.get('failed') or [])[:4] if x),
                         (meta.get('summary') or '')[:110]))
    only = []
    os.listdir = lambda *_a, **_k: []
for name in sorted(os.listdir(os.path.join(V, 'seeded'))):
    mp = os.path.join(V, 'seeded', name, 'meta.json')
    if not os.path.exists(mp) or (only and name not in only):
        continue
    meta = json.load(open(mp))
    pid = meta['property']
    if not os.path.exists(os.path.join(V, 'props', pid + '.py')):
        rows.append((name, pid, 'no check yet', ''))
        continue
    d = selftest.scratch_copy()
    try:
        selftest.apply_mutant(d, {'patch': os.path.join(V, 'seeded', name, 'patch.diff')})
        rc, lines = selftest.run_check(pid, d)
    except Exception as e:
        rc, lines = -1, [str(e)]
    finally:
        shutil.rmtree(d, ignore_errors=True)
    meta['detected_by'] = {'check': './check %s --tier quick' % pid, 'exit': rc, 'detected': rc == 1, 'first_lines': [l.split(' replay=')[0] for l in lines[:2]],
                           'failed': list(selftest.LAST_SIGNATURES)[:8]}
    json.dump(meta, open(mp, 'w'), indent=1, ensure_ascii=False)
    rows.append((name, pid, ('DETECTED' if rc == 1 else 'exit %d' % rc) + ' — ' + '; '.join(x.replace('obligation:', '').split('::')[-1] for x in selftest.LAST_SIGNATURES[:4] if x),
                 (meta.get('summary') or '')[:110]))
    print(rows[-1], flush=True)
if not only:
    with open(os.path.join(V, 'seeded', 'RESULTS.md'), 'w') as f:
        f.write('| seeded change | property | quick check | what was changed |\n|---|---|---|---|\n')
        for r in rows:
            f.write('| %s | %s | %s | %s |\n' % r)
