#!/bin/bash
# runs every registered quick check once; prints one line per check
cd "$(dirname "$0")/.."
for id in $(.venv/bin/python -c "import json; print(' '.join(c['property_id'] for c in json.load(open('MANIFEST.json'))['checks']))"); do
  t0=$(date +%s)
  out=$(./check $id --tier ${1:-quick} 2>&1); rc=$?
  echo "$id exit=$rc $(( $(date +%s) - t0 ))s :: $(echo "$out" | grep -E "^C[0-9]+ tier" | tail -1)"
  echo "$out" | grep -E "^(VIOLATION|UNDECIDED|CHECKER-BROKEN)" | head -5
done
