#!/bin/bash
# verify_benign.sh <id> <srcdir> <name>: confirm a behaviour-preserving change (tests identical, demo passes on both versions)
# and store it under /verif/benign/<name>; the owning check is then expected to exit 0 on it (tools/eval_benign.py)
set -u
id=$1; src=$2; name=$3
W=$(mktemp -d /var/tmp/benchk.XXXXXX)
git -C /repo worktree add -q --detach $W/wt HEAD || exit 2
cd $W/wt
cp $src/demo_$id.py . 2>/dev/null || cp $src/demo*.py ./demo_$id.py
export PYTHONPATH=$W/wt OMP_NUM_THREADS=2
/venv/bin/python demo_$id.py > $W/demo_orig.log 2>&1; do=$?
git apply $src/patch.diff || { echo "APPLY-FAIL $id"; git -C /repo worktree remove --force $W/wt; rm -rf $W; exit 3; }
/venv/bin/python demo_$id.py > $W/demo_chg.log 2>&1; dc=$?
/venv/bin/python -m pytest -q -p no:cacheprovider --timeout=900 test > $W/tests.log 2>&1
tl=$(tail -1 $W/tests.log)
failed=$(grep -E "^FAILED" $W/tests.log | grep -v test_multisort | wc -l)
echo "$name: demo_orig=$do demo_changed=$dc tests='$tl' unexpected_failures=$failed"
if [ $do -eq 0 ] && [ $dc -eq 0 ] && [ $failed -eq 0 ] && echo "$tl" | grep -q "217 passed"; then
  mkdir -p /verif/benign/$name
  cp $src/patch.diff /verif/benign/$name/patch.diff
  cp demo_$id.py /verif/benign/$name/demo.py
  /venv/bin/python - "$id" "$name" "$src" "$tl" <<'PY'
import json,sys
id,name,src,tl=sys.argv[1:5]
try: notes=json.load(open(src+'/notes.json'))
except Exception: notes={}
meta={"property":id,"kind":"behaviour-preserving clean-up","summary":notes.get("summary"),
 "author":"independent sub-agent given only the property record and a scratch worktree",
 "confirmed":{"how":"tools/verify_benign.sh: patch applied to a fresh worktree of /repo HEAD, full pytest suite identical, demo (outputs compared with digests recorded from the original code) passes on both versions","tests_with_change":tl},
 "check_outcome":None}
json.dump(meta,open('/verif/benign/%s/meta.json'%name,'w'),indent=1,ensure_ascii=False)
PY
  echo "STORED $name"
else
  echo "REJECTED $name"; tail -5 $W/demo_orig.log; tail -5 $W/demo_chg.log
fi
cd /; git -C /repo worktree remove --force $W/wt; rm -rf $W
