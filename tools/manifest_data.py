NOTES = ("Technique family: contract-based deductive verification of the real code. pyvc re-reads /repo's working tree on every "
         "run, generates verification conditions from sidecar contracts (contracts/*.py) and discharges them with z3 (portfolio) "
         "and cvc5. Bounded stand-ins are exhaustive over a stated finite domain, labelled bounded in the evidence and never "
         "counted as proved. Exit codes: 0 held, 1 violation, 2 undecided, 3 checker broken.")

CHECKS = {
    'C13': {
        'level': 'proof',
        'technique': 'deductive verification: loop-invariant VCs from the real source discharged by z3/cvc5 (+ bounded run-time contract for the unproved helpers)',
        'text': ('levenshtein_distance, levenshtein_alignment, levenshtein_alignment_path and levenshtein_distance_substring are proved '
                 'equal to the Wagner-Fischer / Sellers spec functions for all sequences and all costs >= 1; edit_stats_for_alignment '
                 'is proved to return the suffix-recursive counts of the alignment, ErrorsSummary.aggregate to add, and '
                 'ErrorsSummary.from_lists (modularly, over the three callee contracts, with inductive lemmas for the symmetry of '
                 'the unit-cost distance and cost = number of unequal pairs) to satisfy nb_subs + nb_inss + nb_dels == nb_errors == '
                 'distance; levenshtein_alignment_substring returns (walk from the best end row) ++ (free trailing symbols) with '
                 'cost(walk) minus its free leading deletions equal to the optimum over all substrings (about 800 obligations in all).'),
        'note': ('Trusted: pyvc generator and its numpy model table (A1-A5), spec functions validated against brute force on a bounded '
                 'domain, well-founded induction scheme of loop invariants; numpy object-array element equality (A5) checked at run time. Bounded additions (rounds 15/16): aggregate over list / tuple / iterator / generator; sequences of 40 000 symbols and totals beyond 16 bits. Code asking for a narrow numpy element type is left undecided by the generator (machine arithmetic is not modelled).'),
    },
}

CHECKS['C15'] = {
    'level': 'proof',
    'technique': 'deductive verification: VCs over z3 sequences (exact python slice / floor-division semantics) from the real source; bounded run-time contract as cross-check',
    'text': ('find_best_overlap and merge_transcriptions_and_logits are proved against their contracts for every list of parts: overlap in '
             '[0, min] and equal to the FIRST length whose computed error rate is minimal provided that minimum is below 1, else 0 (ghost record of the '
             'error rates); per-step relation acc[:|acc|-ceil(o/2)] ++ t[floor(o/2):], length = sum of parts - sum of overlaps, one logits row per '
             'character; o = 0 is plain concatenation (61 obligations).'),
    'note': ('Trusted: pyvc generator; strings as z3 Seq of opaque symbols, logits as z3 Seq of opaque rows (np.concatenate axis 0 = Concat, row '
             'slicing = SubSeq); callee contract of levenshtein_distance (result >= 0) proved under C13. Window splitting in process_lines is not under contract: bounded only (split-and-stitch: the real process_lines of a transformer-type stub engine on 260 tuples of painted lines, every line must be stitched from the windows of its own text; a third of them also through the real TransformerEngineLineOCR.run_ocr / transcribe_batch around a stub network, which has to establish the proved merge\'s precondition - as many logit rows as characters for every part).'),
}

CHECKS['C19'] = {
    'level': 'proof',
    'technique': 'deductive verification on a heap model (field arrays, references, frame obligations) of the real merge_layouts; bounded run-time contract as cross-check',
    'text': ('merge_layouts is proved for any number of engines and lines: per line the transcription/logits/characters are those of the first '
             'arg-max engine (scan invariant over BESTC/ARGB), the maximum is recorded when positive, no other object and no other field changes '
             '(48 obligations incl. a syntactic frame obligation). Self-merge is decided by the bounded tier only.'),
    'note': ('Trusted: pyvc; get_confidences opaque (pure function of transcription/logits/characters/logit_coords); zip(*iterators) modelled as '
             'position-wise tuples LINE(e,p); distinct line objects assumed in the unbounded contract (aliasing covered by the bounded self-merge cases). Bounded addition (round 16): incremental merges (merge(A, B), then the result with C) equal the single merge. Round 17: engines that group the same lines into regions differently.'),
}

CHECKS['C02'] = {
    'level': 'other',
    'technique': ('hybrid: deductive proof (own VC generator over the real Python AST + z3) of the per-frame prefix-search recurrences, the prefix '
                  'bookkeeping and the distinct-prefix loop invariant of the decoder (12 functions); bounded run-time contract of the real decoder '
                  'against executable specs (CTC alpha recursion, reference beam search) for the numeric clauses'),
    'text': ('PROVED for all inputs (no-LM configuration): compute_Pb / compute_Pnb / compute_Plm / get_reduced_Pc / get_reduced_last_chars / '
             'get_continuation_mask implement the prefix-search recurrences; find_new_prefixes, find_matching, get_new/old_prefixes_positions, '
             'adjust_for_prefix_joining (mass of parent+last-character moved to the existing child and removed from the parent, exactly there); '
             'the beam loop keeps pairwise distinct prefixes of real characters with non-zero probability (=> pairwise distinct transcripts), '
             'keeps Pb[p] <= CTCB(t, prefix p) and Pnb[p] <= CTCNB(t, prefix p) for the textbook CTC prefix-probability recurrences (=> the visual '
             'score never exceeds the CTC log-probability of its transcript, for every beam width and pre-selection), and '
             'raises ValueError iff the normalisation deviation exceeds the tolerance; multisort.top_k itself is proved from models of ravel/argpartition/unravel_index '
             '(its counting consequence is a Lean 4 theorem, lean/Pigeonhole.lean).  The pre-selection contract is ASSUMED.  '
             'BOUNDED, not proved: exact bag when unpruned, equality with a reference frame-synchronous k-best '
             'prefix beam search, on every matrix with quarter-probability rows (T<=3, 3 classes, k in {1,2,3,1e6}, default and non-pruning selector).'),
    'note': ('Trusted: pyvc; numpy models (ravel/argpartition/unravel_index); assumed contract of the pre-selection callable; blank probability non-zero per frame; logaddexp is an '
             'uninterpreted commutative monotone function; the recurrences CTCB/CTCNB equal the log-sum over all alignments (validated against enumeration on every run, not proved); executable specs (alpha recursion validated against enumeration of all alignments), float '
             'comparisons with 1e-6 tolerance; the numeric clauses are decided on the grid only. Bounded addition (round 17): one long-lived decoder that first decodes lines beginning with blank-only frames, then the shard\'s matrices.'),
}
CHECKS['C03'] = {
    'level': 'other',
    'technique': ('hybrid: deductive proof (own VC generator + z3) of the LM bookkeeping invariant of the decoder loop with the LM as uninterpreted functions, '
                  'of compute_Plm / update_lm_things and of best_hyp / total_scores; bounded run-time contract of the decoder with a prefix-hash toy LM over a finite grid'),
    'text': ('PROVED for all inputs and every item-wise deterministic LM: in the beam loop h_prev[p] is the state reached by reading prefix p, lm_preds[p] its '
             'predictions and Plm[p] the LM\'s own score of prefix p (sum of per-symbol scores + bonus), whatever route the search took; at the return '
             '(+ end-of-line score when requested); with return_h the state handed on belongs to the arg-max of visual + scale*LM.  PROVED for all bags: best_hyp '
             'returns the first maximiser of vis_sc + lm_weight*lm_sc, the key posteriors()/confidence() use.  BOUNDED: with a history-dependent toy LM every '
             'lm_sc equals the LM\'s own sum (+bonus, +eos), best_hyp maximises vis+scale*lm, confidence and returned state belong to it, scale 0 reproduces '
             'LM-free decoding (grid of C02 x scale x bonus x eos x init state).'),
    'note': ('Trusted: pyvc; assumed contracts of the LM object (item-wise, deterministic), of multisort.top_k and of the pre-selection; decoder proof for init_h = None; '
             'build_boh opaque in the decoder proof; toy LM stands for all history-dependent LMs in the bounded tier; real LMWrapper (torch) not verified. Bounded additions (rounds 15/16): one long-lived decoder over text / blank-only / text / text per grid point; the torch LSTM behind the real LMWrapper has dropout and arrives in training mode. Round 18: the same supplied start state handed in twice (beam widths 1 and k).'),
}

CHECKS['C04'] = {
    'level': 'other',
    'technique': ('hybrid: deductive proof (own VC generator + z3) of the engine-side batched greedy decoder greedy_decode_ctc for all tensor shapes; '
                  'bounded run-time contract (collapse of the arg-max path) on the real torch/numpy decoders, exhaustive over all arg-max paths of stated shapes'),
    'text': ('PROVED for all N x C x T score tensors: in greedy_decode_ctc the symbol matrix entry (n,t) is the first arg-max class of frame t of line n iff it '
             'is not blank and differs from the previous frame\'s arg-max, else -1 (prepended frame / shifted class ids / masks verified), so every line of every '
             'batch yields the collapse of its arg-max path; GreedyDecoder.__call__ (itertools.groupby + blank filter): the joined symbols stem from exactly the frames that survive '
             'the collapse, in frame order.  BOUNDED, not proved: greedy_decode_ctc, PytorchEngineLineOCR.run_ocr (stub network) and '
             'GreedyDecoder equal the CTC collapse of the arg-max path for every arg-max path T<=5 (3 classes) / T<=3 (4 classes) in three score styles incl. '
             'exact ties, and for all batches of two paths T<=3; both decoders agree row by row.'),
    'note': 'Trusted: pyvc; torch operations modelled as numpy (arg-max = first maximal index); that the two decoders agree (equal characterisations => equal lists) is bounded only. Bounded addition (round 16): a real PytorchEngineLineOCR built by its constructor from an OCR json (charsets where two classes share a symbol) around a TorchScript checkpoint with scripted scores. Round 18: the same scores shifted by -30 (raw network output) with the normalisation guard off.',
}
CHECKS['C05'] = {
    'level': 'proof',
    'technique': ('deductive verification of every function of force_alignment.py (own VC generator over the real Python AST + z3; inductive lemmas at the return points); '
                  'bounded run-time contract of force_align / align_text against brute force over all frame labelings as cross-check'),
    'text': ('PROVED for all inputs (10 contracts): hmm_trans_from_string (exact CTC transition structure), complete_state_seq (raises iff blank among labels), initial_cost, '
             'final_cost, compute_update (one min-plus step), backtrack, viterbi_align (DP invariant act_cost = V(t,.) for V given by the Bellman conditions; ValueError iff no '
             'finite alignment; the returned path is allowed, starts / ends correctly, realises V, and no allowed state path ending in a final state is cheaper — inductive '
             'lemma over an arbitrary path), force_align (the code builds exactly the expanded cost matrix and topology; one symbol per frame; the sequence collapses to the '
             'labels — inductive lemma over collapse events; minimum cost), its positions variant (label indices never decrease, every label owns a frame — explicit witness '
             'function), align_text (each character on the most confident frame of its own block, positions strictly increasing).  '
             'BOUNDED cross-check: the same clauses against brute force over ALL frame labelings on a finite grid of cost matrices (incl. +inf, ties, repeats, both blank positions).'),
    'note': ('Trusted: pyvc; A4 numba.jit = Python semantics; np.where / np.nonzero / arg-max models; an alignment is identified with an allowed state path of the CTC topology '
             '(textbook correspondence, cross-checked by the bounded tier); force_align requires the no-raise conditions of its callees, each of which is proved to raise exactly then.'),
}

CHECKS['C16'] = {
    'level': 'other',
    'technique': 'hybrid: deductive range proofs under exp/log-sum-exp axioms and a relational (two-run) monotonicity proof (z3) + bounded numeric run-time contract',
    'text': ('PROVED modulo the axioms exp > 0, exp(x) <= 1 for x <= 0, lse >= every element: get_prob in [0,1]; get_line_confidence entries in [0,1] '
             '(clip and masking structure); posteriors <= 0 and differ from total scores by one constant; confidence in (0,1]; transcript_confidence in [0,1]; '
             'line_confident_enough monotone in its threshold (relational proof over two runs). BOUNDED numeric: range, shift invariance, one-hot = 1, '
             'posteriors sum to 1 on a grid of matrices and on bag histories (query/add/re-weight/query).'),
    'note': 'Trusted: pyvc; exp and logsumexp are uninterpreted with the listed axioms (A2: reals, no round-off); numpy row reductions opaque pure functions in the relational proof; "within round-off" clauses are numeric/bounded only. Bounded additions (round 16): the confident-line test as PageDecoder.decode_line applies it (threshold sweep incl. 0 / 0.0 / numpy 0); lines of 600-2100 logit frames (genuine defect fixed in c076aee). Round 18: a line through the real process_lines (sparse storage) with one-hot network posteriors has confidence 1.',
}

CHECKS['C14'] = {
    'level': 'exploration',
    'technique': 'bounded stand-in: exhaustive enumeration of hypothesis histories against an executable contract (readable set, weight embedding) + bounded-symbolic VCs for normalize_cn (z3 NRA)',
    'text': ('BOUNDED-EXHAUSTIVE, not proved: every history of <= 3 hypotheses over {a,b} (length <= 3, scores {1,2,.5}, any order) keeps earlier strings '
             'readable, makes the new one readable in order, loses no weight; normalised positions sum to 1; enumerated paths are all arc combinations once, '
             'sorted, summing to 1; single hypothesis reads back. normalize_cn additionally bounded-symbolic (all positive weights at 8 small shapes). '
             'One known finding: a history whose first hypothesis is the empty string.'),
    'note': 'No unbounded invariant for the list-of-dicts state; executable contract specs/cn.py is the oracle; Python float arithmetic with 1e-9 tolerance.',
}

CHECKS['C01'] = {
    'level': 'other',
    'technique': 'hybrid: deductive proof of the reading-order sort contract (z3/cvc5, model of sorted() = stable permutation ordered by the source key) + bounded export/import/export contract on real lxml over a structured grid',
    'text': ('PROVED for all pages: sort_regions_by_reading_order is a stable permutation ordered by reading_order[region.id], unlisted regions last. '
             'BOUNDED: round trip equal up to the documented rounding, fixpoint of the re-exported document, regions held/written in reading order, both PAGE '
             'versions, exhaustive over the product of line-attribute pools (972 single-line layouts) and all structures of 0..3 regions x 0..2 lines with every '
             'partial reading-order permutation. Heights are compared only where present (absent heights are guessed on import by design).'),
    'note': 'Trusted: pyvc; lxml (A6); strings outside the transcription pool are not decided; coordinate string codec is bounded only. Bounded additions (rounds 15/16): XML-legal edge characters (DEL, C1, U+D7FF, U+E000, U+FFFD) in line and region text; the same document imported again after the first import was changed in place.',
}

CHECKS['C08'] = {
    'level': 'other',
    'technique': 'relational (non-interference) obligations generated by symbolic execution of the real PageDecoder.process_page/decode_line and discharged by z3 + syntactic frame scan + bounded page histories with a recording stub decoder',
    'text': ('PROVED: every mutable attribute the line loop reads is reset before the loop (value at the loop head independent of the entry state), and one '
             'loop iteration computes transcription and carried LM state from the line and the carried state only (counters and clock do not flow into outputs or '
             'branch conditions) - hence by induction a page result is a function of the page and the immutable configuration. BOUNDED: all page histories of '
             'length <= 3 x carry on/off x 5 thresholds equal the solo result; engine histories on one OCR engine; the real LMWrapper around a training-mode LSTM LM with '
             'dropout decodes one matrix three times identically. The multi-process schedule clause is NOT decided (no thread/process reasoning in this family).'),
    'note': ('Trusted: pyvc; decoder / LM / logits preparation are opaque pure functions (A6; frame scan shows LMWrapper assigns no attribute); module-level RNG '
             'tie-breaks in layout stages are listed in the evidence, not proved absent; Pool.starmap scheduling outside the technique. Bounded addition (round 16): beam width 1 and a line / other line / line / line history through one decoder and LM wrapper. Round 18: resumed runs of the real parse_folder.main() (C17 harness, stub results depend on the page image).'),
}

CHECKS['C17'] = {
    'level': 'other',
    'technique': 'per-call and structural verification conditions on the real parse_folder.py (bounded-symbolic set intersection proof, resume-safety condition, slice-mode division obligation) + bounded crash-point enumeration of the real main() with a stub parser',
    'text': ('DECIDED on the source: load_already_processed_files = intersection over the given directories (z3, 4 optional directories); resume-safety '
             'condition (every output kind written after a consulted kind is consulted) so that "skipped" implies "every requested output present" for every '
             'kill point between writes; every guarded block writes its path; no division by zero at exit. BOUNDED: real main() + real writers killed in every gap between two '
             'writes, at both ends of the gap (next write about to start / previous write just completed; 1-2 crashes quick, up to 3 thorough) for representative / all output subsets and ids with dots: final tree equals the uninterrupted tree, '
             'complete pages not reprocessed, idle run exits cleanly; file-name -> id mapping exhaustive over names of length <= 5.'),
    'note': 'Trusted: atomic file writes (kills between writes only); stub PageParser; the induction from the three per-call obligations to arbitrary crash/resume sequences is a pen-and-paper argument in DESIGN.md. Bounded addition (round 16): a kill inside an XML writer at the moment serialisation starts (position k + 0.5). Round 18: stub results depend on the page image; idle run with --process-count 2 (Pool replaced by a sequential stand-in with the same constructor contract inside the daemonic check workers).',
}

CHECKS['C09'] = {
    'level': 'other',
    'technique': 'hybrid: deductive proof (heap model, slice mode) of the restore loop of load_logits and of get_dense_logits + bounded round trips with real pickle/scipy',
    'text': ('PROVED: _gen_logits raises iff missing components are not allowed and some line lacks logits / characters / frame window (a missing component is reported, never saved silently).  PROVED for all layouts/files: the restore loop of load_logits sets logits/characters/logit_coords of exactly the lines whose id is in the file to the '
             'file entries and leaves every other line untouched (nested-loop invariants + frame); get_dense_logits returns stored entries unchanged and the floor '
             'for pruned ones. BOUNDED: save/load via path and bytes for 0..3 lines x 5 sparse matrices x charsets x coords, subset/superset/reordered targets, '
             'missing components reported and nothing written, legacy files, row-normalised log-probabilities, PAGE XML + logits rebuild gives the same greedy '
             'text and ALTO words. _gen_logits is bounded only.'),
    'note': 'Trusted: pyvc; pickle and scipy.sparse (A6); slice mode starts at the loop with arbitrary dictionaries; precondition: no stored entry is exactly 0.0. Round 17: dense / log-probability clauses also for floors -50, -30, -12.5.',
}

CHECKS['C06'] = {
    'level': 'other',
    'technique': ('hybrid: deductive slice proof (own VC generator + z3) of the print-space fold and margin arithmetic of to_altoxml_string for any number of blocks; '
                  'bounded ALTO export/import contract on real lxml over a structured grid + exhaustive order-conversion check'),
    'text': ('PROVED for all block lists: print space = bounding box of the text blocks (empty box for no blocks), non-negative size, integer attributes, and for integer '
             'block coordinates the four margins and the print space tile the page; and, for every character table / transcription / number of classes, the transcription -> label '
             'mapping gives one label per character, each a class index below the blank (70 obligations).  '
             'BOUNDED: export never raises; per block/line exactly one TextLine in order with String CONTENTs = transcription.split() (logical order on Arabic lines) in the '
             'aligned and the fallback branch; integer geometry for fractional coordinates; WC in [0,1]; only lines below min confidence dropped; print space = bounding box, '
             'margins tile the page up to integer truncation; re-import gives the same words - for 20 transcriptions (blank/NBSP/tab/thin/ideographic/zero-width spaces, '
             'out-of-charset, Arabic/Latin) x 5 logits kinds x structures. _reverse is a permutation and an involution on all strings of length <= 5 (6) over 9 symbols.'),
    'note': ('Trusted: pyvc; slice mode drops the XML construction and the per-line loop of the block loop after a syntactic non-interference check; get_hwvh assumed to return '
             'non-negative extents; lxml, crop engine for word boxes (C10), CPython str.split/isspace; the text clauses are decided on the grid only. Bounded additions (round 16): Arabic-script lines with mixed-script / delimiter-edged words; pages with a line of 1040 / 1300 logit frames (genuine defect fixed in c076aee). Round 18: lines carrying a stored confidence (0 / 1) export the same lines for min_line_confidence > 0.'),
}
CHECKS['C07'] = {
    'level': 'other',
    'technique': ('hybrid: deductive proof (own VC generator + z3) of the index bookkeeping of process_lines (sort permutation, batching loop, scatter, frame window) '
                  'for lists of any length with the network call replaced by its assumed contract; bounded run-time contract of the real process_lines with a local stub '
                  'network, exhaustive over short line lists, batch sizes, modes, orders and call histories'),
    'text': ('PROVED for all line lists / widths / batch sizes (CTC configuration, dense logits and no-logits mode): every input position receives the transcription, logits '
             'and frame window [pad//sub, min((pad+w_i)//sub, frames_i)] of its own image; no line is skipped or processed twice.  Assumed: run_ocr\'s i-th output depends on '
             'the i-th image only; four statements (shape check, batch assembly, over-long crop, network call) are replaced by their assumed effect.  '
             'BOUNDED: at every input position the transcription, the logits inside the frame window and the window equal those computed from that image alone, for lists of '
             '0..3 widths from {1,31,32,33,100,500,4000} x batch sizes x 5 modes, permutations of longer lists, and calls after other calls on the same engine; window = '
             '[pad/4, (pad+w)/4) clipped to existing frames; sparse storage keeps exactly logits with posterior >= 1e-4.'),
    'note': 'Trusted: pyvc; the stub network represents "any local network"; batch assembly, sparse storage, tight crop and the transformer path (C15) are bounded only.',
}

CHECKS['C12'] = {
    'level': 'other',
    'technique': 'bounded stand-in: run-time contract of both sorters over a grid of box layouts with a time budget + deductive call-site precondition / re-indexing proof for the naive sorter',
    'text': ('BOUNDED (termination observed up to 5 s per page, not proved): both sorters return exactly the input region objects once each, ids/text/lines intact, polygons '
             'unchanged as shapes, on 0..2 boxes over a 50 px grid (incl. degenerate, identical), strided triples/quadruples, hand-picked nested / mutually overlapping / grid / '
             'column layouts, with and without de-skew. PROVED: NaiveRegionSorter.process_page calls the clustering with >= 1 sample (guard for < 2 regions) and rebuilds '
             'page.regions by indexing the old list with the returned order.'),
    'note': 'Trusted: sklearn DBSCAN, shapely, cv2; sort_regions has an ASSUMED contract (permutation of range(n)) backed by the bounded tier only; SmartRegionSorter recursion has no variant. Bounded addition (round 16): pages with integer coordinate arrays and a clear slant. Round 18: staircase tilings nested 13 / 16 levels deep.',
}

CHECKS['C11'] = {
    'level': 'other',
    'technique': 'partial: slice-mode deductive proof of the bounding-box pre-filter (z3) + bounded shapely clauses on a finite grid and LayoutExtractor option combinations with a stub detector',
    'text': ('PROVED: the pre-filter of assign_lines_to_regions marks every (line, region) pair whose boxes overlap with positive area and rejects pairs separated along both axes. '
             'BOUNDED: placed baselines inside the region and pieces of the detected baseline, outline clipped, inside lines unchanged, untouched never placed, longest piece kept, '
             'ids distinct - on 6 rectilinear regions (singly/pairs/all) x 44 baselines; LayoutExtractor.process_page x detect-regions x multi-orientation x merge-lines gives distinct ids.'),
    'note': 'Trusted: shapely semantics (A6); float32 rounding of boxes (A2); continuous geometry beyond the grid is not decided. Bounded additions (rounds 15/16): detector whose first line no region takes and whose orientations report different numbers of lines (16 option combinations); lines assigned again to a region object after its polygon was replaced. Round 18: lines-only extractors process the layout twice.',
}

CHECKS['C10'] = {
    'level': 'other',
    'technique': ('hybrid: deductive proof (own VC generator + z3) of reverse_line_mapping (arc-length inverse, all tables and samples) and of the band / width / frame slice of get_crop_inputs + bounded numeric contract of the real '
                  'crop engine on a finite grid of baselines (0.75 px tolerance, column spacing within 5%)'),
    'text': ('PROVED for all inputs: reverse_line_mapping returns the piecewise-linear inverse of the strictly increasing arc-length table at every sample (index safety, no '
             'division by zero, termination of the search), so uniformly spaced samples give columns uniform ALONG the baseline; and, on the slice of get_crop_inputs that computes '
             'them (re-extracted every run; rotation, interpolant and normals dropped), for all positive heights (list or float64 array), scales and target heights >= 2: row offsets '
             'run linearly from -(ascender x scale) to +(descender x scale), width = int(length x target height / scaled line height), the caller\'s heights are not written.  '
             'BOUNDED numeric: coordinate map of the configured height, width = length x scale, columns uniform from first to last baseline point, rows linear from ascender to '
             'descender and perpendicular to the baseline, fast path == general path, shift equivariance, no blank fallback for non-degenerate baselines in orders 0/1/2; degenerate '
             'lines fall back to a blank image of the configured height, never an error - on integer baselines of 2..5 points x steps x slopes (within 60 degrees) x offsets x size '
             'variants, plus an arc and an S-shaped baseline; every line cropped twice with float64-array heights: line left unchanged, same map each time.'),
    'note': 'Trusted: pyvc; numba object-mode jit; cv2.remap, scipy/numpy interpolation (A6); continuous geometry beyond the grid is not decided; trigonometry is not reasoned about. Round 18: LineCropper.process_page on a page cropped before, after a line was moved.',
}
CHECKS['C18'] = {
    'level': 'other',
    'technique': 'partial: deductive proof of rotate_layout against the np.rot90 axiom (z3) + bounded numeric contract of parse()/detect() on synthetic ridge maps with a stub network',
    'text': ('PROVED for all image sizes and any number of points: rotate_layout maps baselines, outlines and region polygons of an analysis rotated by 90/180/270 degrees to within '
             'one pixel of their exact pre-image under np.rot90, all three lists consistently. BOUNDED numeric: parse() gives one line per ridge with end points within 3 ds, vertical '
             'position within ~1.5 ds, heights = map x ds and each line its own heights, on synthetic maps (1-3 ridges, lengths 6/20/60, slopes 0/+-0.1 plus pairs of slope +-0.25 with overlapping bounding boxes, end-point responses on/off, '
             'ds 1/2/4/8); detect() with a stub network returns original-image coordinates for rot 0..3 on a non-square page.'),
    'note': 'Trusted: np.rot90 axiom, scipy.ndimage / shapely / cv2 (A6); lists of length one in the rotation proof (the code treats list elements independently); ridge decoding beyond the grid not decided. Bounded addition (round 16): the real TorchParseNet.get_maps_with_optimal_resolution with a recording get_maps over page histories on one long-lived object: the returned factor is the one the returned maps were computed with. Round 18: baseline_to_textline commutes with rotations by 90 / 180 / 270 degrees.',
}

NOT_APPLICABLE = {
    'C20': ('equality up to round-off of float tensors produced by torch C++ kernels through module-resident caches across calls: no contract '
            'within reach can state it over reals, no finite domain makes a bounded check exhaustive; a random differential test would be a different technique (DESIGN.md §6)'),
}
