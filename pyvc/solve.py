"""pyvc.solve — discharge obligations with z3 (python API, worker processes) and cvc5 (CLI) as second opinion.

Every obligation is serialised to SMT-LIB text in the parent (z3 ASTs are not picklable) and checked in a
worker.  result: 'unsat' = discharged, 'sat' = refuted (model attached), 'unknown' = undecided.
"""
import itertools
import multiprocessing as mp
import os
import subprocess
import tempfile
import time
import z3

Z3_TIMEOUT_MS = int(os.environ.get('PYVC_Z3_TIMEOUT_MS', '20000'))
CVC5_TIMEOUT_MS = int(os.environ.get('PYVC_CVC5_TIMEOUT_MS', '30000'))
CVC5_BIN = '/usr/bin/cvc5'
RLIMIT_PER_MS = float(os.environ.get('PYVC_RLIMIT_PER_MS', '3000'))
WALL_FACTOR = float(os.environ.get('PYVC_WALL_FACTOR', '4'))


def _symbols(e, acc, seen):
    todo = [e]
    while todo:
        t = todo.pop()
        k = t.get_id()
        if k in seen:
            continue
        seen.add(k)
        if z3.is_quantifier(t):
            todo.append(t.body())
            for i in range(t.num_patterns()):
                todo.append(t.pattern(i))
        elif z3.is_app(t):
            if t.decl().kind() == z3.Z3_OP_UNINTERPRETED:
                acc.add(t.decl().name())
            todo.extend(t.children())


def relevant_axioms(hyps, goal, axioms):
    """axioms may be given as (defined_symbols, formula): a definitional axiom of specification functions that do
    not occur in the obligation is dropped (conservative extension: irrelevant to validity, and a model of the
    rest extends to it).  Untagged axioms are always kept."""
    if not axioms:
        return []
    tagged = [a for a in axioms if isinstance(a, tuple)]
    out = [a for a in axioms if not isinstance(a, tuple)]
    if not tagged:
        return out
    used, seen = set(), set()
    for h in list(hyps) + [goal] + out:
        _symbols(h, used, seen)
    pending = tagged
    changed = True
    while changed:
        changed = False
        rest = []
        for syms, f in pending:
            if set(syms) & used:
                out.append(f)
                _symbols(f, used, seen)
                changed = True
            else:
                rest.append((syms, f))
        pending = rest
    return out


def to_smt2(hyps, goal, axioms=()):
    s = z3.Solver()
    for a in relevant_axioms(hyps, goal, axioms):
        s.add(a)
    for h in hyps:
        s.add(h)
    s.add(z3.Not(goal))
    return s.to_smt2()


def focus_hyps(hyps, goal, depth):
    """hypothesis selection by symbol reachability (in the spirit of SInE): start from the uninterpreted symbols of the goal,
    `depth` times add every hypothesis that shares a non-ubiquitous symbol with what is already selected.  Quantifier-free
    hypotheses are cheap and always kept.  Dropping hypotheses is sound: `unsat` of the smaller query is a proof of the obligation;
    any other answer of the smaller query is ignored."""
    hs = list(hyps)
    sy = []
    for h in hs:
        u, seen = set(), set()
        _symbols(h, u, seen)
        sy.append(u)
    freq = {}
    for u in sy:
        for x in u:
            freq[x] = freq.get(x, 0) + 1
    common = {x for x, c in freq.items() if c > max(8, 0.4 * len(hs))}
    rel, seen = set(), set()
    _symbols(goal, rel, seen)
    chosen = [False] * len(hs)
    for i, h in enumerate(hs):
        if not _has_quantifier(h):
            chosen[i] = True
    for _ in range(depth):
        grow = set()
        for i, u in enumerate(sy):
            if not chosen[i] and (u - common) & rel:
                chosen[i] = True
                grow |= u
        if not grow:
            break
        rel |= grow
    return [h for h, c in zip(hs, chosen) if c]


def _has_quantifier(e):
    stack, seen = [e], set()
    while stack:
        t = stack.pop()
        if t.get_id() in seen:
            continue
        seen.add(t.get_id())
        if z3.is_quantifier(t):
            return True
        stack.extend(t.children())
    return False


def _model_dict(m, limit=200):
    out = {}
    for d in m.decls()[:limit]:
        try:
            out[d.name()] = str(m[d])
        except Exception:
            pass
    return out


PORTFOLIO = [
    {'smt.random_seed': 1, 'smt.arith.solver': 2},
    {'smt.random_seed': 2},
    {'smt.random_seed': 3, 'smt.qi.eager_threshold': 2.0, 'smt.qi.lazy_threshold': 4.0},
    {'smt.random_seed': 4, 'smt.arith.solver': 2, 'smt.mbqi': False},
    {'smt.random_seed': 5, 'smt.mbqi': False},
    {'smt.random_seed': 6, 'smt.arith.solver': 6},
    {'smt.random_seed': 7, 'smt.arith.solver': 2, 'smt.qi.eager_threshold': 3.0, 'smt.qi.lazy_threshold': 6.0},
    {'smt.random_seed': 8, 'smt.arith.solver': 2, 'smt.qi.eager_threshold': 5.0},
]


def _check_z3(job):
    name, smt2, timeout_ms, want_model = job[:4]
    opts = job[4] if len(job) > 4 else {}
    t0 = time.time()
    try:
        s = z3.Solver()
        # the budget is z3's deterministic resource counter (about 2-4 million units per second on an idle core), so that a
        # verdict does not depend on how busy the machine is; the wall-clock timeout is only a generous backstop
        s.set('rlimit', int(timeout_ms * RLIMIT_PER_MS))
        s.set('timeout', int(timeout_ms * WALL_FACTOR))
        for k, v in opts.items():
            s.set(k, v)
        s.from_string(smt2)
        r = s.check()
        res = str(r)
        model = None
        if r == z3.sat and want_model:
            model = _model_dict(s.model())
        reason = s.reason_unknown() if r == z3.unknown else ''
        return name, res, model, int((time.time() - t0) * 1000), 'z3-' + z3.get_version_string(), reason
    except Exception as e:   # parser problems etc. are "unknown", never a verdict
        return name, 'unknown', None, int((time.time() - t0) * 1000), 'z3', 'exception: %r' % (e,)


def _check_cvc5(job):
    name, smt2, timeout_ms, want_model = job
    t0 = time.time()
    with tempfile.NamedTemporaryFile('w', suffix='.smt2', delete=False, dir=os.environ.get('PYVC_TMP', '/var/tmp')) as f:
        f.write('(set-logic ALL)\n' + smt2)
        path = f.name
    try:
        p = subprocess.run([CVC5_BIN, '--lang=smt2', '--tlimit=%d' % timeout_ms, '--strings-exp', '--arrays-exp',
                            '--full-saturate-quant', path],
                           capture_output=True, text=True, timeout=timeout_ms / 1000 + 10)
        out = p.stdout.strip().splitlines()
        res = out[0].strip() if out else 'unknown'
        if res not in ('sat', 'unsat', 'unknown'):
            res = 'unknown'
        return name, res, None, int((time.time() - t0) * 1000), 'cvc5-1.0.3', p.stderr.strip()[:200]
    except Exception as e:
        return name, 'unknown', None, int((time.time() - t0) * 1000), 'cvc5', 'exception: %r' % (e,)
    finally:
        try:
            os.unlink(path)
        except OSError:
            pass


_pool = None


def pool():
    global _pool
    if _pool is None:
        n = int(os.environ.get('PYVC_JOBS', str(min(16, os.cpu_count() or 4))))
        _pool = mp.get_context('fork').Pool(n)
    return _pool


def run_jobs(fn, jobs, stall_s):
    """pool.imap_unordered that survives the death of a worker: multiprocessing.Pool replaces a worker that crashed (z3 can
    segfault) but never delivers its task, so a plain imap would wait for ever.  Every job is submitted on its own; when nothing
    has completed for `stall_s` seconds the jobs still outstanding are reported as `unknown` and the pool is rebuilt."""
    p = pool()
    pending = {}
    for job in jobs:
        pending[job[0]] = p.apply_async(fn, (job,))
    last = time.time()
    while pending:
        done = [n for n, ar in pending.items() if ar.ready()]
        if done:
            last = time.time()
            for n in done:
                ar = pending.pop(n)
                try:
                    yield ar.get()
                except Exception as e:      # an exception inside the worker is an `unknown`, never a verdict
                    yield (n, 'unknown', None, 0, 'worker', 'exception: %r' % (e,))
        elif time.time() - last > stall_s:
            for n in list(pending):
                yield (n, 'unknown', None, int(stall_s * 1000), 'worker', 'no answer (worker died or exceeded the wall-clock backstop)')
            pending.clear()
            close_pool()
        else:
            time.sleep(0.02)


def close_pool():
    global _pool
    if _pool is not None:
        _pool.terminate()
        _pool = None


def _outer_quantifiers(e, out, seen):
    k = e.get_id()
    if k in seen:
        return
    seen.add(k)
    if z3.is_quantifier(e):
        out.append(e)
        return
    if z3.is_app(e):
        for c in e.children():
            _outer_quantifiers(c, out, seen)


def ground(e, lo, hi, cache=None):
    """expand integer quantifiers over the finite range [lo, hi] (exact for range-guarded quantifiers)"""
    if cache is None:
        cache = {}
    k = e.get_id()
    if k in cache:
        return cache[k]
    qs = []
    _outer_quantifiers(e, qs, set())
    pairs = []
    for q in qs:
        n = q.num_vars()
        if not all(q.var_sort(i) == z3.IntSort() for i in range(n)) or q.is_lambda():
            continue          # quantifier over sequences / tuples (structural axiom): left as it is
        insts = []
        body = q.body()
        for combo in itertools.product(range(lo, hi + 1), repeat=n):
            vals = [z3.IntVal(c) for c in combo]
            b = z3.simplify(z3.substitute_vars(body, *reversed(vals)))
            if (z3.is_true(b) and q.is_forall()) or (z3.is_false(b) and q.is_exists()):
                continue
            insts.append(ground(b, lo, hi, cache))
        if not insts:
            r = z3.BoolVal(q.is_forall())
        elif len(insts) == 1:
            r = insts[0]
        else:
            r = z3.And(*insts) if q.is_forall() else z3.Or(*insts)
        pairs.append((q, r))
    r = z3.substitute(e, *pairs) if pairs else e
    cache[k] = r
    return r


TERM_COMPLETE = {'LAE', 'EXP'}
"""uninterpreted functions whose axioms (commutativity, bounds in terms of the arguments) extend from the finitely many
applications occurring in a query to a total function: instantiating these axioms on the occurring argument tuples
(closed under the new applications the instances introduce) is complete for satisfiability"""


def _ground_apps(es, names):
    out = {}
    seen = set()

    def has_var(t):
        if z3.is_var(t):
            return True
        return z3.is_app(t) and any(has_var(c) for c in t.children())

    def walk(t):
        k = t.get_id()
        if k in seen:
            return
        seen.add(k)
        if z3.is_quantifier(t):
            walk(t.body())
            return
        if z3.is_app(t):
            if t.decl().name() in names and t.num_args() > 0 and not has_var(t):
                out.setdefault(t.decl().name(), {})[t.get_id()] = t
            for c in t.children():
                walk(c)
    for e in es:
        walk(e)
    return out


def term_instantiate(formulas, rounds=3):
    """replace every top-level forall over Real variables whose single pattern is f(x1..xn), f in TERM_COMPLETE, by its
    instances on the ground applications of f occurring in the formulas"""
    axs, rest = [], []
    for f in formulas:
        if (z3.is_quantifier(f) and f.is_forall() and f.num_patterns() == 1 and f.pattern(0).num_args() == 1
                and f.pattern(0).arg(0).decl().name() in TERM_COMPLETE
                and all(f.var_sort(i) == z3.RealSort() for i in range(f.num_vars()))
                and all(z3.is_var(a) for a in f.pattern(0).arg(0).children())):
            axs.append(f)
        else:
            rest.append(f)
    if not axs:
        return formulas
    insts = []
    done = set()
    for _ in range(rounds):
        apps = _ground_apps(rest + insts, TERM_COMPLETE)
        new = False
        for ax in axs:
            pat = ax.pattern(0).arg(0)
            n = ax.num_vars()
            for t in apps.get(pat.decl().name(), {}).values():
                key = (ax.get_id(), t.get_id())
                if key in done:
                    continue
                done.add(key)
                new = True
                # de Bruijn: variable index k in the pattern argument list tells which bound variable it is
                vals = [None] * n
                for a, v in zip(pat.children(), t.children()):
                    vals[n - 1 - z3.get_var_index(a)] = v
                if any(v is None for v in vals):
                    continue
                insts.append(z3.substitute_vars(ax.body(), *reversed(vals)))
        if not new:
            break
    return rest + insts


def _check_ground(job):
    return _check_z3(job)


def _ti(hyps, goal):
    marker = z3.Not(goal)
    out = term_instantiate(list(hyps) + [marker])
    return [h for h in out if h.get_id() != marker.get_id()]


def ladder_pass(vcs, todo, axioms_of, ladders, timeout_ms=10000):
    """instance ladder (DESIGN 2.4): an obligation that is not decided is re-asked with size/cost parameters
    pinned to small constants, smallest first, and every integer quantifier expanded over the finite index
    range of that instance (quantifier-free query).  A `sat` instance refutes the universally quantified
    obligation; the model is a concrete (possibly unreachable) state at those sizes."""
    jobs = []
    for vc in vcs:
        if vc.result != 'unknown':
            continue
        lad = ladders.get(vc.func) or []
        for k, inst in enumerate(lad):
            hi = max(inst.values()) + 2
            pins = [z3.Int(n) == v for n, v in inst.items()]
            try:
                cache = {}
                hyps = [ground(h, -1, hi, cache) for h in list(vc.hyps) + relevant_axioms(vc.hyps, vc.goal, axioms_of.get(vc.func, ()))]
                goal = ground(vc.goal, -1, hi, cache)
                hyps = _ti(hyps, goal)
            except ValueError:
                continue
            smt2 = to_smt2(hyps + pins, goal)
            jobs.append(('%s#%d' % (vc.name, k), smt2, timeout_ms, True))
    byname = {vc.name: vc for vc in vcs}
    best = {}
    for name, res, model, ms, solver, reason in run_jobs(_check_ground, jobs, timeout_ms * WALL_FACTOR / 1000.0 + 30):
        vname, k = name.rsplit('#', 1)
        vc = byname[vname]
        vc.ms = (vc.ms or 0) + ms
        if res == 'sat' and (vname not in best or int(k) < best[vname][0]):
            best[vname] = (int(k), model, solver)
    for vname, (k, model, solver) in best.items():
        vc = byname[vname]
        vc.result, vc.model, vc.ladder, vc.solver = 'sat', model, ladders[vc.func][k], solver + '+ground-instance'


def discharge(vcs, axioms_of, tier='quick', both=False, ladders=None):
    """vcs: list of engine.VC ; axioms_of: dict func name -> list of axioms.
    Fills vc.result / vc.model / vc.ms / vc.solver in place."""
    jobs = []
    todo = {}
    for vc in vcs:
        if vc.result is not None:
            continue
        smt2 = to_smt2(vc.hyps, vc.goal, axioms_of.get(vc.func, ()))
        vc.smt2_head = smt2[-400:]
        todo[vc.name] = (vc, smt2)
        jobs.append((vc.name, smt2, Z3_TIMEOUT_MS, True))
    if not jobs:
        return
    p = pool()
    first_ms = int(os.environ.get('PYVC_Z3_FIRST_MS', '5000'))
    jobs = [(n, t, first_ms, m) for n, t, _, m in jobs]
    for name, res, model, ms, solver, reason in run_jobs(_check_z3, jobs, first_ms * WALL_FACTOR / 1000.0 + 30):
        vc, _ = todo[name]
        vc.result, vc.model, vc.ms, vc.solver, vc.reason = res, model, ms, solver, reason
    p = pool()
    # portfolio: the e-matching proofs are sensitive to the solver's internal term order; an obligation that is
    # not decided quickly is re-tried under several seeds / arithmetic back ends in parallel.  Any `unsat` is a proof.
    open_names = {n for n, (vc, _) in todo.items() if vc.result == 'unknown'}
    if open_names:
        # the z3 portfolio members and cvc5 run side by side; the first decisive verdict of an obligation is taken
        pending = []
        for name in sorted(open_names):
            vc, smt2 = todo[name]
            for k, opts in enumerate(PORTFOLIO):
                pending.append((p.apply_async(_check_z3, (('%s|%d' % (name, k), smt2, Z3_TIMEOUT_MS, True, opts),)), 'z3'))
            # the same obligation with fewer hypotheses (only an `unsat` of these counts, see focus_hyps)
            for depth in (1, 2):
                try:
                    fh = focus_hyps(vc.hyps, vc.goal, depth)
                except Exception:
                    continue
                if len(fh) < len(vc.hyps):
                    pending.append((p.apply_async(_check_z3, (('%s|focus%d' % (name, depth), to_smt2(fh, vc.goal, axioms_of.get(vc.func, ())),
                                                                Z3_TIMEOUT_MS, False),)), 'z3focus'))
            pending.append((p.apply_async(_check_cvc5, ((name + '|c', smt2, CVC5_TIMEOUT_MS, False),)), 'cvc5'))
        last_progress = time.time()
        while pending and open_names:
            still = []
            progressed = False
            for ar, kind_ in pending:
                if not ar.ready():
                    still.append((ar, kind_))
                    continue
                progressed = True
                pname, res, model, ms, solver, reason = ar.get()
                name, k = pname.rsplit('|', 1)
                vc, _ = todo[name]
                if kind_ == 'cvc5':
                    vc.second = (res, ms, solver)
                if kind_ == 'z3focus' and res != 'unsat':
                    continue                      # a model of fewer hypotheses says nothing about the obligation
                if vc.result == 'unknown' and res in ('sat', 'unsat'):
                    vc.result, vc.model, vc.reason = res, model, reason
                    vc.solver = solver if kind_ == 'cvc5' else solver + '+portfolio#%s' % k
                    vc.ms = (vc.ms or 0) + ms
                    open_names.discard(name)
            pending = still
            if progressed:
                last_progress = time.time()
            elif time.time() - last_progress > max(Z3_TIMEOUT_MS, CVC5_TIMEOUT_MS) * WALL_FACTOR / 1000.0 + 60:
                break                 # a worker died: what it was working on stays `unknown`
            else:
                time.sleep(0.05)
        if pending:
            close_pool()          # kill the members that are still running
            p = pool()
    if ladders:
        ladder_pass(vcs, todo, axioms_of, ladders)
    # second solver: for remaining unknowns always; for everything when `both`
    jobs2 = []
    for name, (vc, smt2) in todo.items():
        if (vc.result == 'unknown' and getattr(vc, 'second', None) is None) or both:
            jobs2.append((name, smt2, CVC5_TIMEOUT_MS, False))
    for name, res, model, ms, solver, reason in run_jobs(_check_cvc5, jobs2, CVC5_TIMEOUT_MS / 1000.0 + 40):
        vc, _ = todo[name]
        vc.second = (res, ms, solver)
        if vc.result == 'unknown' and res in ('sat', 'unsat'):
            vc.result, vc.solver = res, solver
            vc.ms = (vc.ms or 0) + ms
        elif both and res in ('sat', 'unsat') and vc.result in ('sat', 'unsat') and res != vc.result \
                and not getattr(vc, 'ladder', None):
            vc.reason = 'solvers disagree: z3=%s cvc5=%s' % (vc.result, res)
            vc.result = 'unknown'


def check_consistency(hyps_sets, timeout_ms=5000):
    """vacuity guard: each hypothesis set must not be refutable (unsat = contradictory assumptions)"""
    jobs = []
    for name, hyps, axioms in hyps_sets:
        s = z3.Solver()
        for a in relevant_axioms(hyps, z3.BoolVal(True), axioms):
            s.add(a)
        for h in hyps:
            s.add(h)
        jobs.append((name, s.to_smt2(), timeout_ms, False))
    out = {}
    for name, res, model, ms, solver, reason in run_jobs(_check_z3, jobs, timeout_ms * WALL_FACTOR / 1000.0 + 30):
        out[name] = res
    return out
