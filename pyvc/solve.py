"""pyvc.solve — discharge obligations with z3 (python API, worker processes) and cvc5 (CLI) as second opinion.

Every obligation is serialised to SMT-LIB text in the parent (z3 ASTs are not picklable) and checked in a
worker.  result: 'unsat' = discharged, 'sat' = refuted (model attached), 'unknown' = undecided.
"""
import multiprocessing as mp
import os
import subprocess
import tempfile
import time
import z3

Z3_TIMEOUT_MS = int(os.environ.get('PYVC_Z3_TIMEOUT_MS', '20000'))
CVC5_TIMEOUT_MS = int(os.environ.get('PYVC_CVC5_TIMEOUT_MS', '30000'))
CVC5_BIN = '/usr/bin/cvc5'


def to_smt2(hyps, goal, axioms=()):
    s = z3.Solver()
    for a in axioms:
        s.add(a)
    for h in hyps:
        s.add(h)
    s.add(z3.Not(goal))
    return s.to_smt2()


def _model_dict(m, limit=200):
    out = {}
    for d in m.decls()[:limit]:
        try:
            out[d.name()] = str(m[d])
        except Exception:
            pass
    return out


def _check_z3(job):
    name, smt2, timeout_ms, want_model = job
    t0 = time.time()
    try:
        s = z3.Solver()
        s.set('timeout', timeout_ms)
        s.from_string(smt2)
        r = s.check()
        res = str(r)
        model = None
        if r == z3.sat and want_model:
            model = _model_dict(s.model())
        reason = s.reason_unknown() if r == z3.unknown else ''
        return name, res, model, int((time.time() - t0) * 1000), 'z3-' + z3.get_version_string(), reason
    except Exception as e:   # parser problems etc. are "unknown", never a verdict
        return name, 'unknown', None, int((time.time() - t0) * 1000), 'z3', 'exception: %r' % (e,)


def _check_cvc5(job):
    name, smt2, timeout_ms, want_model = job
    t0 = time.time()
    with tempfile.NamedTemporaryFile('w', suffix='.smt2', delete=False, dir=os.environ.get('PYVC_TMP', '/var/tmp')) as f:
        f.write('(set-logic ALL)\n' + smt2)
        path = f.name
    try:
        p = subprocess.run([CVC5_BIN, '--lang=smt2', '--tlimit=%d' % timeout_ms, '--strings-exp', '--arrays-exp',
                            '--full-saturate-quant', path],
                           capture_output=True, text=True, timeout=timeout_ms / 1000 + 10)
        out = p.stdout.strip().splitlines()
        res = out[0].strip() if out else 'unknown'
        if res not in ('sat', 'unsat', 'unknown'):
            res = 'unknown'
        return name, res, None, int((time.time() - t0) * 1000), 'cvc5-1.0.3', p.stderr.strip()[:200]
    except Exception as e:
        return name, 'unknown', None, int((time.time() - t0) * 1000), 'cvc5', 'exception: %r' % (e,)
    finally:
        try:
            os.unlink(path)
        except OSError:
            pass


_pool = None


def pool():
    global _pool
    if _pool is None:
        n = int(os.environ.get('PYVC_JOBS', str(min(16, os.cpu_count() or 4))))
        _pool = mp.get_context('fork').Pool(n)
    return _pool


def close_pool():
    global _pool
    if _pool is not None:
        _pool.terminate()
        _pool = None


def discharge(vcs, axioms_of, tier='quick', both=False):
    """vcs: list of engine.VC ; axioms_of: dict func name -> list of axioms.
    Fills vc.result / vc.model / vc.ms / vc.solver in place."""
    jobs = []
    todo = {}
    for vc in vcs:
        if vc.result is not None:
            continue
        smt2 = to_smt2(vc.hyps, vc.goal, axioms_of.get(vc.func, ()))
        vc.smt2_head = smt2[-400:]
        todo[vc.name] = (vc, smt2)
        jobs.append((vc.name, smt2, Z3_TIMEOUT_MS, True))
    if not jobs:
        return
    p = pool()
    for name, res, model, ms, solver, reason in p.imap_unordered(_check_z3, jobs):
        vc, _ = todo[name]
        vc.result, vc.model, vc.ms, vc.solver, vc.reason = res, model, ms, solver, reason
    # second solver: for unknowns always; for everything when `both`
    jobs2 = []
    for name, (vc, smt2) in todo.items():
        if vc.result == 'unknown' or both:
            jobs2.append((name, smt2, CVC5_TIMEOUT_MS, False))
    for name, res, model, ms, solver, reason in p.imap_unordered(_check_cvc5, jobs2):
        vc, _ = todo[name]
        vc.second = (res, ms, solver)
        if vc.result == 'unknown' and res in ('sat', 'unsat'):
            vc.result, vc.solver = res, solver
            vc.ms = (vc.ms or 0) + ms
        elif both and res in ('sat', 'unsat') and vc.result in ('sat', 'unsat') and res != vc.result:
            vc.result = 'unknown'
            vc.reason = 'solvers disagree: z3=%s cvc5=%s' % (vc.result, res)


def check_consistency(hyps_sets, timeout_ms=5000):
    """vacuity guard: each hypothesis set must not be refutable (unsat = contradictory assumptions)"""
    jobs = []
    for name, hyps, axioms in hyps_sets:
        s = z3.Solver()
        for a in axioms:
            s.add(a)
        for h in hyps:
            s.add(h)
        jobs.append((name, s.to_smt2(), timeout_ms, False))
    out = {}
    for name, res, model, ms, solver, reason in pool().imap_unordered(_check_z3, jobs):
        out[name] = res
    return out
