"""pyvc.extract — pulls the real function out of the working tree on every run.

Nothing is copied by hand: the file is read from REPO (default /repo, env VERIF_REPO), parsed with `ast`,
and the named function / method node is returned together with the sha256 of its exact source segment.
What is dropped: decorators (@jit, @staticmethod, @classmethod), annotations, docstrings.
"""
import ast
import hashlib
import os
from .sym import Opaque

_cache = {}


def repo_root():
    return os.environ.get('VERIF_REPO', '/repo')


class FunctionInfo:
    def __init__(self, path, qualname, node, module, src, root):
        self.path, self.qualname, self.node, self.module, self.root = path, qualname, node, module, root
        self.segment = ast.get_source_segment(src, node) or ''
        self.sha = hashlib.sha256(self.segment.encode()).hexdigest()[:16]
        self.lines = (node.lineno, node.end_lineno)
        self.decorators = [ast.unparse(d) for d in getattr(node, 'decorator_list', [])]
        self._globals = None

    def resolve_global(self, name):
        """module-level names: functions/classes defined in the module, imports"""
        if self._globals is None:
            g = {}
            for n in self.module.body:
                if isinstance(n, ast.FunctionDef):
                    g[n.name] = Opaque('func:' + n.name, (self.path, n.name))
                elif isinstance(n, ast.ClassDef):
                    g[n.name] = Opaque('class:' + n.name, (self.path, n.name))
                elif isinstance(n, ast.Import):
                    for a in n.names:
                        nm = a.asname or a.name.split('.')[0]
                        full = a.name if a.asname else a.name.split('.')[0]
                        g[nm] = Opaque('np' if full == 'numpy' else full)
                elif isinstance(n, ast.ImportFrom):
                    mod = n.module or ''
                    for a in n.names:
                        nm = a.asname or a.name
                        target = self._resolve_import(mod, a.name, n.level)
                        g[nm] = target
                elif isinstance(n, (ast.Assign, ast.AnnAssign)):
                    tgts = n.targets if isinstance(n, ast.Assign) else [n.target]
                    for t in tgts:
                        if isinstance(t, ast.Name) and n.value is not None:
                            try:
                                g[t.id] = ast.literal_eval(n.value)
                            except Exception:
                                pass
                elif isinstance(n, ast.Try):
                    for sub in n.body:
                        if isinstance(sub, ast.ImportFrom):
                            for a in sub.names:
                                g[a.asname or a.name] = Opaque((sub.module or '') + '.' + a.name)
            self._globals = g
        return self._globals.get(name)

    def _resolve_import(self, mod, name, level):
        # repo-internal function?
        if level > 0:
            base = os.path.dirname(self.path)
            for _ in range(level - 1):
                base = os.path.dirname(base)
            rel = os.path.join(base, *mod.split('.')) + '.py' if mod else None
        else:
            rel = os.path.join(*mod.split('.')) + '.py' if mod else None
        if rel and os.path.exists(os.path.join(self.root, rel)):
            try:
                info = get_function(rel, name, self.root)
                return Opaque('func:' + name, (rel, name))
            except KeyError:
                return Opaque(mod + '.' + name)
        full = mod + '.' + name
        if full.startswith('numpy'):
            full = 'np' + full[5:]
        return Opaque(full)


def parse_module(path, root=None):
    root = root or repo_root()
    full = os.path.join(root, path)
    key = (full, os.path.getmtime(full))
    if key not in _cache:
        src = open(full, encoding='utf8').read()
        _cache[key] = (ast.parse(src), src)
    return _cache[key]


def get_function(path, qualname, root=None):
    root = root or repo_root()
    module, src = parse_module(path, root)
    parts = qualname.split('.')
    body = module.body
    node = None
    for i, p in enumerate(parts):
        found = None
        for n in body:
            if isinstance(n, (ast.FunctionDef, ast.ClassDef)) and n.name == p:
                found = n
        if found is None:
            raise KeyError('%s not found in %s' % (qualname, path))
        node = found
        body = found.body
    if not isinstance(node, ast.FunctionDef):
        raise KeyError('%s in %s is not a function' % (qualname, path))
    info = FunctionInfo(path, qualname, node, module, src, root)
    info.renamed = realign_locals(path, qualname, node)
    return info


# ---------------------------------------------------------------------------------------------------
# alpha-renaming of locals.  Sidecar contracts name the function's local variables (loop invariants, ghost anchors).  A
# maintainer who renames a local does not change behaviour, but the contract would no longer find its variable.  The lock
# file contracts/locals.lock.json records, per function under contract, the locals in order of first assignment as they were
# when the contract was written.  When the current function differs from that list by one-for-one replacements, the new names
# are renamed back to the old ones IN THE EXTRACTED AST before verification conditions are generated.  This is a
# behaviour-preserving transformation of the real code (checked: the old name occurs nowhere in the current function, the
# mapping is injective, only function-scope locals are touched) and every obligation is still discharged on the result; a wrong
# guess can therefore only make a proof fail, never succeed.

_LOCK = None


def ordered_locals(fn):
    """function-scope locals in order of first binding (nested defs / lambdas / comprehensions are separate scopes)"""
    out = []

    def add(name):
        if name not in out:
            out.append(name)

    def tgt(t):
        if isinstance(t, ast.Name):
            add(t.id)
        elif isinstance(t, (ast.Tuple, ast.List)):
            for e in t.elts:
                tgt(e)
        elif isinstance(t, ast.Starred):
            tgt(t.value)

    def visit(n):
        if isinstance(n, (ast.FunctionDef, ast.AsyncFunctionDef, ast.Lambda, ast.ClassDef, ast.ListComp, ast.SetComp,
                          ast.DictComp, ast.GeneratorExp)):
            return
        if isinstance(n, ast.Assign):
            visit(n.value)
            for t in n.targets:
                tgt(t)
            return
        if isinstance(n, (ast.AugAssign, ast.AnnAssign)):
            if n.value is not None:
                visit(n.value)
            tgt(n.target)
            return
        if isinstance(n, ast.NamedExpr):
            visit(n.value)
            tgt(n.target)
            return
        if isinstance(n, (ast.For, ast.AsyncFor)):
            visit(n.iter)
            tgt(n.target)
            for b in n.body + n.orelse:
                visit(b)
            return
        if isinstance(n, (ast.With, ast.AsyncWith)):
            for it in n.items:
                visit(it.context_expr)
                if it.optional_vars is not None:
                    tgt(it.optional_vars)
            for b in n.body:
                visit(b)
            return
        if isinstance(n, ast.ExceptHandler) and n.name:
            add(n.name)
        for c in ast.iter_child_nodes(n):
            visit(c)
    for stmt in fn.body:
        visit(stmt)
    params = {a.arg for a in fn.args.args + fn.args.kwonlyargs + fn.args.posonlyargs}
    if fn.args.vararg:
        params.add(fn.args.vararg.arg)
    if fn.args.kwarg:
        params.add(fn.args.kwarg.arg)
    return [x for x in out if x not in params]


def loop_shape(fn):
    """kinds of the loops of the function in pre-order (the numbering LoopSpec ordinals refer to), with nesting depth"""
    out = []

    def visit(n, depth):
        for ch in ast.iter_child_nodes(n):
            if isinstance(ch, (ast.FunctionDef, ast.Lambda)) and ch is not fn:
                continue
            if isinstance(ch, (ast.For, ast.While)):
                out.append('%s@%d' % (type(ch).__name__, depth))
                visit(ch, depth + 1)
            else:
                visit(ch, depth)
    visit(fn, 0)
    return out


def structure_changed(path, qualname, fn):
    """None, or a description of how the loop structure differs from the one the contract was written against"""
    ent = _lock().get('%s::%s' % (path, qualname))
    if not isinstance(ent, dict) or 'loops' not in ent:
        return None
    cur = loop_shape(fn)
    if cur != ent['loops']:
        return 'loops were %s, now %s' % (ent['loops'] or 'none', cur or 'none')
    return None


def _lock():
    global _LOCK
    if _LOCK is None:
        import json
        p = os.path.join(os.path.dirname(os.path.dirname(os.path.abspath(__file__))), 'contracts', 'locals.lock.json')
        try:
            _LOCK = json.load(open(p))
        except Exception:
            _LOCK = {}
    return _LOCK


def realign_locals(path, qualname, fn):
    if os.environ.get('PYVC_NO_REALIGN'):
        return {}
    old = _lock().get('%s::%s' % (path, qualname))
    if isinstance(old, dict):
        old = old.get('locals')
    if not old:
        return {}
    new = ordered_locals(fn)
    if new == old:
        return {}
    import difflib
    pairs = []
    for tag, i1, i2, j1, j2 in difflib.SequenceMatcher(None, old, new, autojunk=False).get_opcodes():
        if tag == 'replace' and i2 - i1 == j2 - j1:
            pairs += list(zip(old[i1:i2], new[j1:j2]))
        elif tag == 'replace':
            # blocks of different length (locals were also added or removed): pair, in order, names that resemble each other
            j = j1
            for o in old[i1:i2]:
                for jj in range(j, j2):
                    nw = new[jj]
                    if o in nw or nw in o or difflib.SequenceMatcher(None, o, nw).ratio() >= 0.6:
                        pairs.append((o, nw))
                        j = jj + 1
                        break
    if not pairs:
        return {}
    every = set()            # every identifier that occurs anywhere in the current function (any scope)
    inner_bound = set()      # names bound in nested scopes (parameters of nested defs / lambdas, comprehension targets)
    for n in ast.walk(fn):
        if isinstance(n, ast.Name):
            every.add(n.id)
        elif isinstance(n, ast.arg):
            every.add(n.arg)
            inner_bound.add(n.arg)
        elif isinstance(n, ast.comprehension):
            for m in ast.walk(n.target):
                if isinstance(m, ast.Name):
                    inner_bound.add(m.id)
        elif isinstance(n, (ast.Global, ast.Nonlocal)):
            inner_bound.update(n.names)
    params = {a.arg for a in fn.args.args + fn.args.kwonlyargs + fn.args.posonlyargs}
    mapping = {}
    for o, nw in pairs:
        if o in every or nw in old or nw in params or nw in inner_bound or nw in mapping or o in mapping.values():
            continue
        mapping[nw] = o
    if not mapping:
        return {}
    for n in ast.walk(fn):
        if isinstance(n, ast.Name) and n.id in mapping:
            n.id = mapping[n.id]
    return mapping
