"""pyvc.extract — pulls the real function out of the working tree on every run.

Nothing is copied by hand: the file is read from REPO (default /repo, env VERIF_REPO), parsed with `ast`,
and the named function / method node is returned together with the sha256 of its exact source segment.
What is dropped: decorators (@jit, @staticmethod, @classmethod), annotations, docstrings.
"""
import ast
import hashlib
import os
from .sym import Opaque

_cache = {}


def repo_root():
    return os.environ.get('VERIF_REPO', '/repo')


class FunctionInfo:
    def __init__(self, path, qualname, node, module, src, root):
        self.path, self.qualname, self.node, self.module, self.root = path, qualname, node, module, root
        self.segment = ast.get_source_segment(src, node) or ''
        self.sha = hashlib.sha256(self.segment.encode()).hexdigest()[:16]
        self.lines = (node.lineno, node.end_lineno)
        self.decorators = [ast.unparse(d) for d in getattr(node, 'decorator_list', [])]
        self._globals = None

    def resolve_global(self, name):
        """module-level names: functions/classes defined in the module, imports"""
        if self._globals is None:
            g = {}
            for n in self.module.body:
                if isinstance(n, ast.FunctionDef):
                    g[n.name] = Opaque('func:' + n.name, (self.path, n.name))
                elif isinstance(n, ast.ClassDef):
                    g[n.name] = Opaque('class:' + n.name, (self.path, n.name))
                elif isinstance(n, ast.Import):
                    for a in n.names:
                        nm = a.asname or a.name.split('.')[0]
                        full = a.name if a.asname else a.name.split('.')[0]
                        g[nm] = Opaque('np' if full == 'numpy' else full)
                elif isinstance(n, ast.ImportFrom):
                    mod = n.module or ''
                    for a in n.names:
                        nm = a.asname or a.name
                        target = self._resolve_import(mod, a.name, n.level)
                        g[nm] = target
                elif isinstance(n, (ast.Assign, ast.AnnAssign)):
                    tgts = n.targets if isinstance(n, ast.Assign) else [n.target]
                    for t in tgts:
                        if isinstance(t, ast.Name) and n.value is not None:
                            try:
                                g[t.id] = ast.literal_eval(n.value)
                            except Exception:
                                pass
                elif isinstance(n, ast.Try):
                    for sub in n.body:
                        if isinstance(sub, ast.ImportFrom):
                            for a in sub.names:
                                g[a.asname or a.name] = Opaque((sub.module or '') + '.' + a.name)
            self._globals = g
        return self._globals.get(name)

    def _resolve_import(self, mod, name, level):
        # repo-internal function?
        if level > 0:
            base = os.path.dirname(self.path)
            for _ in range(level - 1):
                base = os.path.dirname(base)
            rel = os.path.join(base, *mod.split('.')) + '.py' if mod else None
        else:
            rel = os.path.join(*mod.split('.')) + '.py' if mod else None
        if rel and os.path.exists(os.path.join(self.root, rel)):
            try:
                info = get_function(rel, name, self.root)
                return Opaque('func:' + name, (rel, name))
            except KeyError:
                return Opaque(mod + '.' + name)
        full = mod + '.' + name
        if full.startswith('numpy'):
            full = 'np' + full[5:]
        return Opaque(full)


def parse_module(path, root=None):
    root = root or repo_root()
    full = os.path.join(root, path)
    key = (full, os.path.getmtime(full))
    if key not in _cache:
        src = open(full, encoding='utf8').read()
        _cache[key] = (ast.parse(src), src)
    return _cache[key]


def get_function(path, qualname, root=None):
    root = root or repo_root()
    module, src = parse_module(path, root)
    parts = qualname.split('.')
    body = module.body
    node = None
    for i, p in enumerate(parts):
        found = None
        for n in body:
            if isinstance(n, (ast.FunctionDef, ast.ClassDef)) and n.name == p:
                found = n
        if found is None:
            raise KeyError('%s not found in %s' % (qualname, path))
        node = found
        body = found.body
    if not isinstance(node, ast.FunctionDef):
        raise KeyError('%s in %s is not a function' % (qualname, path))
    return FunctionInfo(path, qualname, node, module, src, root)
