"""pyvc.engine — forward symbolic execution of real Python source (ast) producing verification conditions.

One `Exec` object handles one function of /repo under one sidecar contract.  The function's source is
re-read from the working tree on every run (pyvc.extract).  See DESIGN.md §2 for the obligation kinds.
"""
import ast
import copy
import z3
from .sym import *
from .arrays import *
from . import lib


class VC:
    def __init__(self, name, kind, hyps, goal, line, func, note=''):
        self.name, self.kind, self.hyps, self.goal = name, kind, list(hyps), goal
        self.line, self.func, self.note = line, func, note
        self.expect = 'unsat'          # 'sat' for cover obligations
        self.result = None
        self.model = None
        self.ms = None
        self.solver = None
        self.ladder = None

    def __repr__(self):
        return 'VC(%s)' % self.name


class State:
    def __init__(self):
        self.env = {}
        self.store = {}        # buf id -> ArrayVal (contents of mutable buffers)
        self.heap = {}         # field name -> (z3 Array Int->sort, codec)
        self.pc = []
        self.ghost = {}
        self.alloc = []        # refs allocated so far (distinct from each other)
        self.old = None        # entry state (for old(...))
        self.pyfields = {}     # (object term, field) -> python-level value (lists / dicts held by un-aliased objects)

    def copy(self):
        s = State()
        s.env = dict(self.env)
        s.store = dict(self.store)
        s.heap = dict(self.heap)
        s.pc = list(self.pc)
        s.ghost = dict(self.ghost)
        s.alloc = list(self.alloc)
        s.old = self.old
        s.pyfields = dict(self.pyfields)
        return s

    def assume(self, c):
        if c is True:
            return
        self.pc.append(to_z3(c))


class Closure:
    def __init__(self, node, env_ref, ex):
        self.node, self.env_ref, self.ex = node, env_ref, ex


class BoundMethod:
    def __init__(self, obj, name):
        self.obj, self.name = obj, name


class LoopSpec:
    def __init__(self, counter=None, inv=(), variant=None, havoc=None, unroll=None, exit_assume=(), modifies=None,
                 ghost_init=(), ghost_pre=(), ghost_post=(), types=None, iter_name=None, uses=None, carry=None):
        # carry: list of spec texts.  When given, the loop is analysed behind a cut: each text is proved in the state before the
        # loop (obligation carry#k.i) and from then on ONLY the function's preconditions and these facts are known (plus the loop
        # invariants); everything else learnt before the loop is forgotten.  Forgetting is sound; it keeps the hypotheses of the
        # loop obligations (and of what follows the loop) few.
        self.carry = None if carry is None else list(carry)
        # inv entries: 'text' or ('name', 'text').  uses: invariant name -> names of the invariants that may be used as
        # hypotheses (at the loop head and from the sequential cut) when its preservation is proved; the others are dropped
        # from that obligation (dropping hypotheses is sound; it keeps the solver's search small and stable)
        self.uses = uses or {}
        self.inv_names = [e[0] if isinstance(e, tuple) else str(i) for i, e in enumerate(inv)]
        inv = [e[1] if isinstance(e, tuple) else e for e in inv]
        self.iter_name = iter_name           # ghost name under which the iterated sequence is visible to the invariants
        self.ghost_init = list(ghost_init)   # ghost assignments executed once before the loop
        self.ghost_pre = list(ghost_pre)     # ... at the start of every iteration
        self.ghost_post = list(ghost_post)   # ... at the end of every iteration (before the invariant is re-checked)
        self.types = types or {}             # variable -> 'real' | 'int': sort used when the variable is havocked
        self.modifies = modifies or {}  # buffer variable -> spec lambda over indices: region that may be written
                                        # while the loop runs (frame: everything else keeps its pre-loop content)
        self.counter = counter          # ghost name of the iteration counter
        self.inv = list(inv)            # spec expressions (strings)
        self.variant = variant          # spec expression (string) that must decrease and stay >= 0
        self.havoc = havoc              # extra names to havoc
        self.unroll = unroll            # bounded mode: unroll this many times at most
        self.exit_assume = list(exit_assume)


class Contract:
    def __init__(self, params=None, requires=(), ensures=(), raises=None, loops=None, theory=None,
                 inline=(), opaque=(), ghosts=None, public_ensures=(), modifies=(), result=None,
                 fields=None, pure=True, frame=(), no_raise=False, mode='unbounded', defaults=None,
                 ensures_exc=None, result_kind=None, notes='', ladder=None, lemmas=None, ghost_at=None, ghost_entry=(), replace=None, ghost_before=None):
        self.replace = replace or {}        # source-text prefix of a statement -> ghost statements that stand in for it (assumed effect)
        self.ghost_entry = list(ghost_entry)  # ghost statements executed at function entry (after the preconditions are assumed)
        self.ghost_at = ghost_at or {}      # source-text prefix of a statement -> ghost statements executed right after it
        self.ghost_before = ghost_before or {}   # ... right before it
        self.replace_optional = ()               # keys of `replace` that need not match (set after construction)
        self.ladder = ladder or []
        self.lemmas = lemmas or []          # inductive lemmas proved at the return point (see Exec.prove_lemmas)
        self.params = params or {}
        self.requires = list(requires)
        self.ensures = list(ensures)
        self.public_ensures = list(public_ensures)   # usable by callers (closed over params/result)
        self.raises = raises or {}                   # ExcName -> spec condition over entry values: raised => cond
        self.ensures_exc = ensures_exc or {}         # ExcName -> 'iff' cond: normal return => not cond
        self.loops = loops or {}
        self.theory = theory                        # callable(ex, st) -> (dict of spec names, [axioms])
        self.inline = set(inline)
        self.opaque = set(opaque)
        self.ghosts = ghosts or {}
        self.modifies = list(modifies)
        self.result = result                        # callable(ex, st, args) -> fresh result value for call sites
        self.fields = fields or {}
        self.frame = list(frame)
        self.no_raise = no_raise
        self.mode = mode
        self.defaults = defaults or {}
        self.result_kind = result_kind
        self.notes = notes


class Outcome:
    NORMAL, RETURN, RAISE, BREAK, CONTINUE = 'normal', 'return', 'raise', 'break', 'continue'


class Exec:
    def __init__(self, fn_info, contract, registry=None, name=None):
        """fn_info: pyvc.extract.FunctionInfo (ast node, module ast, path, qualname)"""
        self.fn = fn_info
        self.contract = contract
        self.registry = registry or {}
        import pyvc.sym as _sym
        _sym.VAL_TRUTHY[0] = contract.ghosts.get('truthy_val')
        self.name = name or fn_info.qualname
        self.vcs = []
        self.axioms = []
        self.vacuous = []          # vacuity guard: reasons why the proof would be empty
        self.ghost_at_hits = set()
        self.unassumed_lemmas = set()      # names of cut lemmas that are checked but not used (see run.verify: refuted-lemma replay)
        self.feasible_paths = 0
        self.spec_funcs = {}
        self.havocked = []
        self.assumed = []          # textual list of assumptions used (opaque calls, models)
        self._loop_iter = {}
        if getattr(fn_info, 'renamed', None):
            self.assumed.append('extraction: locals alpha-renamed to the names the contract was written with (%s); the old names occur '
                                'nowhere in the current function' % ', '.join('%s -> %s' % kv for kv in sorted(fn_info.renamed.items())))
        self.loop_ord = 0
        self.spec_mode = 0
        self.covers = []
        self.loop_nodes = self._number_loops(fn_info.node)
        self.feas = z3.Solver()
        self.feas.set('timeout', 300)
        self.path_count = 0
        self.unsupported = None
        self.pending_defs = []
        self.spec_role = 'goal'

    # ---------------------------------------------------------------------------------------
    def _number_loops(self, fnode):
        res = {}
        k = 0
        for n in ast.walk(fnode):
            pass
        # pre-order numbering of For/While (source order)

        def visit(n):
            nonlocal k
            for ch in ast.iter_child_nodes(n):
                if isinstance(ch, (ast.FunctionDef, ast.Lambda)) and ch is not fnode:
                    continue
                if isinstance(ch, (ast.For, ast.While)):
                    res[id(ch)] = k
                    k += 1
                visit(ch)
        visit(fnode)
        return res

    # ---------------------------------------------------------------------------------------
    # obligations

    def emit(self, st, kind, goal, node=None, note='', extra_hyps=(), drop_hyps=None):
        if self.spec_mode:
            return
        line = getattr(node, 'lineno', 0) if node is not None else 0
        if goal is True:
            goal = z3.BoolVal(True)
        elif goal is False:
            goal = z3.BoolVal(False)
        g = z3.simplify(goal)
        name = '%s/%s@L%d' % (self.name, kind, line)
        n = sum(1 for v in self.vcs if v.name.split('~')[0] == name)
        if n:
            name = '%s~%d' % (name, n)
        pc = list(st.pc) if not drop_hyps else [h for h in st.pc if h.get_id() not in drop_hyps]
        vc = VC(name, kind, pc + list(extra_hyps), g, line, self.name, note)
        if z3.is_true(g):
            vc.result = 'unsat'
            vc.solver = 'simplifier'
            vc.ms = 0
        self.vcs.append(vc)
        return vc

    def emit_all(self, st, kind, obls, node):
        if self.spec_mode:
            return
        for c, what in obls:
            if c is True:
                continue
            self.emit(st, kind, c if c is not False else z3.BoolVal(False), node, what)
            # after checking, the condition may be assumed on this path
            if c is not False:
                st.assume(c)

    def feasible(self, st, extra=None):
        self.feas.push()
        try:
            for h in st.pc:
                self.feas.add(h)
            if extra is not None:
                self.feas.add(to_z3(extra))
            r = self.feas.check()
            return r != z3.unsat
        finally:
            self.feas.pop()

    # ---------------------------------------------------------------------------------------
    # entry point

    def run(self):
        st = State()
        fnode = self.fn.node
        if self.contract.loops:
            from .extract import structure_changed
            why = structure_changed(self.fn.path, self.fn.qualname, fnode)
            if why:
                # loop contracts are keyed by loop ordinal: with a different loop structure they would be attached to the wrong
                # loops and any refutation would be meaningless
                raise Unsupported('the loop structure of the function changed since its contract was written (%s): '
                                  'the loop contracts need re-anchoring' % why)
        self.bind_params(st, fnode)
        st.old = st.copy()
        if self.contract.theory is not None:
            names, axioms = self.contract.theory(self, st)
            self.spec_funcs.update(names)
            self.axioms.extend(axioms)
        for r in self.contract.requires:
            st.assume(self.eval_spec(r, st, role='hyp'))
        if not self.feasible(st):
            self.vacuous.append('the preconditions (with the theory) are contradictory')
        self.entry = st.copy()
        if getattr(self.contract, 'ghost_entry', None):
            self.exec_ghost(self.contract.ghost_entry, st, fnode)
        if self.contract.frame:
            stored = set()
            for n in ast.walk(fnode):
                tg = []
                if isinstance(n, ast.Assign):
                    tg = n.targets
                elif isinstance(n, (ast.AugAssign, ast.AnnAssign)):
                    tg = [n.target]
                elif isinstance(n, ast.Call) and isinstance(n.func, ast.Name) and n.func.id in ('setattr', 'delattr'):
                    stored.add('<setattr>')
                elif isinstance(n, ast.Delete):
                    tg = n.targets
                for t in tg:
                    for e in ast.walk(t):
                        if isinstance(e, ast.Attribute) and isinstance(e.ctx, (ast.Store, ast.Del)):
                            stored.add(e.attr)
            extra = sorted(stored - set(self.contract.frame))
            vc = self.emit(st, 'frame-fields', z3.BoolVal(not extra), fnode,
                           'object fields assigned in the body %s are within the declared frame %s'
                           % (sorted(stored), sorted(self.contract.frame)))
            if extra and vc is not None:
                vc.result, vc.solver, vc.ms = 'sat', 'syntactic-scan', 0
                vc.model = {'fields assigned outside the frame': extra}
        outs = self.exec_block(fnode.body, st)
        for s, oc in outs:
            self.finish_path(s, oc, fnode)
        if self.feasible_paths == 0:
            self.vacuous.append('no path through the function is feasible under the contract')
        for pat in getattr(self.contract, 'ghost_before', {}):
            if 'before:' + pat not in self.ghost_at_hits:
                raise Unsupported('ghost anchor %r matches no statement of the function (the code moved: contract needs re-anchoring)' % pat)
        for pat in getattr(self.contract, 'replace', {}):
            if pat in getattr(self.contract, 'replace_optional', ()):
                continue      # a statement that is dropped when present (no effect on the proved clauses); it may have been inlined away
            if 'replace:' + str(pat) not in self.ghost_at_hits:
                raise Unsupported('replacement anchor %r matches no statement of the function (the code moved: contract needs re-anchoring)' % pat)
        for k_, (ln_, ok_) in sorted(self._loop_iter.items()):
            if not ok_:
                self.vacuous.append('loop #%d (line %d): no iteration is possible under the invariants' % (k_, ln_))
        for pat in self.contract.ghost_at:
            if pat not in self.ghost_at_hits:
                raise Unsupported('ghost anchor %r matches no statement of the function (the code moved: contract needs re-anchoring)' % pat)
        return self.vcs

    def finish_path(self, s, oc, fnode):
        self.path_count += 1
        if self.feasible(s):
            self.feasible_paths += 1
        if oc is None or oc[0] == Outcome.NORMAL:
            oc = (Outcome.RETURN, None, fnode)
        if oc[0] == Outcome.RETURN:
            s.env['result'] = oc[1]
            node = oc[2]
            self.prove_lemmas(s, node)
            cut = []
            for i, e in enumerate(self.contract.ensures):
                self.emit(s, 'post#%d' % i, self.eval_spec(e, s), node,
                          e if isinstance(e, str) else (getattr(e, '__doc__', None) or 'postcondition given as a function in the contract file'),
                          extra_hyps=cut)
                if isinstance(e, str):
                    cut = cut + [to_z3(self.eval_spec(e, s, role='hyp'))]
            for exc, cond in self.contract.ensures_exc.items():
                self.emit(s, 'post-noexc:%s' % exc, bnot(self.eval_spec(cond, s, entry=True)), node,
                          'normal return implies not (%s)' % cond)
        elif oc[0] == Outcome.RAISE:
            exc, node = oc[1], oc[2]
            if exc in self.contract.raises:
                cond = self.contract.raises[exc]
                self.emit(s, 'post-exc:%s' % exc, self.eval_spec(cond, s, entry=True), node,
                          'raise %s only if %s' % (exc, cond))
            else:
                self.emit(s, 'no-raise:%s' % exc, z3.BoolVal(False), node, 'unexpected raise of %s' % exc)
        else:
            raise Unsupported('loop control outside loop')

    def prove_lemmas(self, s, node):
        """inductive lemmas at the return point: for `forall k in [lo, hi]: stmt(k)` the obligations are the base case and the
        step for an arbitrary k (up: stmt(k) => stmt(k+1); down: stmt(k) => stmt(k-1)); the induction scheme itself is trusted.
        A proved lemma is available (as a quantified hypothesis) to the later lemmas and to the postconditions."""
        facts = {}      # lemma name -> formulas it contributed to the path condition
        full = s
        for lem in self.contract.lemmas:
            s = full
            if 'uses' in lem:
                # hypothesis selection: of the earlier lemmas only the named ones are visible (fewer quantifiers, steadier proofs)
                hide = [g for nm, gs in facts.items() if nm not in lem['uses'] for g in gs]
                s = full.copy()
                s.pc = [f for f in full.pc if not any(f is g for g in hide)]
            n_before = len(full.pc)
            self._prove_lemma(lem, s, node, full)
            facts[lem['name']] = full.pc[n_before:]

    def _prove_lemma(self, lem, s, node, full):
        for lem in [lem]:
            needs = lem.get('needs', ())
            if any('spec:' + nm not in s.ghost for nm in needs):
                continue        # the lemma talks about ghost functions this path never created (e.g. an early return)
            for nm in needs:
                self.spec_funcs[nm] = s.ghost['spec:' + nm]      # this path's instance, not a stale one
            if 'var' not in lem:
                # plain cut lemma at the return point (no induction): proved from the path facts, then available
                vc = self.emit(s, 'lemma:%s' % lem['name'], self.eval_spec(lem['stmt'], s), node, lem['stmt'])
                if vc is None or vc.name not in self.unassumed_lemmas:
                    full.assume(self.eval_spec(lem['stmt'], s, role='hyp'))
                continue
            var, direction = lem['var'], lem.get('direction', 'up')
            lo = self.eval_spec_value(lem['lo'], s)
            hi = self.eval_spec_value(lem['hi'], s)
            nonempty = to_z3(s_le(lo, hi))
            base_at = lo if direction == 'up' else hi
            s0 = s.copy()
            s0.assume(nonempty)
            self.emit(s0, 'lemma:%s/base' % lem['name'], self.eval_spec(lem['stmt'], s0, extra={var: base_at}), node, lem['stmt'])
            k = z3.Int(fresh_name(var))
            s1 = s.copy()
            if direction == 'up':
                s1.assume(z3.And(to_z3(s_le(lo, k)), to_z3(s_lt(k, hi))))
                nxt = k + 1
            else:
                s1.assume(z3.And(to_z3(s_lt(lo, k)), to_z3(s_le(k, hi))))
                nxt = k - 1
            s1.assume(self.eval_spec(lem['stmt'], s1, extra={var: k}, role='hyp'))
            for n_, fact in enumerate(lem.get('step_facts', ())):
                # cut inside the step: a fact about the arbitrary k (typically a ground fact of a background theory that
                # the step needs as a term), proved first, then available to the step
                self.emit(s1, 'lemma:%s/step-fact#%d' % (lem['name'], n_), self.eval_spec(fact, s1, extra={var: k}), node, fact)
                s1.assume(self.eval_spec(fact, s1, extra={var: k}, role='hyp'))
            self.emit(s1, 'lemma:%s/step' % lem['name'], self.eval_spec(lem['stmt'], s1, extra={var: nxt}), node, lem['stmt'])
            q = z3.Int(fresh_name(var))
            body = self.eval_spec(lem['stmt'], s, extra={var: q}, role='hyp')
            from . import lib as _lib
            pats = _lib.infer_patterns(to_z3(body), [q])
            guard = z3.And(to_z3(s_le(lo, q)), to_z3(s_le(q, hi)))
            try:
                allq = z3.ForAll([q], z3.Implies(guard, to_z3(body)), patterns=pats) if pats else z3.ForAll([q], z3.Implies(guard, to_z3(body)))
            except z3.Z3Exception:
                allq = z3.ForAll([q], z3.Implies(guard, to_z3(body)))
            full.assume(allq)
            # the end-point instance, stated explicitly: the bound variable often occurs only in arithmetic guards,
            # where E-matching has no term to instantiate it with
            end = hi if direction == 'up' else lo
            full.assume(z3.Implies(to_z3(s_le(lo, hi)), to_z3(self.eval_spec(lem['stmt'], s, extra={var: to_int(end)}, role='hyp'))))
            self.assumed.append('induction scheme for lemma %s (base and step are proved obligations)' % lem['name'])

    # ---------------------------------------------------------------------------------------
    # parameters

    def bind_params(self, st, fnode):
        args = fnode.args
        names = [a.arg for a in args.args] + [a.arg for a in args.kwonlyargs]
        defaults = {}
        pos = args.args
        for a, d in zip(pos[len(pos) - len(args.defaults):], args.defaults):
            defaults[a.arg] = d
        for a, d in zip(args.kwonlyargs, args.kw_defaults):
            if d is not None:
                defaults[a.arg] = d
        for n in names:
            spec = self.contract.params.get(n)
            if spec is None:
                if n in defaults:
                    try:
                        st.env[n] = ast.literal_eval(defaults[n])
                        continue
                    except Exception:
                        pass
                if n in ('self', 'cls'):
                    st.env[n] = ObjRef(z3.Int(fresh_name('self')), None)
                    continue
                raise Unsupported('parameter %s has no type in the contract' % n)
            st.env[n] = self.make_param(st, n, spec)
        for n in names:
            # entry value of every parameter under the name <param>_0 (parameters are mutable locals in Python)
            if n in st.env and n + '_0' not in st.env:
                st.env[n + '_0'] = st.env[n]

    def make_param(self, st, n, spec):
        if callable(spec):
            return spec(self, st, n)
        if spec == 'int':
            return z3.Int(n)
        if spec == 'nat':
            v = z3.Int(n)
            st.assume(v >= 0)
            return v
        if spec == 'real':
            return z3.Real(n)
        if spec == 'xreal':
            return XReal.fresh(n)
        if spec == 'bool':
            return z3.Bool(n)
        if spec == 'sym':
            return z3.Const(n, Sym)
        if spec == 'val':
            return z3.Const(n, Val)
        if spec.startswith('const:'):
            return ast.literal_eval(spec[6:])
        if spec.startswith('seq:'):
            # immutable python sequence of symbolic length
            dt = spec[4:]
            ln = z3.Int('len_' + n)
            st.assume(ln >= 0)
            rng = {'sym': Sym, 'int': z3.IntSort(), 'real': z3.RealSort(), 'bool': z3.BoolSort()}[dt]
            f = z3.Function(n, z3.IntSort(), rng)
            return ArrayVal((ln,), lambda i: f(to_int(i)), dt)
        if spec.startswith('seqof:list:'):
            # immutable python sequence (symbolic length) of lists/strings modelled as z3 sequences
            dt = spec[11:]
            cod = {'sym': SymCodec, 'int': IntCodec, 'real': RealCodec, 'val': ValCodec}[dt]
            ln = z3.Int('len_' + n)
            st.assume(ln >= 0)
            f = z3.Function(n, z3.IntSort(), z3.SeqSort(cod.sort))
            return ArrayVal((ln,), lambda i: SeqVal(f(to_int(i)), cod), 'obj')
        if spec.startswith('list:'):
            dt = spec[5:]
            cod = {'sym': SymCodec, 'int': IntCodec, 'real': RealCodec, 'val': ValCodec}[dt]
            return SeqVal(z3.Const(n, z3.SeqSort(cod.sort)), cod)
        if spec.startswith('nd'):
            # nd1:real  nd2:xreal  -> fresh mutable buffer with symbolic shape
            rank = int(spec[2])
            dt = spec.split(':')[1]
            shape = tuple(z3.Int('%s_shape%d' % (n, k)) for k in range(rank))
            for s in shape:
                st.assume(s >= 0)
            buf = fresh_name('buf_' + n)
            st.store[buf] = fresh_array(shape, dt, n)
            return NDRef(buf, [Dim(None, 0, 1, s) for s in shape])
        if spec.startswith('obj'):
            r = z3.Int(n)
            st.alloc.append(r)
            return ObjRef(r, spec[4:] if ':' in spec else None)
        raise Unsupported('parameter spec %r' % spec)

    # ---------------------------------------------------------------------------------------
    # specification expressions

    def eval_spec(self, text, st, entry=False, extra=None, role='goal'):
        """role 'hyp': the formula will be assumed; 'goal': it will be proved.  Definitional instances of the
        spec functions that occur are conjoined (hyp) / put in front as antecedent (goal)."""
        if callable(text):
            return text(self, st)
        node = ast.parse(text, mode='eval').body
        s = st
        if entry:
            s = self.entry.copy()
            s.pc = st.pc
        if extra:
            s = s.copy()
            s.env.update(extra)
        self.spec_mode += 1
        old_role = self.spec_role
        self.spec_role = role
        self.pending_defs.append([])
        try:
            v = self.eval(node, s)
            t = truthy(v)
        finally:
            defs = self.pending_defs.pop()
            self.spec_mode -= 1
            self.spec_role = old_role
        return self.wrap_defs(defs, t, role)

    def wrap_defs(self, defs, body, role):
        defs = [d for d in defs if d is not True]
        if not defs:
            return body
        d = z3.And(*[to_z3(x) for x in defs]) if len(defs) > 1 else to_z3(defs[0])
        if role == 'hyp':
            return z3.And(d, to_z3(body))
        return z3.Implies(d, to_z3(body))

    def eval_spec_value(self, text, st, extra=None):
        node = ast.parse(text, mode='eval').body
        s = st
        if extra:
            s = s.copy()
            s.env.update(extra)
        self.spec_mode += 1
        try:
            return self.eval(node, s)
        finally:
            self.spec_mode -= 1

    # ---------------------------------------------------------------------------------------
    # statements

    def exec_block(self, stmts, st):
        """returns list of (state, outcome) ; outcome None = fell through"""
        states = [(st, None)]
        for stmt in stmts:
            nxt = []
            for s, oc in states:
                if oc is not None:
                    nxt.append((s, oc))
                    continue
                nxt.extend(self.exec_stmt(stmt, s))
            states = nxt
            if len(states) > 4000:
                raise Unsupported('path explosion (%d paths)' % len(states))
        return states

    def exec_stmt(self, node, st):
        m = getattr(self, 'stmt_' + type(node).__name__, None)
        if m is None:
            raise Unsupported('statement %s at line %d' % (type(node).__name__, node.lineno))
        if getattr(self.contract, 'replace', None) and not self.spec_mode:
            src = ast.unparse(node)
            for pat, stmts in self.contract.replace.items():
                if src.startswith(pat):       # pat: a prefix, or a tuple of alternative prefixes (str.startswith accepts both)
                    # the statement is outside the modelled subset: it is dropped and the listed ghost statements stand in
                    self.ghost_at_hits.add('replace:' + str(pat))
                    self.assumed.append('statement at line %d replaced by its assumed effect (%s): %s' % (node.lineno, '; '.join(stmts) or 'no effect on the proved clauses', pat))
                    self.exec_ghost(stmts, st, node)
                    return [(st, None)]
        if getattr(self.contract, 'ghost_before', None) and not self.spec_mode and isinstance(node, (ast.Assign, ast.Expr, ast.AugAssign)):
            src = ast.unparse(node)
            for pat, stmts in self.contract.ghost_before.items():
                if src.startswith(pat):
                    self.ghost_at_hits.add('before:' + pat)
                    self.exec_ghost(stmts, st, node)      # ghost statements executed right BEFORE the anchored statement
        outs = m(node, st)
        if self.contract.ghost_at and not self.spec_mode and isinstance(node, (ast.Assign, ast.Expr, ast.AugAssign)):
            src = ast.unparse(node)
            for pat, stmts in self.contract.ghost_at.items():
                if src.startswith(pat):
                    self.ghost_at_hits.add(pat)
                    for s2, oc in outs:
                        if oc is None:
                            self.exec_ghost(stmts, s2, node)
        return outs

    def stmt_Expr(self, node, st):
        if isinstance(node.value, ast.Constant):
            return [(st, None)]      # docstring
        if isinstance(node.value, ast.Call):
            f = node.value.func
            nm = f.id if isinstance(f, ast.Name) else (f.attr if isinstance(f, ast.Attribute) else None)
            if nm == 'print' or (isinstance(f, ast.Attribute) and isinstance(f.value, ast.Name)
                                 and f.value.id in ('logging', 'logger', 'warnings')):
                return [(st, None)]
            if nm in ('exit',) or (isinstance(f, ast.Attribute) and f.attr == 'exit'):
                return [(st, (Outcome.RAISE, 'SystemExit', node))]
            if isinstance(f, ast.Attribute) and isinstance(f.value, ast.Name) and f.attr == 'append' \
                    and isinstance(st.env.get(f.value.id), PyList):
                pl = st.env[f.value.id]
                old = st.store[pl.buf]
                x = self.eval(node.value.args[0], st)
                n = old.shape[0]
                new = ArrayVal((s_add(n, 1),), lambda i, old=old, n=n, x=x: merge_obj(to_z3(s_eq(i, n)), x, old.get(i))
                               if s_eq(i, n) is not True and s_eq(i, n) is not False else (x if s_eq(i, n) is True else old.get(i)), old.dtype)
                new.elem = getattr(old, 'elem', None)
                st.store[pl.buf] = new
                return [(st, None)]
            if isinstance(f, ast.Attribute) and isinstance(f.value, ast.Name) and f.attr == 'extend' \
                    and isinstance(st.env.get(f.value.id), SeqVal) and len(node.value.args) == 1:
                # xs.extend(ys) is xs += ys
                cur = st.env[f.value.id]
                other = self.eval(node.value.args[0], st)
                st.env[f.value.id] = self.binop(ast.Add(), cur, other, st, node)
                return [(st, None)]
            if isinstance(f, ast.Attribute) and isinstance(f.value, ast.Name) and f.attr in ('append', 'insert') \
                    and isinstance(st.env.get(f.value.id), SeqVal):
                # list mutation on a z3-Seq modelled list (value semantics: the list must not be aliased)
                cur = st.env[f.value.id]
                args = [self.eval(a, st) for a in node.value.args]
                if f.attr == 'append':
                    st.env[f.value.id] = SeqVal(z3.Concat(cur.s, z3.Unit(cur.elem.pack(args[0]))), cur.elem)
                else:
                    if not (is_conc_num(args[0]) and args[0] == 0):
                        raise Unsupported('list.insert at a position other than 0')
                    st.env[f.value.id] = SeqVal(z3.Concat(z3.Unit(cur.elem.pack(args[1])), cur.s), cur.elem)
                return [(st, None)]
        self.eval(node.value, st)
        return [(st, None)]

    def stmt_Pass(self, node, st):
        return [(st, None)]

    def stmt_Assert(self, node, st):
        c = truthy(self.eval(node.test, st))
        self.emit(st, 'assert', to_z3(c), node, 'in-code assert')
        st.assume(c)
        return [(st, None)]

    def stmt_Return(self, node, st):
        v = self.eval(node.value, st) if node.value is not None else None
        return [(st, (Outcome.RETURN, v, node))]

    def stmt_Raise(self, node, st):
        exc = node.exc
        name = 'Exception'
        if isinstance(exc, ast.Call):
            exc = exc.func
        if isinstance(exc, ast.Name):
            name = exc.id
        elif isinstance(exc, ast.Attribute):
            name = exc.attr
        return [(st, (Outcome.RAISE, name, node))]

    def stmt_Break(self, node, st):
        return [(st, (Outcome.BREAK, None, node))]

    def stmt_Continue(self, node, st):
        return [(st, (Outcome.CONTINUE, None, node))]

    def truth_of_test(self, test, st):
        if isinstance(test, ast.Name) and test.id in self.contract.ghosts.get('listlike', ()):
            return bnot(s_eq(lib._len(self, st, st.env[test.id], test), 0))       # a python list: truthy iff non-empty
        return truthy(self.eval(test, st))

    def stmt_If(self, node, st):
        c = self.truth_of_test(node.test, st)
        if c is True:
            return self.exec_block(node.body, st)
        if c is False:
            return self.exec_block(node.orelse, st)
        c = to_z3(c)
        res = []
        s1 = st.copy()
        s1.assume(c)
        if self.feasible(s1):
            self.covers.append((node.lineno, 'then'))
            res.extend(self.exec_block(node.body, s1))
        s2 = st
        s2.assume(z3.Not(c))
        if self.feasible(s2):
            self.covers.append((node.lineno, 'else'))
            res.extend(self.exec_block(node.orelse, s2))
        return res

    def inline_target(self, call, st):
        """(key, receiver) when `call` invokes a user function / method that the contract asks to inline"""
        f = call.func
        if isinstance(f, ast.Attribute):
            m = self.contract.ghosts.get('inline_method:' + f.attr)
            if m is not None:
                return m, f.value
            return None
        if isinstance(f, ast.Name) and f.id not in st.env:
            g = self.fn.resolve_global(f.id)
            if isinstance(g, Opaque) and g.name.startswith('func:') and (f.id in self.contract.inline) and g.payload not in self.registry:
                return g.payload, None
        return None

    def inline_paths(self, call, st):
        """execute an inlined callee with path splitting: list of (state, return value, raise-outcome or None)"""
        tgt = self.inline_target(call, st)
        if tgt is None:
            return None
        from .extract import get_function
        key, recv = tgt
        info = get_function(key[0], key[1], root=self.fn.root)
        fn = info.node
        args = ([self.eval(recv, st)] if recv is not None else []) + [self.eval(a, st) for a in call.args]
        kwargs = {k.arg: self.eval(k.value, st) for k in call.keywords}
        sub = Exec.__new__(Exec)
        sub.__dict__.update(self.__dict__)
        sub.fn = info
        sub.loop_nodes = sub._number_loops(fn)
        inl = self.contract.ghosts.get('inline:' + key[1].split('.')[-1])
        if inl is not None:
            sub.contract = inl
        else:
            sub.contract = copy.copy(self.contract)
            sub.contract.loops = {}
        params = [a.arg for a in fn.args.args]
        vals = list(args)
        defaults = fn.args.defaults
        for p_ in params[len(vals):]:
            if p_ in kwargs:
                vals.append(kwargs[p_])
            else:
                idx = params.index(p_) - (len(params) - len(defaults))
                if idx < 0:
                    raise Unsupported('missing argument %s in inline call' % p_)
                vals.append(ast.literal_eval(defaults[idx]))
        caller_env = st.env
        s = st.copy()
        s.env = dict(zip(params, vals))
        res = []
        for s2, oc in sub.exec_block(fn.body, s):
            s2.env = dict(caller_env)
            if oc is None:
                res.append((s2, None, None))
            elif oc[0] == Outcome.RETURN:
                res.append((s2, oc[1], None))
            elif oc[0] == Outcome.RAISE:
                res.append((s2, None, oc))
            else:
                raise Unsupported('inlined callee outcome %s' % oc[0])
        return res

    def stmt_Assign(self, node, st):
        if isinstance(node.value, ast.Call) and not self.spec_mode:
            res = self.inline_paths(node.value, st)
            if res is not None:
                out = []
                for s2, v, oc in res:
                    if oc is not None:
                        out.append((s2, oc))
                        continue
                    for t in node.targets:
                        self.assign(t, v, s2)
                    out.append((s2, None))
                return out
        v = self.eval(node.value, st)
        for t in node.targets:
            self.assign(t, v, st)
        return [(st, None)]

    def stmt_AnnAssign(self, node, st):
        if node.value is not None:
            self.assign(node.target, self.eval(node.value, st), st)
        return [(st, None)]

    def stmt_AugAssign(self, node, st):
        cur = self.eval(node.target, st)
        rhs = self.eval(node.value, st)
        if isinstance(cur, NDRef) and isinstance(node.target, ast.Name):
            # numpy in-place operation on the buffer
            newv = self.binop(node.op, read_view(st, cur), rhs, st, node)
            self.emit_all(st, 'shape', write_view(st, cur, newv), node)
            return [(st, None)]
        if isinstance(cur, SeqVal) and isinstance(node.op, ast.Add):
            # list += list  (in place for lists; value semantics are enough when not aliased)
            newv = self.binop(node.op, cur, rhs, st, node)
            self.assign(node.target, newv, st)
            return [(st, None)]
        newv = self.binop(node.op, cur, rhs, st, node)
        self.assign(node.target, newv, st)
        return [(st, None)]

    def assign(self, target, v, st):
        if isinstance(target, ast.Name):
            if isinstance(v, ArrayVal) and not self.spec_mode and not getattr(v, 'is_list', False):
                v = lib._new_buffer(st, v, target.id)      # numpy results are fresh mutable arrays
            hints = self.contract.ghosts.get('seqvars', {})
            if isinstance(v, list) and target.id in hints and not self.spec_mode:
                cod = hints[target.id]
                if not v:
                    v = SeqVal(z3.Empty(z3.SeqSort(cod.sort)), cod)
                else:
                    parts = [z3.Unit(cod.pack(x)) for x in v]
                    v = SeqVal(parts[0] if len(parts) == 1 else z3.Concat(*parts), cod)
            lhints = self.contract.ghosts.get('listvars', {})
            if isinstance(v, list) and target.id in lhints and not self.spec_mode:
                # growable python list modelled as (length, index -> element) in the store
                cod = lhints[target.id]
                buf = fresh_name('list_' + target.id)
                items = [list_to_seq(x, cod.inner) if isinstance(x, (list, tuple)) and hasattr(cod, 'inner') else x for x in v]
                if items:
                    arr = ArrayVal((len(items),), lambda i, items=items: select_concrete(items, i, None), dtype_of_value(items[0]))
                else:
                    arr = ArrayVal((0,), lambda i: cod.unpack(z3.Const(fresh_name('nil'), cod.sort)), 'obj')
                arr.elem = cod
                st.store[buf] = arr
                v = PyList(buf)
            if isinstance(v, PyList) and target.id in lhints and not self.spec_mode and getattr(st.store[v.buf], 'elem', None) is None:
                cod = lhints[target.id]
                raw = st.store[v.buf]
                # elements seen through the codec (None becomes an optional value with a typed payload)
                norm = ArrayVal(raw.shape, lambda i, raw=raw, cod=cod: cod.unpack(cod.pack(raw.get(i))), 'obj')
                norm.elem = cod
                st.store[v.buf] = norm
            st.env[target.id] = v
            return
        if isinstance(target, (ast.Tuple, ast.List)):
            vals = self.unpack(v, len(target.elts), st, target)
            for t, x in zip(target.elts, vals):
                self.assign(t, x, st)
            return
        if isinstance(target, ast.Subscript):
            base = self.eval(target.value, st)
            idx = self.eval_index(target.slice, st)
            self.setitem(base, idx, v, st, target)
            return
        if isinstance(target, ast.Attribute):
            obj = self.eval(target.value, st)
            self.setattr(obj, target.attr, v, st, target)
            return
        raise Unsupported('assignment target %s' % type(target).__name__)

    def unpack(self, v, n, st, node):
        if isinstance(v, (tuple, list)):
            if len(v) != n:
                raise Unsupported('unpack arity')
            return list(v)
        if isinstance(v, (ArrayVal, NDRef)):
            a = as_array(st, v)
            self.emit(st, 'unpack', to_z3(s_eq(a.shape[0], n)), node, 'unpack length')
            return [self.getitem(v, i, st, node) for i in range(n)]
        raise Unsupported('unpack of %r' % (v,))

    # ---- loops ----------------------------------------------------------------------------

    def assigned_names(self, body):
        names = set()
        bufs = set()
        attrs = set()

        def tgt(t):
            if isinstance(t, ast.Name):
                names.add(t.id)
            elif isinstance(t, (ast.Tuple, ast.List)):
                for e in t.elts:
                    tgt(e)
            elif isinstance(t, ast.Subscript):
                b = t.value
                while isinstance(b, ast.Subscript):
                    b = b.value
                if isinstance(b, ast.Name):
                    bufs.add(b.id)
                elif isinstance(b, ast.Attribute):
                    attrs.add(b.attr)
            elif isinstance(t, ast.Attribute):
                attrs.add(t.attr)
            elif isinstance(t, ast.Starred):
                tgt(t.value)
        for stmt in body:
            for n in ast.walk(stmt):
                if isinstance(n, ast.Assign):
                    for t in n.targets:
                        tgt(t)
                elif isinstance(n, (ast.AugAssign, ast.AnnAssign)):
                    tgt(n.target)
                    if isinstance(n, ast.AugAssign) and isinstance(n.target, ast.Name):
                        bufs.add(n.target.id)
                elif isinstance(n, ast.For):
                    tgt(n.target)
                elif isinstance(n, ast.Call) and isinstance(n.func, ast.Attribute) and \
                        n.func.attr in ('append', 'insert', 'extend', 'pop', 'update', 'add', 'sort', 'remove', 'clear'):
                    b = n.func.value
                    if isinstance(b, ast.Name):
                        names.add(b.id)
                        bufs.add(b.id)
                    elif isinstance(b, ast.Subscript) and isinstance(b.value, ast.Name):
                        bufs.add(b.value.id)
                elif isinstance(n, (ast.NamedExpr,)):
                    tgt(n.target)
                elif isinstance(n, ast.comprehension):
                    pass
        return names, bufs, attrs

    def havoc_value(self, st, name, v):
        """fresh value of the same type as v"""
        if v is None:
            raise Unsupported('havoc of a None-valued variable %s (type unknown)' % name)
        if isinstance(v, bool) or (is_z3(v) and z3_kind(v) == 'bool'):
            return z3.Bool(fresh_name(name))
        if isinstance(v, int) or (is_z3(v) and z3_kind(v) == 'int'):
            return z3.Int(fresh_name(name))
        if (isinstance(v, float) and kind(v) == 'real') or (is_z3(v) and z3_kind(v) == 'real'):
            return z3.Real(fresh_name(name))
        if isinstance(v, XReal) or kind(v) == 'xreal':
            return XReal.fresh(name)
        if is_z3(v):
            return z3.Const(fresh_name(name), v.sort())
        if isinstance(v, SeqVal):
            return SeqVal(z3.Const(fresh_name(name), v.s.sort()), v.elem)
        if isinstance(v, NDRef):
            # rebinding: fresh buffer of the same rank/dtype, shape unknown
            old = st.store[v.buf]
            rank = v.ndim
            shape = tuple(z3.Int(fresh_name('%s_shape%d' % (name, k))) for k in range(rank))
            for s in shape:
                st.assume(s >= 0)
            buf = fresh_name('buf_' + name)
            st.store[buf] = fresh_array(shape, 'xreal2' if old.dtype == 'xreal' else old.dtype, name)
            return NDRef(buf, [Dim(None, 0, 1, s) for s in shape])
        if isinstance(v, ArrayVal):
            shape = tuple(z3.Int(fresh_name('%s_shape%d' % (name, k))) for k in range(v.ndim))
            for s in shape:
                st.assume(s >= 0)
            return fresh_array(shape, 'xreal2' if v.dtype == 'xreal' else v.dtype, name)
        if isinstance(v, PyList) and getattr(st.store[v.buf], 'elem', None) is not None:
            cod = st.store[v.buf].elem
            ln = z3.Int(fresh_name('len_' + name))
            st.assume(ln >= 0)
            f = z3.Function(fresh_name(name), z3.IntSort(), cod.sort)
            arr = ArrayVal((ln,), lambda i, f=f, cod=cod: cod.unpack(f(to_int(i))), 'obj')
            arr.elem = cod
            buf = fresh_name('list_' + name)
            st.store[buf] = arr
            return PyList(buf)
        if isinstance(v, tuple):
            return tuple(self.havoc_value(st, name, x) for x in v)
        if isinstance(v, ObjRef):
            return ObjRef(z3.Int(fresh_name(name)), v.cls)
        if isinstance(v, OptVal):
            return OptVal(z3.Bool(fresh_name(name + '.none')), self.havoc_value(st, name, v.some), v.truthy_when_some)
        raise Unsupported('havoc of %s = %r' % (name, v))

    def havoc(self, st, names, bufs, attrs, regions=None):
        regions = regions or {}
        for n in sorted(bufs):
            v = st.env.get(n)
            if isinstance(v, PyList) and getattr(st.store[v.buf], 'elem', None) is not None and n in regions:
                # list used as a fixed-length array (item assignment only): shape kept, declared region havocked
                old = st.store[v.buf]
                cod = old.elem
                f = z3.Function(fresh_name(n), z3.IntSort(), cod.sort)
                reg = regions[n]

                def getl(i, reg=reg, f=f, cod=cod, old=old):
                    return ite(to_z3(reg(i)), cod.unpack(f(to_int(i))), old.get(i))
                arr = ArrayVal(old.shape, getl, 'obj')
                arr.elem = cod
                st.store[v.buf] = arr
                continue
            if isinstance(v, PyList) and getattr(st.store[v.buf], 'elem', None) is not None:
                old = st.store[v.buf]
                cod = old.elem
                ln = z3.Int(fresh_name('len_' + n))
                st.assume(ln >= 0)
                f = z3.Function(fresh_name(n), z3.IntSort(), cod.sort)
                arr = ArrayVal((ln,), lambda i, f=f, cod=cod: cod.unpack(f(to_int(i))), 'obj')
                arr.elem = cod
                st.store[v.buf] = arr
                continue
            if isinstance(v, (NDRef, PyList)):
                old = st.store[v.buf]
                # a havocked extended-real buffer may hold both infinities (whatever it held before the loop)
                fresh = fresh_array(old.shape, {'obj': 'val', 'xreal': 'xreal2'}.get(old.dtype, old.dtype), n)
                if n in regions:
                    reg = regions[n]

                    def get(*idx, reg=reg, fresh=fresh, old=old):
                        return ite(to_z3(reg(*idx)), fresh.get(*idx), old.get(*idx))
                    st.store[v.buf] = ArrayVal(old.shape, get, old.dtype)
                else:
                    st.store[v.buf] = fresh
        for n in sorted(names):
            if n in st.env:
                v = st.env[n]
                if n in bufs and isinstance(v, (NDRef, PyList)) and n not in self._rebound:
                    continue
                st.env[n] = self.havoc_value(st, n, v)
        for a in sorted(attrs):
            if a in st.heap:
                arr, cod = st.heap[a]
                st.heap[a] = (z3.Const(fresh_name('H_' + a), arr.sort()), cod)

    def exec_ghost(self, stmts, st, node=None):
        for text in stmts:
            if text.startswith('assert '):
                # ghost assertion = cut lemma: proved here from the current path facts, available afterwards
                body = text[7:]
                vc = self.emit(st, 'lemma', self.eval_spec(body, st), node, body)
                if vc is None or vc.name not in self.unassumed_lemmas:
                    st.assume(self.eval_spec(body, st, role='hyp'))
                continue
            mod = ast.parse(text)
            self.spec_mode += 1
            try:
                outs = self.exec_block(mod.body, st)
            finally:
                self.spec_mode -= 1
            if len(outs) != 1 or outs[0][1] is not None:
                raise Unsupported('ghost statement %r branches' % text)

    def ghost_names(self, spec, body=()):
        """ghost variables written inside the loop: by the loop's own ghost_pre / ghost_post statements and by the ghost_at
        statements anchored at statements of the loop body (they must be havocked at the loop head like any other variable the
        body writes; otherwise the invariants would only be checked for their pre-loop value)"""
        names = set()
        texts = list(spec.ghost_pre) + list(spec.ghost_post)
        if self.contract.ghost_at:
            for stmt in body:
                for n in ast.walk(stmt):
                    if isinstance(n, (ast.Assign, ast.Expr, ast.AugAssign)):
                        src = ast.unparse(n)
                        for pat, stmts in self.contract.ghost_at.items():
                            if src.startswith(pat):
                                texts += [t for t in stmts if not t.lstrip().startswith('assert ')]
        for text in texts:
            for n in ast.walk(ast.parse(text)):
                if isinstance(n, ast.Assign):
                    for t in n.targets:
                        if isinstance(t, ast.Name):
                            names.add(t.id)
                        elif isinstance(t, ast.Subscript) and isinstance(t.value, ast.Name):
                            pass        # element writes into a ghost buffer are covered by the loop's `modifies` / buffer havoc
                elif isinstance(n, ast.AugAssign) and isinstance(n.target, ast.Name):
                    names.add(n.target.id)
                elif isinstance(n, ast.Call) and isinstance(n.func, ast.Attribute) and isinstance(n.func.value, ast.Name) \
                        and n.func.attr in ('append', 'insert', 'extend', 'pop'):
                    names.add(n.func.value.id)
        return names

    def region_fn(self, lam, st, cname, cnt):
        node = ast.parse(lam, mode='eval').body
        snap = st.copy()
        snap.env[cname] = cnt

        def fn(*idx):
            s = snap.copy()
            for a, v in zip(node.args.args, idx):
                s.env[a.arg] = v
            self.spec_mode += 1
            try:
                return truthy(self.eval(node.body, s))
            finally:
                self.spec_mode -= 1
        return fn

    def rebound_names(self, body):
        """names that are assigned as plain names (rebinding) in the body"""
        r = set()
        for stmt in body:
            for n in ast.walk(stmt):
                if isinstance(n, ast.Assign):
                    for t in n.targets:
                        for e in ([t] if not isinstance(t, (ast.Tuple, ast.List)) else t.elts):
                            if isinstance(e, ast.Name):
                                r.add(e.id)
                elif isinstance(n, ast.For):
                    for e in ([n.target] if not isinstance(n.target, (ast.Tuple, ast.List)) else n.target.elts):
                        if isinstance(e, ast.Name):
                            r.add(e.id)
                        elif isinstance(e, (ast.Tuple, ast.List)):
                            for e2 in e.elts:
                                if isinstance(e2, ast.Name):
                                    r.add(e2.id)
        return r

    def iter_descr(self, itv, st, node):
        """describe an iterable: (length, item(k) -> value)"""
        if isinstance(itv, lib.RangeVal):
            ln = itv.length()
            return ln, (lambda k: s_add(itv.start, s_mul(k, itv.step)))
        if isinstance(itv, lib.EnumVal):
            ln, item = self.iter_descr(itv.inner, st, node)
            return ln, (lambda k: (s_add(k, itv.start), item(k)))
        if isinstance(itv, lib.ZipVal):
            ds = [self.iter_descr(x, st, node) for x in itv.parts]
            ln = ds[0][0]
            for d in ds[1:]:
                ln = s_min(ln, d[0])
            return ln, (lambda k: tuple(d[1](k) for d in ds))
        if isinstance(itv, lib.ReversedVal):
            ln, item = self.iter_descr(itv.inner, st, node)
            return ln, (lambda k: item(s_sub(s_sub(ln, 1), k)))
        if isinstance(itv, (ArrayVal, NDRef, PyList)):
            a = as_array(st, itv) if not isinstance(itv, NDRef) else None
            if isinstance(itv, NDRef):
                shape = view_shape(itv)
                if len(shape) == 1:
                    snap = read_view(st, itv)
                    return shape[0], (lambda k: snap.get(k))
                return shape[0], (lambda k: basic_index_ref(itv, [k], None)[0])
            if a.ndim == 1:
                return a.shape[0], (lambda k: a.get(k))
            return a.shape[0], (lambda k: basic_index_arr(a, [k])[0])
        if isinstance(itv, SeqVal):
            return z3.Length(itv.s), (lambda k: itv.elem.unpack(itv.s[to_int(k)]))
        if isinstance(itv, lib.DictVal) and getattr(itv, 'keys_arr', None) is not None:
            ka = itv.keys_arr
            return ka.shape[0], (lambda k: ka.get(k))
        if isinstance(itv, (list, tuple, str, dict)):
            items = list(itv)
            return len(items), (lambda k: select_concrete(items, k, None))
        raise Unsupported('iteration over %r' % (itv,))

    def stmt_For(self, node, st):
        if node.orelse:
            raise Unsupported('for-else')
        itv = self.eval(node.iter, st)
        ln, item = self.iter_descr(itv, st, node)
        k = self.loop_nodes[id(node)]
        spec = self.contract.loops.get(k)
        if is_conc_num(ln) and (spec is None or spec.unroll is not None):
            # concrete length: unroll
            states = [(st, None)]
            done = []
            for i in range(ln):
                nxt = []
                for s, oc in states:
                    self.assign(node.target, item(i), s)
                    for s2, oc2 in self.exec_block(node.body, s):
                        if oc2 is None or oc2[0] == Outcome.CONTINUE:
                            nxt.append((s2, None))
                        elif oc2[0] == Outcome.BREAK:
                            done.append((s2, None))
                        else:
                            done.append((s2, oc2))
                states = nxt
            return states + done
        if spec is None:
            raise Unsupported('loop #%d at line %d has no invariant in the contract' % (k, node.lineno))
        if spec.iter_name:
            st.env[spec.iter_name] = ArrayVal((ln,), lambda i: item(i), dtype_of_value(item(z3.Int(fresh_name('probe')))))
        return self.inductive_loop(node, st, spec, k, ln, item, None)

    def stmt_While(self, node, st):
        if node.orelse:
            raise Unsupported('while-else')
        k = self.loop_nodes[id(node)]
        spec = self.contract.loops.get(k)
        if spec is None:
            raise Unsupported('loop #%d at line %d has no invariant in the contract' % (k, node.lineno))
        if spec.unroll is not None:
            states = [(st, None)]
            done = []
            for i in range(spec.unroll + 1):
                nxt = []
                for s, oc in states:
                    c = self.truth_of_test(node.test, s)
                    if c is not True:
                        s_exit = s.copy()
                        s_exit.assume(bnot(c))
                        if c is False or self.feasible(s_exit):
                            done.append((s_exit, None))
                    if c is False:
                        continue
                    s.assume(c)
                    if not self.feasible(s):
                        continue
                    if i == spec.unroll:
                        self.emit(s, 'unwind#%d' % k, z3.BoolVal(False), node, 'loop unwinding bound %d' % spec.unroll)
                        continue
                    for s2, oc2 in self.exec_block(node.body, s):
                        if oc2 is None or oc2[0] == Outcome.CONTINUE:
                            nxt.append((s2, None))
                        elif oc2[0] == Outcome.BREAK:
                            done.append((s2, None))
                        else:
                            done.append((s2, oc2))
                states = nxt
            return done
        return self.inductive_loop(node, st, spec, k, None, None, node.test)

    def inductive_loop(self, node, st, spec, k, ln, item, test):
        cname = spec.counter or ('k%d' % k)
        names, bufs, attrs = self.assigned_names(node.body)
        if isinstance(node, ast.For):
            tn, _, _ = self.assigned_names([ast.Assign(targets=[node.target], value=ast.Constant(0))])
            names |= tn
        if spec.havoc:
            names |= set(spec.havoc)
        self._rebound = self.rebound_names(node.body)
        names |= self.ghost_names(spec, node.body)
        self.exec_ghost(spec.ghost_init, st)
        if spec.carry is not None:
            kept = []
            for i, text in enumerate(spec.carry):
                self.emit(st, 'carry#%d.%d' % (k, i), self.eval_spec(text, st), node, text)
                kept.append(to_z3(self.eval_spec(text, st, role='hyp')))
            st.pc = list(self.entry.pc) + kept
        for vn, ty in spec.types.items():
            if vn in st.env and is_conc_num(st.env[vn]):
                st.env[vn] = float(st.env[vn]) if ty == 'real' else int(st.env[vn])
        # names introduced in the body only are not live at the head
        # 1. invariant holds on entry (counter = 0)
        st.env[cname] = 0
        for i, inv in enumerate(spec.inv):
            self.emit(st, 'inv-init#%d.%d' % (k, i), self.eval_spec(inv, st), node, inv)
        # 2. arbitrary iteration
        body_st = st.copy()
        cnt = z3.Int(fresh_name(cname))
        regions = {}
        for bn, lam in spec.modifies.items():
            regions[bn] = self.region_fn(lam, body_st, cname, cnt)
        stay_none = {vn for vn, ty in spec.types.items() if ty == 'none'}
        for vn in stay_none:
            v_ = st.env.get(vn, 0)
            if v_ is not None:
                self.emit(st, 'inv-init#%d.none:%s' % (k, vn), v_.is_none if isinstance(v_, OptVal) else z3.BoolVal(False), node,
                          '%s is None on loop entry' % vn)
        self.havoc(body_st, names - {cname} - stay_none, bufs, attrs, regions)
        body_st.env[cname] = cnt
        body_st.assume(cnt >= 0)
        head_content = {bn: (body_st.env[bn].buf, body_st.store[body_st.env[bn].buf]) for bn in spec.modifies
                        if isinstance(body_st.env.get(bn), (NDRef, PyList))}
        head_tags = {}
        for nm, inv in zip(spec.inv_names, spec.inv):
            h = to_z3(self.eval_spec(inv, body_st, role='hyp'))
            head_tags[h.get_id()] = nm
            body_st.assume(h)
        exit_st = body_st.copy()
        results = []
        if ln is not None:
            body_st.assume(s_lt(cnt, ln))
            self.assign(node.target, item(cnt), body_st)
        else:
            c = self.truth_of_test(test, body_st)
            body_st.assume(c)
        var0 = None
        if spec.variant:
            var0 = self.eval_spec_value(spec.variant, body_st)
            self.emit(body_st, 'variant-nonneg#%d' % k, to_z3(s_le(0, var0)), node, spec.variant)
        can_iterate = self.feasible(body_st)
        seen = self._loop_iter.setdefault(k, [node.lineno, False])
        seen[1] = seen[1] or can_iterate        # vacuity guard: some path must allow an iteration (checked at the end of run())
        if can_iterate:
            self.covers.append((node.lineno, 'loop-body'))
            self.exec_ghost(spec.ghost_pre, body_st)
            for s2, oc2 in self.exec_block(node.body, body_st):
                if oc2 is None or oc2[0] == Outcome.CONTINUE:
                    self.exec_ghost(spec.ghost_post, s2)
                    s2.env[cname] = cnt + 1
                    for vn in sorted(stay_none):
                        v_ = s2.env.get(vn, 0)
                        if v_ is not None:
                            self.emit(s2, 'inv-pres#%d.none:%s' % (k, vn), v_.is_none if isinstance(v_, OptVal) else z3.BoolVal(False), node,
                                      '%s is still None after the iteration' % vn)
                    cut = []      # an invariant already shown preserved may be used for the following ones (sequential cut)
                    for i, inv in enumerate(spec.inv):
                        nm = spec.inv_names[i]
                        allowed = spec.uses.get(nm)
                        drop = None
                        if allowed is not None:
                            drop = {hid for hid, t in head_tags.items() if t not in allowed and t != nm}
                        self.emit(s2, 'inv-pres#%d.%s' % (k, nm if nm != str(i) else i), self.eval_spec(inv, s2), node, inv,
                                  extra_hyps=[c for t, c in cut if allowed is None or t in allowed], drop_hyps=drop)
                        cut = cut + [(nm, to_z3(self.eval_spec(inv, s2, role='hyp')))]
                    for bn, (bufid, head) in head_content.items():
                        # frame: cells outside the (next) region keep the content they had at the loop head,
                        # and the region only grows
                        nxt = self.region_fn(spec.modifies[bn], s2, cname, cnt + 1)
                        cur = self.region_fn(spec.modifies[bn], s2, cname, cnt)
                        idx = [z3.Int(fresh_name('f')) for _ in head.shape]
                        inb = z3.And(*[z3.And(x >= 0, x < to_int(n_)) for x, n_ in zip(idx, head.shape)])
                        now = s2.store[bufid]
                        same = to_z3(s_eq(now.get(*idx), head.get(*idx)))
                        self.emit(s2, 'frame#%d:%s' % (k, bn), z3.ForAll(idx, z3.Implies(
                            z3.And(inb, z3.Not(to_z3(nxt(*idx)))), same)), node, 'outside the declared region nothing changes')
                        self.emit(s2, 'frame-mono#%d:%s' % (k, bn), z3.ForAll(idx, z3.Implies(
                            z3.And(inb, to_z3(cur(*idx))), to_z3(nxt(*idx)))), node, 'modified region grows monotonically')
                    if spec.variant:
                        s2.env[cname] = cnt
                        v1 = self.eval_spec_value(spec.variant, s2)
                        self.emit(s2, 'variant-decr#%d' % k, to_z3(s_lt(v1, var0)), node, spec.variant)
                elif oc2[0] == Outcome.BREAK:
                    s2.env[cname] = cnt
                    results.append((s2, None))
                else:
                    results.append((s2, oc2))
        # 3. exit
        if ln is not None:
            exit_st.assume(s_eq(cnt, ln))
        else:
            c = self.truth_of_test(test, exit_st)
            exit_st.assume(bnot(c))
        for e in spec.exit_assume:
            exit_st.assume(self.eval_spec(e, exit_st, role='hyp'))
        if self.feasible(exit_st):
            results.append((exit_st, None))
        return results

    # ---- try / with -------------------------------------------------------------------------

    def stmt_Try(self, node, st):
        if node.finalbody:
            raise Unsupported('try/finally')
        outs = self.exec_block(node.body, st)
        res = []
        for s, oc in outs:
            if oc is not None and oc[0] == Outcome.RAISE:
                handled = False
                for h in node.handlers:
                    names = []
                    if h.type is None:
                        names = None
                    elif isinstance(h.type, ast.Name):
                        names = [h.type.id]
                    elif isinstance(h.type, ast.Tuple):
                        names = [e.id for e in h.type.elts if isinstance(e, ast.Name)]
                    if names is None or oc[1] in names or 'Exception' in names and oc[1] not in ('SystemExit', 'KeyboardInterrupt'):
                        res.extend(self.exec_block(h.body, s))
                        handled = True
                        break
                if not handled:
                    res.append((s, oc))
            elif oc is None and node.orelse:
                res.extend(self.exec_block(node.orelse, s))
            else:
                res.append((s, oc))
        return res

    def stmt_With(self, node, st):
        raise Unsupported('with statement')

    def stmt_FunctionDef(self, node, st):
        st.env[node.name] = Closure(node, st, self)
        return [(st, None)]

    def stmt_Import(self, node, st):
        return [(st, None)]

    stmt_ImportFrom = stmt_Import

    def stmt_Delete(self, node, st):
        raise Unsupported('del')

    # ---------------------------------------------------------------------------------------
    # expressions

    def nonneg_oracle(self, st):
        def oracle(i):
            if self.spec_mode:
                return True        # specification expressions index with mathematical (non-wrapping) indices
            try:
                return not self.feasible(st, to_int(i) < 0)
            except Exception:
                return False
        return oracle

    def eval(self, node, st):
        import pyvc.arrays as _arr
        _arr.NONNEG_ORACLE[0] = self.nonneg_oracle(st)
        m = getattr(self, 'expr_' + type(node).__name__, None)
        if m is None:
            raise Unsupported('expression %s at line %s' % (type(node).__name__, getattr(node, 'lineno', '?')))
        return m(node, st)

    def expr_Constant(self, node, st):
        return node.value

    def expr_Name(self, node, st):
        n = node.id
        if n in st.env:
            return st.env[n]
        if self.spec_mode and n in self.spec_funcs:
            return self.spec_funcs[n]
        if self.spec_mode and n in lib.SPEC_BUILTINS:
            return lib.SPEC_BUILTINS[n]
        if n in st.ghost:
            return st.ghost[n]
        g = self.fn.resolve_global(n)
        if g is not None:
            return g
        if n in lib.BUILTINS:
            return Opaque('builtins.' + n)
        if n in ('True', 'False', 'None'):
            return {'True': True, 'False': False, 'None': None}[n]
        raise Unsupported('unknown name %s at line %s' % (n, getattr(node, 'lineno', '?')))

    def expr_Tuple(self, node, st):
        return tuple(self.eval(e, st) for e in node.elts)

    def expr_List(self, node, st):
        vals = [self.eval(e, st) for e in node.elts]
        if not vals and not self.spec_mode:
            hint = self.contract.ghosts.get('list@%d' % node.lineno)
            if hint is not None:
                return SeqVal(z3.Empty(z3.SeqSort(hint.sort)), hint)
        return vals

    def expr_JoinedStr(self, node, st):
        return Opaque('fstring')

    def expr_Lambda(self, node, st):
        return Closure(node, st, self)

    def expr_IfExp(self, node, st):
        c = truthy(self.eval(node.test, st))
        if c is True:
            return self.eval(node.body, st)
        if c is False:
            return self.eval(node.orelse, st)
        s1 = st.copy()
        s1.assume(c)
        s2 = st.copy()
        s2.assume(bnot(c))
        def keep_buffers(s_):
            for bk, bv in s_.store.items():       # arrays allocated while evaluating a branch stay alive in the caller's state
                if bk not in st.store:
                    st.store[bk] = bv
        if not self.spec_mode:
            # a test that the path condition already decides (e.g. an attribute the contract fixes) selects its branch,
            # exactly as the statement form `if c: x = a else: x = b` would by pruning the infeasible path
            if not self.feasible(s2):
                r_ = self.eval(node.body, s1)
                keep_buffers(s1)
                return r_
            if not self.feasible(s1):
                r_ = self.eval(node.orelse, s2)
                keep_buffers(s2)
                return r_
        a = self.eval(node.body, s1)
        b = self.eval(node.orelse, s2)
        keep_buffers(s1)
        keep_buffers(s2)
        # obligations emitted while evaluating the branches carried the branch condition
        return ite(to_z3(c), a, b)

    def expr_BoolOp(self, node, st):
        vals = []
        if isinstance(node.op, ast.And):
            acc = True
            s = st
            for e in node.values:
                v = truthy(self.eval(e, s))
                acc = band(acc, v)
                if acc is False:
                    return False
                s = s.copy()
                s.assume(v)
            return acc
        else:
            acc = False
            s = st
            for e in node.values:
                v = truthy(self.eval(e, s))
                acc = bor(acc, v)
                if acc is True:
                    return True
                s = s.copy()
                s.assume(bnot(v))
            return acc

    def expr_UnaryOp(self, node, st):
        v = self.eval(node.operand, st)
        if isinstance(node.op, ast.Not):
            return bnot(truthy(v))
        if isinstance(node.op, ast.USub):
            if isinstance(v, (ArrayVal, NDRef)):
                r, ob = elementwise(s_neg, st, v)
                return r
            return s_neg(v)
        if isinstance(node.op, ast.UAdd):
            return v
        raise Unsupported('unary op')

    def binop(self, op, a, b, st, node):
        if isinstance(a, lib.SetVal) and isinstance(b, lib.SetVal) and isinstance(op, (ast.BitAnd, ast.BitOr, ast.Sub)):
            ha, hb = a.has, b.has      # set operators: same models as .intersection / .union / .difference
            if isinstance(op, ast.BitAnd):
                return lib.SetVal(lambda x: band(ha(x), hb(x)))
            if isinstance(op, ast.BitOr):
                return lib.SetVal(lambda x: bor(ha(x), hb(x)))
            return lib.SetVal(lambda x: band(ha(x), bnot(hb(x))))
        if isinstance(op, ast.Add):
            if isinstance(a, (list, tuple)) and isinstance(b, (list, tuple)) and type(a) == type(b):
                return a + b
            if isinstance(a, str) and isinstance(b, str):
                return a + b
            if isinstance(a, SeqVal) or isinstance(b, SeqVal):
                a2, b2 = self.to_seq(a, b), self.to_seq(b, a)
                return SeqVal(z3.Concat(a2.s, b2.s), a2.elem)
        if isinstance(op, ast.Mult):
            if isinstance(a, list) and (is_conc_num(b) or is_z3(b)):
                return self.list_repeat(a, b, st)
            if isinstance(b, list) and (is_conc_num(a) or is_z3(a)):
                return self.list_repeat(b, a, st)
        if is_z3(a) and a.sort() == Val and is_z3(b) and b.sort() == Val:
            return z3.Function('OP_' + type(op).__name__, Val, Val, Val)(a, b)     # operator of an opaque class
        fn = {ast.Add: s_add, ast.Sub: s_sub, ast.Mult: s_mul, ast.Div: s_truediv,
              ast.FloorDiv: s_floordiv, ast.Mod: s_mod}.get(type(op))
        if fn is None:
            if isinstance(op, ast.Pow) and is_conc_num(a) and is_conc_num(b):
                return a ** b
            raise Unsupported('binary operator %s' % type(op).__name__)
        if isinstance(a, (ArrayVal, NDRef)) or isinstance(b, (ArrayVal, NDRef)):
            r, obls = elementwise(fn, st, a, b)
            self.emit_all(st, 'shape', obls, node)
            return r
        if isinstance(op, (ast.Div, ast.FloorDiv, ast.Mod)):
            nz = s_ne(b, 0)
            if nz is not True:
                self.emit(st, 'div-by-zero', to_z3(nz), node, 'divisor is non-zero')
        return fn(a, b)

    def to_seq(self, v, like):
        if isinstance(v, SeqVal):
            return v
        if isinstance(v, (list, tuple)):
            if not isinstance(like, SeqVal):
                raise Unsupported('list to seq without element hint')
            cod = like.elem
            if not v:
                return SeqVal(z3.Empty(z3.SeqSort(cod.sort)), cod)
            parts = [z3.Unit(cod.pack(x)) for x in v]
            return SeqVal(parts[0] if len(parts) == 1 else z3.Concat(*parts), cod)
        raise Unsupported('cannot view %r as a sequence' % (v,))

    def list_repeat(self, lst, n, st):
        if is_conc_num(n):
            return lst * n
        if len(lst) != 1:
            raise Unsupported('symbolic repetition of a list with %d elements' % len(lst))
        x = lst[0]
        buf = fresh_name('list')
        st.store[buf] = ArrayVal((to_int(n),), lambda i: x, 'obj' if x is None else dtype_of_value(x))
        pl = PyList(buf)
        return pl

    def expr_BinOp(self, node, st):
        a = self.eval(node.left, st)
        b = self.eval(node.right, st)
        return self.binop(node.op, a, b, st, node)

    def compare(self, op, a, b, st, node):
        if isinstance(op, (ast.Is, ast.IsNot)):
            if a is None or b is None:
                r = s_eq(a, b)
            elif isinstance(a, ObjRef) and isinstance(b, ObjRef):
                r = a.r == b.r
            elif isinstance(a, bool) and isinstance(b, bool):
                r = a == b
            else:
                raise Unsupported('identity comparison')
            return r if isinstance(op, ast.Is) else bnot(r)
        if isinstance(op, (ast.In, ast.NotIn)):
            r = self.contains(b, a, st, node)
            return r if isinstance(op, ast.In) else bnot(r)
        fn = {ast.Lt: s_lt, ast.LtE: s_le, ast.Gt: lambda x, y: s_lt(y, x), ast.GtE: lambda x, y: s_le(y, x),
              ast.Eq: s_eq, ast.NotEq: s_ne}[type(op)]
        if isinstance(a, (ArrayVal, NDRef)) or isinstance(b, (ArrayVal, NDRef)):
            if a is None or b is None:
                return isinstance(op, ast.NotEq)
            r, obls = elementwise(fn, st, a, b)
            self.emit_all(st, 'shape', obls, node)
            return r
        return fn(a, b)

    def contains(self, cont, x, st, node):
        if isinstance(cont, (list, tuple)):
            return bor(*[s_eq(x, y) for y in cont])
        if isinstance(cont, (ArrayVal, NDRef, PyList)):
            a = as_array(st, cont)
            if a.ndim != 1:
                raise Unsupported('membership in n-d array')
            j = z3.Int(fresh_name('j'))
            return z3.Exists([j], z3.And(j >= 0, j < to_int(a.shape[0]), to_z3(s_eq(a.get(j), x))))
        if isinstance(cont, SeqVal):
            return z3.Contains(cont.s, z3.Unit(cont.elem.pack(x)))
        if isinstance(cont, lib.DictVal):
            return cont.has(x)
        if isinstance(cont, lib.SetVal):
            return cont.has(x)
        if isinstance(cont, dict):
            return bor(*[s_eq(x, k) for k in cont])
        raise Unsupported('membership test in %r' % (cont,))

    def expr_Compare(self, node, st):
        left = self.eval(node.left, st)
        res = True
        for op, rn in zip(node.ops, node.comparators):
            right = self.eval(rn, st)
            r = self.compare(op, left, right, st, node)
            if isinstance(r, ArrayVal):
                if len(node.ops) != 1:
                    raise Unsupported('chained array comparison')
                return r
            res = band(res, r)
            left = right
        return res

    # ---- subscripts --------------------------------------------------------------------------

    def eval_index(self, node, st):
        if isinstance(node, ast.Slice):
            return SliceIx(self.eval(node.lower, st) if node.lower else None,
                           self.eval(node.upper, st) if node.upper else None,
                           self.eval(node.step, st) if node.step else None)
        if isinstance(node, ast.Tuple):
            return tuple(self.eval_index(e, st) for e in node.elts)
        if isinstance(node, ast.Constant) and node.value is Ellipsis:
            return ELLIPSIS
        v = self.eval(node, st)
        if isinstance(v, Opaque) and v.name == 'np.newaxis':
            return NEWAXIS
        return v

    def expr_Subscript(self, node, st):
        base = self.eval(node.value, st)
        idx = self.eval_index(node.slice, st)
        if isinstance(base, (NDRef, ArrayVal)) and not getattr(base, 'is_list', False):
            # on an array, None in an index is np.newaxis (on a dict it is a key)
            if idx is None:
                idx = NEWAXIS
            elif isinstance(idx, tuple) and any(x is None for x in idx):
                idx = tuple(NEWAXIS if x is None else x for x in idx)
        return self.getitem(base, idx, st, node)

    def getitem(self, base, idx, st, node):
        if isinstance(idx, SliceIx) and idx.start is None and idx.stop is None and idx.step == -1 and \
                isinstance(base, (SeqVal, PyList, list, tuple)) or \
                (isinstance(idx, SliceIx) and idx.start is None and idx.stop is None and idx.step == -1
                 and isinstance(base, ArrayVal) and base.ndim == 1):
            # xs[::-1] == list(reversed(xs))
            return lib.b_list(self, st, lib.ReversedVal(base))
        if isinstance(base, OptVal):
            self.emit(st, 'not-none', z3.Not(base.is_none), node, 'subscript of a value that may be None')
            return self.getitem(base.some, idx, st, node)
        if isinstance(base, (list, tuple, str)):
            if isinstance(idx, SliceIx):
                if all(x is None or is_conc_num(x) for x in (idx.start, idx.stop, idx.step)):
                    return base[slice(idx.start, idx.stop, idx.step)]
                if isinstance(base, str):
                    raise Unsupported('symbolic slice of a concrete string')
                a = as_array(st, list(base))
                r, obls = basic_index_arr(a, [idx])
                return r
            if is_conc_num(idx):
                ok = -len(base) <= idx < len(base)
                if not ok:
                    self.emit(st, 'index', z3.BoolVal(False), node, 'index in bounds')
                    raise Unsupported('concrete index out of range at line %s' % getattr(node, 'lineno', '?'))
                return base[idx]
            if isinstance(idx, (ArrayVal, NDRef)):
                ia = as_array(st, idx)
                items = list(base)
                return ArrayVal(ia.shape, lambda *i: select_concrete(items, ia.get(*i), None), 'obj')
            j, ok = norm_index(idx, len(base))
            self.emit_all(st, 'index', [(ok, 'index in bounds')], node)
            return select_concrete(list(base), j, None)
        if isinstance(base, SeqVal):
            n = z3.Length(base.s)
            if isinstance(idx, SliceIx):
                lo, step, length = slice_bounds(idx.start, idx.stop, idx.step, n)
                if step != 1:
                    raise Unsupported('seq slice with step')
                return SeqVal(z3.SubSeq(base.s, to_int(lo), to_int(length)), base.elem)
            j, ok = norm_index(idx, n)
            self.emit_all(st, 'index', [(ok, 'index in bounds')], node)
            pw = getattr(base, 'pointwise', None)
            if pw is not None and self.pending_defs:
                # a sequence defined element by element (result of a comprehension): the defining equation at this index is
                # put next to the occurrence (an instance of the definition; the quantified form has no usable trigger)
                jj = to_int(j)
                self.pending_defs[-1].append(z3.Implies(z3.And(jj >= 0, jj < n), base.s[jj] == pw(jj)))
            return base.elem.unpack(base.s[to_int(j)])
        if isinstance(base, PyList):
            a = st.store[base.buf]
            if isinstance(idx, SliceIx):
                r, obls = basic_index_arr(a, [idx])
                return r
            j, ok = norm_index(idx, a.shape[0])
            self.emit_all(st, 'index', [(ok, 'index in bounds')], node)
            return a.get(j)
        if isinstance(base, lib.DictVal):
            self.emit(st, 'key', to_z3(base.has(idx)), node, 'key present')
            return base.get(idx)
        if isinstance(base, dict):
            for k2, v2 in base.items():
                if s_eq(k2, idx) is True:
                    return v2
            raise Unsupported('symbolic key into concrete dict')
        if isinstance(base, (ArrayVal, NDRef)):
            return self.nd_getitem(base, idx, st, node)
        if isinstance(base, MaskedSel):
            raise Unsupported('indexing a masked selection')
        if is_z3(base) and base.sort() == Val and not isinstance(idx, (SliceIx, tuple)):
            zk = self.opaque_args([idx])
            fn = z3.Function('ITEM', Val, *[a.sort() for a in zk], Val)
            return fn(base, *zk)
        raise Unsupported('subscript of %r at line %s' % (base, getattr(node, 'lineno', '?')))

    def nd_getitem(self, base, idx, st, node):
        idxs = list(idx) if isinstance(idx, tuple) else [idx]
        ndim = base.ndim
        if any(x is ELLIPSIS for x in idxs):
            p = idxs.index(ELLIPSIS)
            fill = ndim - (len([x for x in idxs if x is not NEWAXIS]) - 1)
            idxs = idxs[:p] + [SliceIx(None, None, None)] * fill + idxs[p + 1:]
        has_newaxis = any(x is NEWAXIS for x in idxs)
        adv = [x for x in idxs if isinstance(x, (ArrayVal, NDRef, list, PyList)) or isinstance(x, tuple)]
        if not adv and not has_newaxis:
            if isinstance(base, NDRef):
                ref, obls = basic_index_ref(base, idxs, None)
                self.emit_all(st, 'index', obls, node)
                if ref.ndim == 0:
                    return st.store[ref.buf].get(*[d.fixed for d in ref.dims])
                return ref
            r, obls = basic_index_arr(base, idxs)
            self.emit_all(st, 'index', obls, node)
            return r
        a = as_array(st, base)
        if has_newaxis:
            if adv:
                raise Unsupported('newaxis with advanced index')
            plain = [x for x in idxs if x is not NEWAXIS]
            r, obls = basic_index_arr(a, plain)
            self.emit_all(st, 'index', obls, node)
            if not isinstance(r, ArrayVal):
                raise Unsupported('newaxis on scalar')
            # positions of new axes in the result
            pos = []
            out_ax = 0
            src_ax = 0
            for x in idxs:
                if x is NEWAXIS:
                    pos.append(out_ax)
                    out_ax += 1
                elif isinstance(x, SliceIx):
                    out_ax += 1
            while out_ax - len(pos) < r.ndim:
                out_ax += 1
            shape = []
            it = iter(r.shape)
            for ax in range(r.ndim + len(pos)):
                shape.append(1 if ax in pos else next(it))

            def get(*i):
                return r.get(*[x for ax, x in enumerate(i) if ax not in pos])
            return ArrayVal(tuple(shape), get, r.dtype)
        # advanced indexing
        if len(idxs) == 1 and not isinstance(idxs[0], tuple):
            ia = as_array(st, idxs[0])
            if ia.dtype == 'bool':
                ms = MaskedSel(a, ia)
                ms.key = mask_key(idxs[0])
                return ms
            # gather along the first axis
            n0 = a.shape[0]
            j = z3.Int(fresh_name('g'))
            inb = z3.ForAll([j], z3.Implies(z3.And(j >= 0, j < to_int(ia.shape[0])),
                                            z3.And(to_int(ia.get(j)) >= 0, to_int(ia.get(j)) < to_int(n0)))) \
                if ia.ndim == 1 else None
            if inb is not None and not self.spec_mode:
                self.emit(st, 'index', inb, node, 'gather indices in bounds')
            if a.ndim == 1:
                return ArrayVal(ia.shape, lambda *i: a.get(to_int(ia.get(*i))), a.dtype)
            return ArrayVal(ia.shape + a.shape[1:], lambda *i: a.get(to_int(ia.get(*i[:ia.ndim])), *i[ia.ndim:]), a.dtype)
        if len(idxs) == 1 and isinstance(idxs[0], tuple):
            idxs = list(idxs[0])
        # tuple of index arrays / mixed with slices
        arrs = [as_array(st, x) if isinstance(x, (ArrayVal, NDRef, list, PyList)) else x for x in idxs]

        def gather_index(ia, n, what):
            # element-wise python index normalisation (a negative index wraps once) + in-bounds obligation
            if ia.ndim == 1 and not self.spec_mode:
                g = z3.Int(fresh_name('g'))
                e = to_int(ia.get(g))
                self.emit(st, 'index', z3.ForAll([g], z3.Implies(z3.And(g >= 0, g < to_int(ia.shape[0])),
                                                                 z3.And(e >= -to_int(n), e < to_int(n)))), node, what)
            return lambda *i: norm_index(ia.get(*i), n)[0]
        if all(isinstance(x, ArrayVal) for x in arrs) and len(arrs) == a.ndim:
            shp = arrs[0].shape
            gs = [gather_index(x, a.shape[ax], 'gather indices (axis %d) in bounds' % ax) for ax, x in enumerate(arrs)]
            return ArrayVal(shp, lambda *i: a.get(*[to_int(g_(*i)) for g_ in gs]), a.dtype)
        if a.ndim == 2 and len(arrs) == 2 and isinstance(arrs[0], SliceIx) and isinstance(arrs[1], ArrayVal):
            lo, step, length = slice_bounds(arrs[0].start, arrs[0].stop, arrs[0].step, a.shape[0])
            ia = arrs[1]
            g1 = gather_index(ia, a.shape[1], 'gathered column indices in bounds')
            return ArrayVal((length,) + ia.shape, lambda i, *k: a.get(s_add(lo, s_mul(i, step)), to_int(g1(*k))), a.dtype)
        if a.ndim == 2 and len(arrs) == 2 and isinstance(arrs[1], SliceIx) and isinstance(arrs[0], ArrayVal):
            lo, step, length = slice_bounds(arrs[1].start, arrs[1].stop, arrs[1].step, a.shape[1])
            ia = arrs[0]
            g0 = gather_index(ia, a.shape[0], 'gathered row indices in bounds')
            return ArrayVal(ia.shape + (length,), lambda *k: a.get(to_int(g0(*k[:-1])), s_add(lo, s_mul(k[-1], step))), a.dtype)
        raise Unsupported('advanced indexing pattern at line %s' % getattr(node, 'lineno', '?'))

    def setitem(self, base, idx, v, st, node):
        if isinstance(v, NDRef):
            v = read_view(st, v)
        if isinstance(v, (list, tuple)) and isinstance(base, (NDRef,)):
            v = as_array(st, v)
        if isinstance(base, NDRef):
            idxs = list(idx) if isinstance(idx, tuple) else [idx]
            if any(x is ELLIPSIS for x in idxs):
                p = idxs.index(ELLIPSIS)
                fill = base.ndim - (len(idxs) - 1)
                idxs = idxs[:p] + [SliceIx(None, None, None)] * fill + idxs[p + 1:]
            adv = [x for x in idxs if isinstance(x, (ArrayVal, NDRef, list, tuple))]
            if not adv:
                ref, obls = basic_index_ref(base, idxs, None)
                self.emit_all(st, 'index', obls, node)
                self.emit_all(st, 'shape', write_view(st, ref, v), node)
                return
            if len(idxs) == 1:
                x = idxs[0]
                if isinstance(x, tuple):
                    # fancy pair: a[(rows, cols)] = scalar
                    arrs = [as_array(st, y) for y in x]
                    return self.fancy_write(base, arrs, v, st, node)
                ia = as_array(st, x)
                if ia.dtype == 'bool':
                    if isinstance(v, MaskedSel):
                        if getattr(v, 'key', None) != mask_key(x):
                            raise Unsupported('masked selection assigned through a different mask (line %d)' % node.lineno)
                        v.mask = ia
                    self.emit_all(st, 'shape', write_view(st, base, v, mask=ia), node)
                    return
                return self.fancy_write(base, [ia], v, st, node)
            arrs = [as_array(st, y) if isinstance(y, (ArrayVal, NDRef, list)) else y for y in idxs]
            if all(isinstance(y, ArrayVal) for y in arrs):
                return self.fancy_write(base, arrs, v, st, node)
            raise Unsupported('mixed advanced assignment at line %d' % node.lineno)
        if isinstance(base, PyList):
            old = st.store[base.buf]
            j, ok = norm_index(idx, old.shape[0])
            self.emit_all(st, 'index', [(ok, 'index in bounds')], node)
            dt = old.dtype
            cod = getattr(old, 'elem', None)
            if cod is not None:
                v = cod.unpack(cod.pack(v))        # the element as the list's codec sees it (typed, None-aware)
            vk = dtype_of_value(v)
            if vk != dt:
                dt = 'obj'

            def get(i, old=old, j=j, v=v):
                c = s_eq(i, j)
                if c is True:
                    return v
                if c is False:
                    return old.get(i)
                return merge_obj(c, v, old.get(i))
            st.store[base.buf] = ArrayVal(old.shape, get, dt)
            st.store[base.buf].elem = getattr(old, 'elem', None)
            return
        if isinstance(base, list):
            if is_conc_num(idx):
                base[idx] = v       # python list in env: mutable in place (aliasing preserved)
                return
            raise Unsupported('symbolic index store into concrete list')
        if isinstance(base, lib.DictVal):
            base.set(idx, v)
            return
        if isinstance(base, dict):
            for k2 in list(base):
                if s_eq(k2, idx) is True:
                    base[k2] = v
                    return
            if is_conc_num(idx) or isinstance(idx, str) or idx is None:
                base[idx] = v
                return
            raise Unsupported('symbolic key store into concrete dict')
        raise Unsupported('item assignment on %r at line %d' % (base, node.lineno))

    def fancy_write(self, base, arrs, v, st, node):
        """a[(i_arr, j_arr)] = v  — element p of the index arrays addresses one cell"""
        ref = base
        old = st.store[ref.buf]
        if any(d.fixed is not None or not (is_conc_num(d.step) and d.step == 1 and is_conc_num(d.start) and d.start == 0)
               for d in ref.dims):
            raise Unsupported('fancy write through a view')
        if len(arrs) == 1 and len(ref.dims) in (1, 2) and arrs[0].ndim == 1 and not is_conc_num(arrs[0].shape[0]):
            return self.scatter_rows(ref, old, arrs[0], v, st, node)
        if len(arrs) != len(ref.dims):
            raise Unsupported('partial fancy write')
        n = arrs[0].shape[0]
        for a in arrs:
            if a.ndim != 1:
                raise Unsupported('n-d fancy index')
        # special pattern: arrs[0] is arange (identity) -> cell (i, arrs[1][i])
        vget = v.get if isinstance(v, ArrayVal) else (lambda p: v)
        p = z3.Int(fresh_name('p'))
        ident = all(z3.is_true(z3.simplify(to_z3(s_eq(arrs[0].get(p), p)))) for _ in [0])
        if len(arrs) == 2 and ident:
            cols = arrs[1]

            def get(i, j):
                c = band(s_le(0, i), s_lt(i, n), s_eq(j, cols.get(i)))
                return ite(c, vget(i), old.get(i, j))
            inb = z3.ForAll([p], z3.Implies(z3.And(p >= 0, p < to_int(n)),
                                            z3.And(to_int(cols.get(p)) >= -to_int(old.shape[1]), to_int(cols.get(p)) < to_int(old.shape[1]))))
            self.emit(st, 'index', inb, node, 'fancy column indices in bounds')
            self.emit(st, 'index', to_z3(s_le(n, old.shape[0])), node, 'fancy row indices in bounds')
            st.store[ref.buf] = ArrayVal(old.shape, get, old.dtype)
            return
        if len(arrs) == 1:
            ia = arrs[0]
            if not is_conc_num(n):
                raise Unsupported('1-d fancy write with symbolic index array')

            def get1(i):
                r = old.get(i)
                for q in range(n):          # later writes win
                    r = ite(s_eq(i, ia.get(q)), vget(q), r)
                return r
            st.store[ref.buf] = ArrayVal(old.shape, get1, old.dtype)
            return
        raise Unsupported('fancy write pattern at line %d' % node.lineno)

    def scatter_rows(self, ref, old, ia, v, st, node):
        """a[idx] = v for an index array of symbolic length K along the first axis: row r is replaced iff some idx[j] == r,
        by v[j] for the LAST such j (HIT / LASTJ functions, as for dict comprehensions)"""
        K = to_int(ia.shape[0])
        n0 = to_int(old.shape[0])
        HIT = z3.Function(fresh_name('scatter_hit'), z3.IntSort(), z3.BoolSort())
        LASTJ = z3.Function(fresh_name('scatter_j'), z3.IntSort(), z3.IntSort())
        j, r = z3.Ints('j r')
        ij = to_int(ia.get(j))
        self.emit(st, 'index', z3.ForAll([j], z3.Implies(z3.And(j >= 0, j < K), z3.And(ij >= 0, ij < n0))), node, 'scatter indices in bounds')
        st.assume(z3.ForAll([j], z3.Implies(z3.And(j >= 0, j < K), z3.And(HIT(ij), LASTJ(ij) >= j)),
                            patterns=lib.infer_patterns(ij, [j]) or [ij]))
        st.assume(z3.ForAll([r], z3.Implies(HIT(r), z3.And(LASTJ(r) >= 0, LASTJ(r) < K, to_int(ia.get(LASTJ(r))) == r)), patterns=[HIT(r)]))
        self.assumed.append('model: a[idx] = v replaces exactly the rows listed in idx (the last occurrence wins)')
        if isinstance(v, NDRef):
            v = read_view(st, v)
        if isinstance(v, ArrayVal):
            self.emit(st, 'shape', to_z3(s_eq(v.shape[0], ia.shape[0])), node, 'scatter: one source row per index')
            vget = lambda q, *rest: v.get(q, *rest)
        else:
            vget = lambda q, *rest: v

        def get(i, *rest):
            i = to_int(i)
            return ite(HIT(i), vget(LASTJ(i), *rest), old.get(i, *rest))
        new = ArrayVal(old.shape, get, old.dtype)
        st.store[ref.buf] = new

    # ---- attributes / heap -------------------------------------------------------------------

    def field(self, st, name):
        if name not in st.heap:
            sort_name = self.contract.fields.get(name, 'val')
            cod = {'val': (Val, None), 'real': (z3.RealSort(), None), 'int': (z3.IntSort(), None),
                   'bool': (z3.BoolSort(), None), 'ref': (z3.IntSort(), 'ref'), 'sym': (Sym, None)}.get(sort_name)
            if cod is None:
                if sort_name.startswith('opt:'):
                    inner = {'val': Val, 'real': z3.RealSort(), 'int': z3.IntSort(), 'ref': z3.IntSort()}[sort_name[4:]]
                    arr = z3.Const('H_' + name, z3.ArraySort(z3.IntSort(), inner))
                    nn = z3.Const('Hnone_' + name, z3.ArraySort(z3.IntSort(), z3.BoolSort()))
                    st.heap[name] = ((arr, nn), sort_name)
                    return st.heap[name]
                raise Unsupported('field sort %s' % sort_name)
            st.heap[name] = (z3.Const('H_' + name, z3.ArraySort(z3.IntSort(), cod[0])), sort_name)
        return st.heap[name]

    def initial_field(self, st, name):
        tmp = State()
        return self.field(tmp, name)

    def getattr(self, obj, name, st, node):
        if isinstance(obj, ObjRef):
            if ('%s.%s' % (obj.cls, name)) in self.contract.ghosts:
                return self.contract.ghosts['%s.%s' % (obj.cls, name)](self, st, obj)
            if ('method:' + name) in self.contract.ghosts:
                m = self.contract.ghosts['method:' + name]
                return lambda ex, st2, *a, **k: m(ex, st2, obj, *a, **k)
            if obj.cls and name not in self.contract.fields:
                mk = [k_ for k_ in self.registry if k_[1] == '%s.%s' % (obj.cls, name)]
                if mk:
                    # bound method of a class whose method has a contract in the registry: modular call
                    f = Opaque('func:' + mk[0][1], mk[0])
                    return lambda ex, st2, *a, **k: ex.call_user(f, [obj] + list(a), k, st2, node)
            if self.contract.fields.get(name) == 'py':
                k = (str(obj.r), name)
                if k not in st.pyfields:
                    st.pyfields[k] = self.contract.ghosts['pyinit:' + name](self, st, obj)
                return st.pyfields[k]
            arr, sn = self.field(st, name)
            if isinstance(arr, tuple):
                payload = z3.Select(arr[0], obj.r)
                if sn == 'opt:ref':
                    payload = ObjRef(payload, None)
                tr = self.contract.ghosts.get('truthy:' + name, None)
                if callable(tr):
                    tr = tr(payload)
                return OptVal(z3.Select(arr[1], obj.r), payload, tr)
            v = z3.Select(arr, obj.r)
            if sn == 'ref':
                return ObjRef(v, None)
            return v
        if isinstance(obj, Opaque):
            return lib.opaque_attr(obj, name)
        if is_z3(obj) and obj.sort() == Val:
            fn = z3.Function('ATTR_' + name, Val, Val)
            return fn(obj)
        if isinstance(obj, Record):
            if name not in obj.attrs:
                raise Unsupported('attribute %s of record %s' % (name, obj.name))
            return obj.attrs[name]
        if isinstance(obj, (ArrayVal, NDRef)):
            if name == 'shape':
                return tuple(obj.shape) if isinstance(obj, ArrayVal) else view_shape(obj)
            if name == 'size':
                sh = obj.shape if isinstance(obj, ArrayVal) else view_shape(obj)
                r = 1
                for s in sh:
                    r = s_mul(r, s)
                return r
            if name == 'T':
                a = as_array(st, obj)
                if a.ndim != 2:
                    raise Unsupported('.T of non 2-d')
                return ArrayVal((a.shape[1], a.shape[0]), lambda i, j: a.get(j, i), a.dtype)
            if name == 'ndim':
                return obj.ndim
            return BoundMethod(obj, name)
        if isinstance(obj, tuple) and hasattr(obj, '_fields'):
            return getattr(obj, name)
        if isinstance(obj, lib.NamedTup):
            return obj.get(name)
        if isinstance(obj, (SeqVal, PyList, list, tuple, str, dict, lib.DictVal, lib.SetVal, OptVal)):
            return BoundMethod(obj, name)
        raise Unsupported('attribute %s of %r at line %s' % (name, obj, getattr(node, 'lineno', '?')))

    def setattr(self, obj, name, v, st, node):
        if not isinstance(obj, ObjRef):
            raise Unsupported('attribute store on %r' % (obj,))
        if self.contract.fields.get(name) == 'py':
            st.pyfields[(str(obj.r), name)] = v
            return
        arr, sn = self.field(st, name)
        if isinstance(arr, tuple):
            ov = OptVal.lift(v, like=OptVal(False, z3.Select(arr[0], obj.r) if sn != 'opt:ref' else ObjRef(z3.Select(arr[0], obj.r))))
            payload = ov.some.r if isinstance(ov.some, ObjRef) else to_z3(ov.some)
            if sn == 'opt:real':
                payload = to_real(payload)
            st.heap[name] = ((z3.Store(arr[0], obj.r, payload), z3.Store(arr[1], obj.r, ov.is_none)), sn)
            return
        if sn == 'ref':
            if not isinstance(v, ObjRef):
                raise Unsupported('storing non-reference into ref field %s' % name)
            v = v.r
        elif sn == 'real':
            v = to_real(v)
        elif sn == 'int':
            v = to_int(v)
        elif sn == 'val':
            if not (is_z3(v) and v.sort() == Val):
                raise Unsupported('storing %r into opaque field %s' % (v, name))
        st.heap[name] = (z3.Store(arr, obj.r, to_z3(v)), sn)

    def expr_Attribute(self, node, st):
        obj = self.eval(node.value, st)
        return self.getattr(obj, node.attr, st, node)

    # ---- comprehensions -----------------------------------------------------------------------

    def expr_ListComp(self, node, st):
        if len(node.generators) != 1:
            raise Unsupported('nested comprehension')
        g = node.generators[0]
        itv = self.eval(g.iter, st)
        ln, item = self.iter_descr(itv, st, node)
        if is_conc_num(ln):
            out = []
            for i in range(ln):
                s = st.copy()
                self.assign(g.target, item(i), s)
                ok = True
                for cnd in g.ifs:
                    c = truthy(self.eval(cnd, s))
                    if c is False:
                        ok = False
                        break
                    if c is not True:
                        raise Unsupported('symbolic filter in comprehension over concrete sequence')
                if ok:
                    out.append(self.eval(node.elt, s))
                    for bk, bv in s.store.items():       # arrays allocated by the element expression stay alive
                        if bk not in st.store:
                            st.store[bk] = bv
                    st.pc = s.pc
            return out
        if g.ifs:
            return self.filter_comprehension(node, g, ln, item, st, getattr(itv, 'src', None))

        if not self.spec_mode:
            # obligations of the element expression, once, for an arbitrary index of the sequence
            s0 = st.copy()
            k0 = z3.Int(fresh_name('elt'))
            s0.assume(z3.And(k0 >= 0, k0 < to_int(ln)))
            self.assign(g.target, item(k0), s0)
            self.eval(node.elt, s0)

        snap = st.copy()              # the comprehension is evaluated now: later updates of the state must not leak in

        def get(i):
            s = snap.copy()
            self.assign(g.target, item(i), s)
            self.spec_mode += 1       # (obligations were emitted above for an arbitrary element)
            try:
                return self.eval(node.elt, s)
            finally:
                self.spec_mode -= 1
        probe = get(z3.Int(fresh_name('probe')))
        if isinstance(itv, SeqVal) and isinstance(probe, tuple) and probe and all(is_z3(c) for c in probe):
            # [f(x) for x in <list modelled as a z3 sequence>] with tuple elements: again a z3 sequence R of the same length with
            # R[k] == f(xs[k]) for every position (a definition of R, not an assumption about the program)
            cods = []
            for c in probe:
                cod = {Sym: SymCodec, z3.IntSort(): IntCodec, z3.RealSort(): RealCodec}.get(c.sort())
                if cod is None:
                    cods = None
                    break
                cods.append(cod)
            if cods:
                tc = tuple_codec(cods)
                R = z3.Const(fresh_name('mapped'), z3.SeqSort(tc.sort))
                st.assume(z3.Length(R) == to_int(ln))
                qk = z3.Int(fresh_name('mk'))
                st.assume(z3.ForAll([qk], z3.Implies(z3.And(qk >= 0, qk < to_int(ln)), R[qk] == tc.pack(get(qk))), patterns=[R[qk]]))
                out = SeqVal(R, tc)
                out.pointwise = lambda kk: tc.pack(get(kk))
                return out
        res = ArrayVal((ln,), get, dtype_of_value(probe))
        if getattr(itv, 'src', None) is not None:
            res.src = itv.src            # element j still stems from source position src(j) of the original sequence
            res.is_list = True           # a python list: kept as an immutable value (not turned into a numpy buffer on assignment)
        return res

    expr_GeneratorExp = expr_ListComp

    def expr_DictComp(self, node, st):
        """{key: value for x in seq} over a sequence of symbolic length: presence predicate HAS and index function IDX —
        a key is present iff some element produced it; its value is the one produced at the LAST such element"""
        if len(node.generators) != 1 or node.generators[0].ifs:
            raise Unsupported('dict comprehension with filter / nested generators')
        g = node.generators[0]
        itv = self.eval(g.iter, st)
        ln, item = self.iter_descr(itv, st, node)
        snap = st.copy()

        def at(i, what):
            s = snap.copy()
            self.assign(g.target, item(i), s)
            self.spec_mode += 1
            try:
                return self.eval(node.key if what == 'key' else node.value, s)
            finally:
                self.spec_mode -= 1
        pk = at(z3.Int(fresh_name('probe')), 'key')
        if kind(pk) not in ('int', 'real', 'bool'):
            raise Unsupported('dict comprehension with non-numeric keys')
        n = to_int(ln)
        HAS = z3.Function(fresh_name('dict_has'), z3.RealSort(), z3.BoolSort())
        IDX = z3.Function(fresh_name('dict_idx'), z3.RealSort(), z3.IntSort())
        i, k = z3.Int('i'), z3.Real('k')
        keyi = to_real(at(i, 'key'))
        st.assume(z3.ForAll([i], z3.Implies(z3.And(i >= 0, i < n), z3.And(HAS(keyi), IDX(keyi) >= i)),
                            patterns=lib.infer_patterns(keyi, [i]) or [keyi]))
        st.assume(z3.ForAll([k], z3.Implies(HAS(k), z3.And(IDX(k) >= 0, IDX(k) < n, to_real(at(IDX(k), 'key')) == k)),
                            patterns=[HAS(k)]))
        st.assume(z3.ForAll([k], z3.Implies(HAS(k), z3.And(IDX(k) >= 0, IDX(k) < n, to_real(at(IDX(k), 'key')) == k)),
                            patterns=[IDX(k)]))
        self.assumed.append('model: a dict comprehension holds exactly the produced keys, each with the value produced last')
        return lib.DictVal(lambda x: HAS(to_real(x)), lambda x: at(IDX(to_real(x)), 'value'))

    def filter_comprehension(self, node, g, ln, item, st, outer_src=None):
        """[elt for x in seq if cond] over a sequence of symbolic length: the result has a symbolic length K; the j-th
        result element is elt at source index SRC(j); SRC is strictly increasing and enumerates exactly the source
        indices at which cond holds (POS(i) is the result position of source index i)."""
        snap = st.copy()
        if not self.spec_mode:
            s0 = st.copy()
            k0 = z3.Int(fresh_name('elt'))
            s0.assume(z3.And(k0 >= 0, k0 < to_int(ln)))
            self.assign(g.target, item(k0), s0)
            for cnd in g.ifs:
                c = truthy(self.eval(cnd, s0))
                s0.assume(to_z3(c))
            self.eval(node.elt, s0)

        def at(i, what):
            s = snap.copy()
            self.assign(g.target, item(i), s)
            self.spec_mode += 1
            try:
                if what == 'cond':
                    return band(*[truthy(self.eval(c, s)) for c in g.ifs])
                return self.eval(node.elt, s)
            finally:
                self.spec_mode -= 1
        K = z3.Int(fresh_name('n_kept'))
        SRC = z3.Function(fresh_name('kept_src'), z3.IntSort(), z3.IntSort())
        POS = z3.Function(fresh_name('kept_pos'), z3.IntSort(), z3.IntSort())
        n = to_int(ln)
        j, j2, i = z3.Int('j'), z3.Int('j2'), z3.Int('i')
        st.assume(z3.And(K >= 0, K <= n))
        st.assume(z3.ForAll([j], z3.Implies(z3.And(j >= 0, j < K), z3.And(SRC(j) >= 0, SRC(j) < n, to_z3(at(SRC(j), 'cond')),
                                                                          POS(SRC(j)) == j)), patterns=[SRC(j)]))
        st.assume(z3.ForAll([j, j2], z3.Implies(z3.And(j >= 0, j < j2, j2 < K), SRC(j) < SRC(j2)),
                            patterns=[z3.MultiPattern(SRC(j), SRC(j2))]))
        ci = to_z3(at(i, 'cond'))
        pats = [POS(i)] + [p for p in lib.infer_patterns(ci, [i])]
        try:
            st.assume(z3.ForAll([i], z3.Implies(z3.And(i >= 0, i < n, ci), z3.And(POS(i) >= 0, POS(i) < K, SRC(POS(i)) == i)),
                                patterns=pats))
        except z3.Z3Exception:
            st.assume(z3.ForAll([i], z3.Implies(z3.And(i >= 0, i < n, ci), z3.And(POS(i) >= 0, POS(i) < K, SRC(POS(i)) == i)),
                                patterns=[POS(i)]))
        self.assumed.append('model: a filtered comprehension keeps exactly the elements satisfying the filter, in source order')
        probe = at(SRC(z3.Int(fresh_name('probe'))), 'elt')
        res = ArrayVal((K,), lambda q: at(SRC(to_int(q)), 'elt'), dtype_of_value(probe))
        # source position of the j-th kept element (composed with the source map of the sequence that was filtered)
        res.src = (lambda q: outer_src(SRC(to_int(q)))) if outer_src is not None else (lambda q: SRC(to_int(q)))
        res.is_list = True      # immutable python list / generator value: keeps its source map when bound to a name
        return res

    # ---- calls --------------------------------------------------------------------------------

    def opaque_args(self, vals):
        out = []
        for a in vals:
            if isinstance(a, OptVal):
                out.append(a.is_none)
                a = a.some
            if isinstance(a, ObjRef):
                out.append(a.r)
            elif isinstance(a, XReal):
                out += [a.pinf, a.ninf, a.val]
            elif is_z3(a):
                out.append(a)
            elif is_conc_num(a):
                out.append(to_z3(a))
            elif a is None:
                out.append(z3.BoolVal(True))
            elif isinstance(a, NDRef):
                out.append(z3.Const('buf_' + a.buf.split('!')[0], Val))
            else:
                raise Unsupported('opaque call with argument %r' % (a,))
        return out

    def opaque_apply(self, name, base, args, kwargs, st, node):
        """uninterpreted pure function named after the member, applied to the receiver and the arguments"""
        hook = self.contract.ghosts.get('opaque_hook')
        if hook is not None:
            r = hook(self, st, name, base, args, kwargs)
            if r is not NotImplemented:
                return r
        zargs = self.opaque_args(([base] if base is not None else []) + list(args) + [kwargs[k] for k in sorted(kwargs)])
        fn = z3.Function('OPQ_' + name + ''.join('_' + k for k in sorted(kwargs)), *[a.sort() for a in zargs], Val)
        self.assumed.append('opaque: %s is a pure function of its receiver and arguments' % name)
        return fn(*zargs)

    def expr_Call(self, node, st):
        if isinstance(node.func, ast.Attribute) and not self.spec_mode:
            basev = None
            try:
                basev = self.eval(node.func.value, st)
            except Unsupported:
                basev = None
            if is_z3(basev) and basev.sort() == Val or (isinstance(basev, OptVal) and is_z3(basev.some) and basev.some.sort() == Val):
                args = [self.eval(a, st) for a in node.args]
                kwargs = {k.arg: self.eval(k.value, st) for k in node.keywords}
                return self.opaque_apply(node.func.attr, basev, args, kwargs, st, node)
        f = self.eval(node.func, st)
        if is_z3(f) and f.sort() == Val:
            args = [self.eval(a, st) for a in node.args]
            kwargs = {k.arg: self.eval(k.value, st) for k in node.keywords}
            return self.opaque_apply('call', f, args, kwargs, st, node)
        args = []
        for a in node.args:
            if isinstance(a, ast.Starred):
                v = self.eval(a.value, st)
                if isinstance(v, (list, tuple)):
                    args.extend(v)
                elif 'starcall' in self.contract.ghosts:
                    return self.contract.ghosts['starcall'](self, st, f, v, node)
                else:
                    raise Unsupported('star-args of symbolic value')
            else:
                args.append(self.eval(a, st))
        kwargs = {}
        for k in node.keywords:
            if k.arg is None:
                raise Unsupported('**kwargs')
            kwargs[k.arg] = self.eval(k.value, st)
        return self.call(f, args, kwargs, st, node)

    def call(self, f, args, kwargs, st, node):
        if isinstance(f, SpecFunc):
            if f.defn is not None and self.pending_defs:
                self.pending_defs[-1].append(f.defn(*args))
            return f.fn(*args)
        if callable(f) and not isinstance(f, (Closure, Opaque, BoundMethod)):
            return f(self, st, *args, **kwargs)
        if isinstance(f, Closure):
            return self.call_closure(f, args, kwargs, st, node)
        if isinstance(f, BoundMethod):
            return lib.call_method(self, st, f.obj, f.name, args, kwargs, node)
        if isinstance(f, Opaque):
            if f.name.startswith('class:') and ('ctor:' + f.name[6:]) in self.contract.ghosts:
                return self.contract.ghosts['ctor:' + f.name[6:]](self, st, *args, **kwargs)
            if f.name.startswith('func:'):
                return self.call_user(f, args, kwargs, st, node)
            return lib.call_lib(self, st, f.name, args, kwargs, node)
        raise Unsupported('call of %r at line %s' % (f, getattr(node, 'lineno', '?')))

    def call_closure(self, clo, args, kwargs, st, node):
        fn = clo.node
        s = st   # closures see (and may mutate) the current state; parameters shadow temporarily
        params = [a.arg for a in fn.args.args]
        saved = {p: s.env.get(p, _MISSING) for p in params}
        defaults = fn.args.defaults
        vals = list(args)
        if len(vals) < len(params):
            nd = len(params) - len(vals)
            for p, d in zip(params[len(params) - len(defaults):], defaults):
                if p in kwargs:
                    continue
            for p in params[len(vals):]:
                if p in kwargs:
                    vals.append(kwargs[p])
                else:
                    idx = params.index(p) - (len(params) - len(defaults))
                    if idx < 0:
                        raise Unsupported('missing argument %s' % p)
                    vals.append(self.eval(defaults[idx], s))
        for p, v in zip(params, vals):
            s.env[p] = v
        try:
            if isinstance(fn, ast.Lambda):
                return self.eval(fn.body, s)
            outs = self.exec_block(fn.body, s)
            if len(outs) != 1:
                raise Unsupported('branching inner function')
            s2, oc = outs[0]
            if oc is not None and oc[0] == Outcome.RETURN:
                return oc[1]
            if oc is None:
                return None
            raise Unsupported('inner function outcome %s' % (oc[0],))
        finally:
            for p, v in saved.items():
                if v is _MISSING:
                    s.env.pop(p, None)
                else:
                    s.env[p] = v

    def call_user(self, f, args, kwargs, st, node):
        qual = f.name[5:]
        key = f.payload     # (path, qualname)
        con = self.registry.get(key)
        # contract variants (path, qualname, tag): pick the variant whose constant parameters agree with the concrete arguments
        variants = [k_ for k_ in self.registry if len(k_) > 2 and tuple(k_[:2]) == tuple(key)]
        if variants:
            from .extract import get_function
            pnames = [a.arg for a in get_function(key[0], key[1], root=self.fn.root).node.args.args]
            given = dict(zip(pnames, args))
            given.update(kwargs)

            def fits(c_):
                for pn, spec in c_.params.items():
                    if isinstance(spec, str) and spec.startswith('const:') and pn in given:
                        v = given[pn]
                        if isinstance(v, (bool, int, float, str)) or v is None:
                            if v != ast.literal_eval(spec[6:]):
                                return False
                return True
            if con is None or not fits(con):
                for k_ in variants:
                    if fits(self.registry[k_]):
                        con = self.registry[k_]
                        break
        short = qual.split('.')[-1]
        if short in self.contract.opaque or qual in self.contract.opaque:
            return self.call_opaque(qual, args, kwargs, st, node)
        if (short in self.contract.inline or qual in self.contract.inline) or con is None:
            if short not in self.contract.inline and qual not in self.contract.inline:
                # a private, loop-free helper of the same file (typically code a maintainer extracted from the function under
                # contract) is inlined: its real body is executed symbolically
                ok_auto = False
                if short.startswith('_') and not short.startswith('__') and key[0] == self.fn.path:
                    try:
                        from .extract import get_function as _gf
                        callee = _gf(key[0], key[1], root=self.fn.root).node
                        ok_auto = not any(isinstance(n_, (ast.For, ast.While, ast.AsyncFor)) for n_ in ast.walk(callee))
                    except KeyError:
                        ok_auto = False
                if not ok_auto:
                    raise Unsupported('call of %s which has neither contract nor inline permission' % qual)
                self.assumed.append('extraction: private loop-free helper %s of the same file inlined' % qual)
            return self.call_inline(key, args, kwargs, st, node)
        return self.call_contract(qual, key, con, args, kwargs, st, node)

    def call_opaque(self, qual, args, kwargs, st, node):
        """uninterpreted pure function of its (scalar) arguments"""
        mdl = self.contract.ghosts.get('opaque_model:' + qual.split('.')[-1])
        if mdl is not None:
            self.assumed.append('opaque call: %s modelled by the contract file (pure function of the listed reads)' % qual)
            return mdl(self, st, args, kwargs)
        self.assumed.append('opaque call: %s is a pure function of its arguments' % qual)
        zargs = []
        for a in list(args) + [kwargs[k] for k in sorted(kwargs)]:
            if isinstance(a, ObjRef):
                zargs.append(a.r)
            elif is_z3(a):
                zargs.append(a)
            elif is_conc_num(a):
                zargs.append(to_z3(a))
            else:
                raise Unsupported('opaque call %s with argument %r' % (qual, a))
        rk = self.contract.ghosts.get('opaque:' + qual.split('.')[-1], 'val')
        rs = {'val': Val, 'real': z3.RealSort(), 'int': z3.IntSort(), 'bool': z3.BoolSort()}[rk]
        fn = z3.Function('opq_' + qual.replace('.', '_'), *[a.sort() for a in zargs], rs)
        return fn(*zargs)

    def call_inline(self, key, args, kwargs, st, node):
        from .extract import get_function
        info = get_function(key[0], key[1], root=self.fn.root)
        fn = info.node
        sub = Exec.__new__(Exec)
        sub.__dict__.update(self.__dict__)
        sub.fn = info
        sub.loop_nodes = sub._number_loops(fn)
        inl = self.contract.ghosts.get('inline:' + key[1].split('.')[-1])
        if inl is not None:
            sub.contract = inl
        else:
            sub.contract = copy.copy(self.contract)
            sub.contract.loops = {}
        sub.vcs = self.vcs
        s = st.copy()
        params = [a.arg for a in fn.args.args]
        vals = list(args)
        defaults = fn.args.defaults
        for p in params[len(vals):]:
            if p in kwargs:
                vals.append(kwargs[p])
            else:
                idx = params.index(p) - (len(params) - len(defaults))
                if idx < 0:
                    raise Unsupported('missing argument %s in inline call' % p)
                vals.append(ast.literal_eval(defaults[idx]))
        s.env = dict(zip(params, vals))
        outs = sub.exec_block(fn.body, s)
        rets = [(s2, oc) for s2, oc in outs]
        if len(rets) != 1:
            # merge scalar returns by path conditions
            base_n = len(st.pc)
            normal = [(s2, oc) for s2, oc in rets if oc is None or oc[0] == Outcome.RETURN]
            if len(normal) != len(rets):
                raise Unsupported('inlined callee %s may raise' % key[1])
            val = None
            for s2, oc in reversed(normal):
                v = oc[1] if oc is not None else None
                cond = band(*s2.pc[base_n:])
                val = v if val is None and s2 is normal[-1][0] else ite(to_z3(cond), v, val)
            # state effects of branching callees cannot be merged here: only pure callees may branch
            for s2, oc in normal:
                if s2.store != st.store or s2.heap != st.heap or s2.pyfields != st.pyfields:
                    raise Unsupported('branching callee %s has side effects: it must be called at statement level' % key[1])
            return val
        s2, oc = rets[0]
        st.store = s2.store
        st.heap = s2.heap
        st.pc = s2.pc
        if oc is None:
            return None
        if oc[0] == Outcome.RETURN:
            return oc[1]
        raise Unsupported('inlined callee %s raised' % key[1])

    def call_contract(self, qual, key, con, args, kwargs, st, node):
        """modular call: assert requires, havoc modifies, assume public ensures"""
        from .extract import get_function
        info = get_function(key[0], key[1], root=self.fn.root)
        fn = info.node
        params = [a.arg for a in fn.args.args]
        vals = list(args)
        defaults = fn.args.defaults
        for p in params[len(vals):]:
            if p in kwargs:
                vals.append(kwargs[p])
            else:
                idx = params.index(p) - (len(params) - len(defaults))
                if idx < 0:
                    raise Unsupported('missing argument %s in call of %s' % (p, qual))
                vals.append(ast.literal_eval(defaults[idx]))
        env = dict(zip(params, vals))
        for p_ in params:
            if env[p_] is None and con.params.get(p_) == 'sym':
                env[p_] = NONE_SYM          # None passed where the callee's contract types the parameter as a symbol
        for p_ in params:
            env.setdefault(p_ + '_0', env[p_])
        for r in con.requires:
            c = self.eval_spec(r, st, extra=env)
            self.emit(st, 'pre-call:%s' % qual.split('.')[-1], to_z3(c), node, r)
            st.assume(self.eval_spec(r, st, extra=env, role='hyp'))     # proved above (or reported): usable from here on
        for exc, cond in con.ensures_exc.items():
            c = self.eval_spec(cond, st, extra=env)
            self.emit(st, 'pre-call:%s-does-not-raise-%s' % (qual.split('.')[-1], exc), to_z3(bnot(c)), node, 'not (%s)' % cond)
        if con.result is None:
            raise Unsupported('contract of %s lacks a result constructor for call sites' % qual)
        pre = st.copy()
        for m in con.modifies:
            v = env.get(m)
            if not isinstance(v, NDRef):
                raise Unsupported('callee %s modifies %s which is not an array at the call site' % (qual, m))
            oldc = st.store[v.buf]
            # the callee may write anywhere into the buffer behind the argument
            st.store[v.buf] = fresh_array(oldc.shape, 'xreal2' if oldc.dtype == 'xreal' else oldc.dtype, m)
        res = con.result(self, st, env)
        env2 = dict(env)
        env2['result'] = res
        saved_entry = self.entry
        self.entry = pre            # old(...) in the callee's postconditions refers to the state before the call
        try:
            for e in con.public_ensures:
                if isinstance(e, dict):
                    # clause stated with spec functions that only some callers define: not assumed where they are missing
                    if any(nm not in self.spec_funcs for nm in e['needs']):
                        continue
                    e = e['text']
                st.assume(self.eval_spec(e, st, extra=env2, role='hyp'))
        finally:
            self.entry = saved_entry
        self.assumed.append('callee contract: %s' % qual)
        return res


def mask_key(m):
    if isinstance(m, NDRef):
        return (m.buf, tuple((str(d.fixed), str(d.start), str(d.step), str(d.length)) for d in m.dims))
    return id(m)


class SpecFunc:
    """specification function.  defn(*args) (optional) is a *valid* fact about this application (one unfolding of
    the recursive definition); the engine conjoins it next to every occurrence instead of handing the solver a
    self-triggering quantified axiom (no matching loops, deterministic proofs)."""

    def __init__(self, fn, name='', defn=None):
        self.fn, self.name, self.defn = fn, name, defn


_MISSING = object()


def merge_obj(c, a, b):
    try:
        return ite(c, a, b)
    except Unsupported:
        raise
