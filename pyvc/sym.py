"""pyvc.sym — symbolic value domain of the VC generator.

Values manipulated by the symbolic executor are either concrete Python values
(int, float, bool, None, str, tuple, list of values) or one of:

  z3 ArithRef (Int / Real), z3 BoolRef, z3 const of an uninterpreted sort (opaque element)
  XReal      extended real: +inf / -inf flags and a Real value
  ArrayVal   immutable n-d array value: symbolic shape + python closure index -> element
  NDRef      reference (view) into a mutable buffer held in State.store
  SeqVal     z3 Seq wrapper (python list / str used with append/insert/concat/slice/len)
  ObjRef     heap reference (Burstall-Bornat heap: one z3 Array per field in State.heap)
  Opaque     an opaque python-level thing with a name (module, function, class)

Assumptions of the encoding (A1, A2 of DESIGN.md): Python ints and numpy integers are mathematical
integers; floats are reals extended with +-inf, NaN is excluded.
"""
import itertools
import z3

_cnt = itertools.count()


def fresh_name(base):
    return "%s!%d" % (base, next(_cnt))


def reset_names():
    """restart the fresh-name counter (called per function so that the generated obligations are textually
    identical from run to run, whatever else was verified before)"""
    global _cnt
    _cnt = itertools.count()


class Unsupported(Exception):
    """Construct outside the modelled subset: the function is reported undecided, never violated."""


# ------------------------------------------------------------------------------------------------
# sorts

Sym = z3.DeclareSort('Sym')      # opaque hashable element (character, label, ...)
NONE_SYM = z3.Const('None_symbol', Sym)      # python's None where a symbol is expected (default empty_symbol=None)
Val = z3.DeclareSort('Val')      # opaque python object (string, matrix, ...) held in heap fields
Ref = z3.IntSort()               # heap references are ints (distinctness stated explicitly)


class XReal:
    """Extended real. pinf / ninf are z3 Bools (mutually exclusive by construction), val is a Real
    that is meaningful only when neither flag is set."""
    __slots__ = ('pinf', 'ninf', 'val')

    def __init__(self, pinf, ninf, val):
        self.pinf = pinf if z3.is_expr(pinf) else z3.BoolVal(bool(pinf))
        self.ninf = ninf if z3.is_expr(ninf) else z3.BoolVal(bool(ninf))
        self.val = val if z3.is_expr(val) else z3.RealVal(val)

    def __repr__(self):
        return "XReal(%s,%s,%s)" % (self.pinf, self.ninf, self.val)

    @staticmethod
    def fresh(base):
        n = z3.Bool(fresh_name(base + '.ninf'))
        return XReal(z3.And(z3.Bool(fresh_name(base + '.pinf')), z3.Not(n)), n, z3.Real(fresh_name(base + '.val')))


PINF = XReal(True, False, 0)
NINF = XReal(False, True, 0)


def is_z3(v):
    return z3.is_expr(v)


def is_conc_num(v):
    return isinstance(v, (int, float, bool)) and not isinstance(v, XReal)


def is_scalar(v):
    return is_conc_num(v) or isinstance(v, XReal) or (is_z3(v) and not z3.is_seq(v) and not z3.is_array(v))


def z3_kind(v):
    s = v.sort()
    if s == z3.IntSort():
        return 'int'
    if s == z3.RealSort():
        return 'real'
    if s == z3.BoolSort():
        return 'bool'
    return 'other'


def kind(v):
    """int | real | bool | xreal | sym | none | str | other"""
    if isinstance(v, bool):
        return 'bool'
    if isinstance(v, int):
        return 'int'
    if isinstance(v, float):
        return 'xreal' if v in (float('inf'), float('-inf')) else 'real'
    if isinstance(v, XReal):
        return 'xreal'
    if v is None:
        return 'none'
    if isinstance(v, str):
        return 'str'
    if is_z3(v):
        k = z3_kind(v)
        if k != 'other':
            return k
        return 'sym'
    return 'other'


def to_z3(v):
    """concrete python number -> z3 term (XReal for infinities)"""
    if is_z3(v) or isinstance(v, XReal):
        return v
    if isinstance(v, bool):
        return z3.BoolVal(v)
    if isinstance(v, int):
        return z3.IntVal(v)
    if isinstance(v, float):
        if v == float('inf'):
            return PINF
        if v == float('-inf'):
            return NINF
        if v != v:
            raise Unsupported('NaN')
        if v == int(v) and abs(v) < 1e15:
            return z3.RealVal(int(v))
        return z3.RealVal(repr(v))
    raise Unsupported('to_z3 of %r' % (v,))


def to_real(v):
    v = to_z3(v)
    if isinstance(v, XReal):
        return v
    k = z3_kind(v)
    if k == 'real':
        return v
    if k == 'int':
        return z3.ToReal(v)
    if k == 'bool':
        return z3.If(v, z3.RealVal(1), z3.RealVal(0))
    raise Unsupported('to_real of %s' % v)


def to_int(v):
    v = to_z3(v)
    if isinstance(v, XReal):
        raise Unsupported('int of extended real')
    k = z3_kind(v)
    if k == 'int':
        return v
    if k == 'bool':
        return z3.If(v, z3.IntVal(1), z3.IntVal(0))
    raise Unsupported('to_int of %s' % v)


def to_xreal(v):
    v = to_z3(v)
    if isinstance(v, XReal):
        return v
    return XReal(False, False, to_real(v))


def simp(e):
    if is_z3(e):
        return z3.simplify(e)
    return e


VAL_TRUTHY = [None]


def truthy(v):
    """python truthiness as a python bool or z3 Bool"""
    if isinstance(v, bool):
        return v
    if v is None:
        return False
    if isinstance(v, (int, float)):
        return v != 0
    if isinstance(v, (str, tuple, list, dict)):
        return len(v) > 0
    if isinstance(v, XReal):
        return z3.Or(v.pinf, v.ninf, v.val != 0)
    if isinstance(v, ArrayVal) and getattr(v, 'is_list', False):
        return bnot(s_eq(v.shape[0], 0))          # a python list (modelled as an immutable array): non-empty
    if isinstance(v, (ArrayVal, NDRef)):
        raise Unsupported('truth value of an array')
    if isinstance(v, SeqVal):
        return z3.Length(v.s) > 0
    if isinstance(v, PyList):
        return bnot(s_eq(v.length, 0))
    if isinstance(v, (ObjRef, Opaque)):
        return True
    if isinstance(v, OptVal):
        if v.truthy_when_some is None:
            raise Unsupported('truthiness of optional %s' % v)
        return z3.And(z3.Not(v.is_none), v.truthy_when_some)
    if is_z3(v) and VAL_TRUTHY[0] is not None and v.sort() == Val:
        return VAL_TRUTHY[0]        # opaque objects of this contract are declared truthy (ghost 'truthy_val')
    if is_z3(v):
        k = z3_kind(v)
        if k == 'bool':
            return v
        if k in ('int', 'real'):
            return v != 0
    raise Unsupported('truthiness of %r' % (v,))


def band(*xs):
    xs = [x for x in xs if x is not True]
    if any(x is False for x in xs):
        return False
    if not xs:
        return True
    if len(xs) == 1:
        return xs[0]
    return z3.And(*[to_z3(x) for x in xs])


def bor(*xs):
    xs = [x for x in xs if x is not False]
    if any(x is True for x in xs):
        return True
    if not xs:
        return False
    if len(xs) == 1:
        return xs[0]
    return z3.Or(*[to_z3(x) for x in xs])


def bnot(x):
    if isinstance(x, bool):
        return not x
    return z3.Not(x)


def bimplies(a, b):
    if a is True:
        return b
    if a is False or b is True:
        return True
    return z3.Implies(to_z3(a), to_z3(b))


def ite(c, a, b):
    """If-merge of two scalar values"""
    if c is True:
        return a
    if c is False:
        return b
    if a is b:
        return a
    if a is None and b is None:
        return None
    if isinstance(a, XReal) or isinstance(b, XReal) or kind(a) == 'xreal' or kind(b) == 'xreal':
        a, b = to_xreal(a), to_xreal(b)
        return XReal(z3.If(c, a.pinf, b.pinf), z3.If(c, a.ninf, b.ninf), z3.If(c, a.val, b.val))
    if isinstance(a, tuple) and isinstance(b, tuple) and len(a) == len(b):
        return tuple(ite(c, x, y) for x, y in zip(a, b))
    if isinstance(a, str) and isinstance(b, str):
        if a == b:
            return a
        raise Unsupported('ite over distinct concrete strings')
    if isinstance(a, SeqVal) and isinstance(b, SeqVal):
        return SeqVal(z3.If(c, a.s, b.s), a.elem)
    if isinstance(a, ObjRef) and isinstance(b, ObjRef):
        return ObjRef(z3.If(c, a.r, b.r), a.cls)
    if isinstance(a, Record) and isinstance(b, Record) and set(a.attrs) == set(b.attrs):
        return Record({k: ite(c, a.attrs[k], b.attrs[k]) for k in a.attrs}, a.name)
    if isinstance(a, OptVal) or isinstance(b, OptVal) or a is None or b is None:
        a, b = OptVal.lift(a, like=b), OptVal.lift(b, like=a)
        return OptVal(z3.If(c, a.is_none, b.is_none), ite(c, a.some, b.some),
                      None if (a.truthy_when_some is None or b.truthy_when_some is None)
                      else ite(c, a.truthy_when_some, b.truthy_when_some))
    za, zb = to_z3(a), to_z3(b)
    ka, kb = z3_kind(za), z3_kind(zb)
    if ka != kb:
        if {ka, kb} <= {'int', 'real', 'bool'}:
            if 'real' in (ka, kb):
                za, zb = to_real(za), to_real(zb)
            else:
                za, zb = to_int(za), to_int(zb)
        else:
            raise Unsupported('ite over different sorts %s / %s' % (za.sort(), zb.sort()))
    return z3.If(c, za, zb)


# ------------------------------------------------------------------------------------------------
# scalar arithmetic with python semantics

def _num_kind(a, b):
    ka, kb = kind(a), kind(b)
    for k in (ka, kb):
        if k not in ('int', 'real', 'bool', 'xreal'):
            raise Unsupported('arithmetic on %s (%r)' % (k, a if k == ka else b))
    if 'xreal' in (ka, kb):
        return 'xreal'
    if 'real' in (ka, kb):
        return 'real'
    return 'int'


def _is_zero(v):
    return is_conc_num(v) and not isinstance(v, bool) and v == 0 and not isinstance(v, float)


def _is_one(v):
    return is_conc_num(v) and not isinstance(v, bool) and v == 1 and not isinstance(v, float)


def s_add(a, b):
    if is_conc_num(a) and is_conc_num(b):
        return a + b
    if _is_zero(a) and kind(b) in ('int', 'real', 'xreal'):
        return b
    if _is_zero(b) and kind(a) in ('int', 'real', 'xreal'):
        return a
    k = _num_kind(a, b)
    if k == 'xreal':
        a, b = to_xreal(a), to_xreal(b)
        # inf + (-inf) is NaN: excluded by assumption A2 (callers may emit a definedness obligation)
        return XReal(z3.Or(a.pinf, b.pinf), z3.Or(a.ninf, b.ninf), a.val + b.val)
    if k == 'real':
        return to_real(a) + to_real(b)
    return to_int(a) + to_int(b)


def s_neg(a):
    if is_conc_num(a):
        return -a
    if isinstance(a, XReal):
        return XReal(a.ninf, a.pinf, -a.val)
    if kind(a) == 'bool':
        return -to_int(a)
    if kind(a) not in ('int', 'real'):
        raise Unsupported('negation of a non-numeric value %r' % (a,))
    return -a


def s_sub(a, b):
    if is_conc_num(a) and is_conc_num(b):
        return a - b
    return s_add(a, s_neg(b))


def s_mul(a, b):
    if is_conc_num(a) and is_conc_num(b):
        return a * b
    if _is_one(a) and kind(b) in ('int', 'real', 'xreal'):
        return b
    if _is_one(b) and kind(a) in ('int', 'real', 'xreal'):
        return a
    k = _num_kind(a, b)
    if k == 'xreal':
        a, b = to_xreal(a), to_xreal(b)
        # supported: (finite positive or one) * inf patterns; sign reasoning kept simple:
        fa = z3.And(z3.Not(a.pinf), z3.Not(a.ninf))
        fb = z3.And(z3.Not(b.pinf), z3.Not(b.ninf))
        posa = z3.Or(a.pinf, z3.And(fa, a.val > 0))
        nega = z3.Or(a.ninf, z3.And(fa, a.val < 0))
        posb = z3.Or(b.pinf, z3.And(fb, b.val > 0))
        negb = z3.Or(b.ninf, z3.And(fb, b.val < 0))
        anyinf = z3.Or(a.pinf, a.ninf, b.pinf, b.ninf)
        pinf = z3.And(anyinf, z3.Or(z3.And(posa, posb), z3.And(nega, negb)))
        ninf = z3.And(anyinf, z3.Or(z3.And(posa, negb), z3.And(nega, posb)))
        # 0 * inf is NaN: excluded (A2)
        return XReal(pinf, ninf, a.val * b.val)
    if k == 'real':
        return to_real(a) * to_real(b)
    return to_int(a) * to_int(b)


def s_truediv(a, b):
    if is_conc_num(a) and is_conc_num(b):
        return a / b
    k = _num_kind(a, b)
    if k == 'xreal':
        raise Unsupported('division of extended reals')
    return to_real(a) / to_real(b)


def s_floordiv(a, b):
    if is_conc_num(a) and is_conc_num(b):
        return a // b
    k = _num_kind(a, b)
    if k != 'int':
        raise Unsupported('floor division of non-integers')
    a, b = to_int(a), to_int(b)
    if is_conc_num(b) or z3.is_int_value(b):
        bv = b if is_conc_num(b) else b.as_long()
        if bv > 0:
            return a / b           # z3 Int division floors for positive divisors
        if bv < 0:
            return (-a) / (-b)
    return z3.If(b > 0, a / b, (-a) / (-b))


def s_mod(a, b):
    if is_conc_num(a) and is_conc_num(b):
        return a % b
    return s_sub(a, s_mul(b, s_floordiv(a, b)))


def s_lt(a, b):
    if is_conc_num(a) and is_conc_num(b):
        return a < b
    k = _num_kind(a, b)
    if k == 'xreal':
        a, b = to_xreal(a), to_xreal(b)
        fa = z3.And(z3.Not(a.pinf), z3.Not(a.ninf))
        fb = z3.And(z3.Not(b.pinf), z3.Not(b.ninf))
        return z3.Or(z3.And(a.ninf, z3.Not(b.ninf)),
                     z3.And(b.pinf, z3.Not(a.pinf)),
                     z3.And(fa, fb, a.val < b.val))
    if k == 'real':
        return to_real(a) < to_real(b)
    return to_int(a) < to_int(b)


def s_le(a, b):
    if is_conc_num(a) and is_conc_num(b):
        return a <= b
    return bnot(s_lt(b, a))


def s_eq(a, b):
    """python == on scalars / opaque values (structural for tuples)"""
    if a is None or b is None:
        if isinstance(a, OptVal):
            return a.is_none
        if isinstance(b, OptVal):
            return b.is_none
        if a is None and b is None:
            return True
        other = b if a is None else a
        if isinstance(other, (ObjRef, SeqVal, ArrayVal, NDRef, XReal, tuple, str, int, float)) or is_z3(other):
            return False
        raise Unsupported('== None on %r' % (other,))
    if isinstance(a, OptVal) or isinstance(b, OptVal):
        a2, b2 = OptVal.lift(a, like=b), OptVal.lift(b, like=a)
        return z3.Or(z3.And(a2.is_none, b2.is_none),
                     z3.And(z3.Not(a2.is_none), z3.Not(b2.is_none), to_z3(s_eq(a2.some, b2.some))))
    if isinstance(a, str) and isinstance(b, str):
        return a == b
    if isinstance(a, (tuple, list)) and isinstance(b, (tuple, list)):
        if len(a) != len(b):
            return False
        return band(*[s_eq(x, y) for x, y in zip(a, b)])
    if isinstance(a, SeqVal) and isinstance(b, SeqVal):
        return a.s == b.s
    if isinstance(a, SeqVal) and isinstance(b, (list, tuple)) and len(b) == 0:
        return z3.Length(a.s) == 0
    if isinstance(b, SeqVal) and isinstance(a, (list, tuple)) and len(a) == 0:
        return z3.Length(b.s) == 0
    if isinstance(a, ObjRef) and isinstance(b, ObjRef):
        return a.r == b.r
    if is_conc_num(a) and is_conc_num(b):
        return a == b
    ka, kb = kind(a), kind(b)
    if ka == 'sym' or kb == 'sym':
        if ka != kb:
            raise Unsupported('== between opaque element and %s' % (kb if ka == 'sym' else ka))
        if a.sort() != b.sort():
            return False
        return a == b
    if ka == 'str' or kb == 'str':
        raise Unsupported('== between concrete str and symbolic value')
    k = _num_kind(a, b)
    if k == 'xreal':
        a, b = to_xreal(a), to_xreal(b)
        fa = z3.And(z3.Not(a.pinf), z3.Not(a.ninf))
        fb = z3.And(z3.Not(b.pinf), z3.Not(b.ninf))
        return z3.Or(z3.And(a.pinf, b.pinf), z3.And(a.ninf, b.ninf), z3.And(fa, fb, a.val == b.val))
    if k == 'real':
        return to_real(a) == to_real(b)
    if ka == 'bool' and kb == 'bool':
        return to_z3(a) == to_z3(b)
    return to_int(a) == to_int(b)


def s_ne(a, b):
    return bnot(s_eq(a, b))


def s_min(a, b):
    if is_conc_num(a) and is_conc_num(b):
        return min(a, b)
    return ite(s_lt(b, a), b, a)          # python/numpy: min keeps the first on ties


def s_max(a, b):
    if is_conc_num(a) and is_conc_num(b):
        return max(a, b)
    return ite(s_lt(a, b), b, a)


def s_abs(a):
    if is_conc_num(a):
        return abs(a)
    return ite(s_lt(a, 0), s_neg(a), a)


# ------------------------------------------------------------------------------------------------
# optional values

class OptVal:
    """value that may be None: is_none (z3 Bool) + payload"""

    def __init__(self, is_none, some, truthy_when_some=True):
        self.is_none = is_none if is_z3(is_none) else z3.BoolVal(bool(is_none))
        self.some = some
        self.truthy_when_some = truthy_when_some

    @staticmethod
    def lift(v, like=None):
        if isinstance(v, OptVal):
            return v
        if v is None:
            payload = like.some if isinstance(like, OptVal) else like
            if payload is None:
                raise Unsupported('cannot lift None without a payload template')
            return OptVal(True, payload, None if not isinstance(like, OptVal) else like.truthy_when_some)
        return OptVal(False, v, None)

    def __repr__(self):
        return 'Opt(%s,%s)' % (self.is_none, self.some)


# ------------------------------------------------------------------------------------------------
# arrays

class ArrayVal:
    """immutable array value. shape: tuple of (python int | z3 Int); get(*idx) -> element value
    dtype: 'int' | 'real' | 'bool' | 'xreal' | 'sym' | 'obj' (python values)"""

    def __init__(self, shape, get, dtype):
        self.shape = tuple(shape)
        self.get = get
        self.dtype = dtype

    @property
    def ndim(self):
        return len(self.shape)

    def __repr__(self):
        return 'ArrayVal(shape=%s,dtype=%s)' % (self.shape, self.dtype)


class Dim:
    """one buffer axis of a view: either fixed index, or slice (start, step, length)"""
    __slots__ = ('fixed', 'start', 'step', 'length')

    def __init__(self, fixed=None, start=0, step=1, length=None):
        self.fixed, self.start, self.step, self.length = fixed, start, step, length


class NDRef:
    """view into State.store[buf]"""

    def __init__(self, buf, dims):
        self.buf = buf
        self.dims = list(dims)

    @property
    def ndim(self):
        return sum(1 for d in self.dims if d.fixed is None)

    def __repr__(self):
        return 'NDRef(%s,%d-d)' % (self.buf, self.ndim)


class MaskedSel:
    """the value of `arr[mask]` (compressed selection); only usable as the right-hand side of an
    assignment through the same mask, or in reductions"""

    def __init__(self, arr, mask):
        self.arr, self.mask = arr, mask


class SeqVal:
    """python list/str modelled as z3 Seq; elem: description of the element encoding"""

    def __init__(self, s, elem):
        self.s = s
        self.elem = elem      # ElemCodec

    def __repr__(self):
        return 'SeqVal(%s)' % self.s


class ElemCodec:
    """how python element values are packed into the z3 element sort of a SeqVal"""

    def __init__(self, sort, pack, unpack, name):
        self.sort, self.pack, self.unpack, self.name = sort, pack, unpack, name


SymCodec = ElemCodec(Sym, lambda v: v, lambda t: t, 'Sym')
IntCodec = ElemCodec(z3.IntSort(), lambda v: to_int(v), lambda t: t, 'Int')
RealCodec = ElemCodec(z3.RealSort(), lambda v: to_real(v), lambda t: t, 'Real')
ValCodec = ElemCodec(Val, lambda v: v, lambda t: t, 'Val')


RefCodec = ElemCodec(z3.IntSort(), lambda v: v.r, lambda t: ObjRef(t), 'Ref')


def seq_codec(inner):
    """codec for lists whose elements are themselves z3-sequence modelled lists"""
    def pack(v):
        if isinstance(v, (list, tuple)):
            v = list_to_seq(v, inner)
        return v.s
    cod = ElemCodec(z3.SeqSort(inner.sort), pack, lambda t: SeqVal(t, inner), 'Seq_' + inner.name)
    cod.inner = inner
    return cod


def list_to_seq(items, inner):
    parts = [z3.Unit(inner.pack(e)) for e in items]
    if not parts:
        return SeqVal(z3.Empty(z3.SeqSort(inner.sort)), inner)
    return SeqVal(parts[0] if len(parts) == 1 else z3.Concat(*parts), inner)

_pair_sorts = {}


def tuple_codec(codecs):
    key = tuple(c.name for c in codecs)
    if key not in _pair_sorts:
        name = 'Tup_' + '_'.join(key)
        sort, mk, accs = z3.TupleSort(name, [c.sort for c in codecs])
        _pair_sorts[key] = (sort, mk, accs)
    sort, mk, accs = _pair_sorts[key]

    def pack(v):
        if isinstance(v, list):
            v = tuple(v)
        if not isinstance(v, tuple) or len(v) != len(codecs):
            raise Unsupported('packing %r as %s' % (v, key))
        return mk(*[c.pack(x) for c, x in zip(codecs, v)])

    def unpack(t):
        return tuple(c.unpack(z3.simplify(a(t))) for c, a in zip(codecs, accs))
    cod = ElemCodec(sort, pack, unpack, 'Tup_' + '_'.join(key))
    cod.parts = codecs
    cod.mk, cod.accs = mk, accs
    return cod


def opt_codec(inner):
    """codec for elements that may be None"""
    base = tuple_codec([ElemCodec(z3.BoolSort(), lambda v: to_z3(v), lambda t: t, 'Bool'), inner])
    dflt = z3.Const('dflt_' + inner.name, inner.sort)

    def pack(v):
        if v is None:
            return base.mk(z3.BoolVal(True), dflt)
        if isinstance(v, OptVal):
            return base.mk(v.is_none, inner.pack(v.some))
        return base.mk(z3.BoolVal(False), inner.pack(v))

    def unpack(t):
        return OptVal(z3.simplify(base.accs[0](t)), inner.unpack(z3.simplify(base.accs[1](t))), None)
    return ElemCodec(base.sort, pack, unpack, 'Opt_' + inner.name)


class PyList:
    """mutable python list with (possibly symbolic) length and indexable contents, stored as a
    buffer: used for `[None] * n` + item assignment.  Held in State.store like an ndarray."""

    def __init__(self, buf):
        self.buf = buf

    length = None


class ObjRef:
    def __init__(self, r, cls=None):
        self.r = r
        self.cls = cls

    def __repr__(self):
        return 'ObjRef(%s:%s)' % (self.r, self.cls)


class Opaque:
    """named opaque python thing (module, class, function, external object)"""

    def __init__(self, name, payload=None):
        self.name = name
        self.payload = payload

    def __repr__(self):
        return 'Opaque(%s)' % self.name


def fresh_scalar(dtype, base):
    if dtype == 'int':
        return z3.Int(fresh_name(base))
    if dtype == 'real':
        return z3.Real(fresh_name(base))
    if dtype == 'bool':
        return z3.Bool(fresh_name(base))
    if dtype == 'xreal':
        return XReal.fresh(base)
    if dtype == 'sym':
        return z3.Const(fresh_name(base), Sym)
    if dtype == 'val':
        return z3.Const(fresh_name(base), Val)
    raise Unsupported('fresh scalar of dtype %s' % dtype)


def fresh_array(shape, dtype, base):
    """array value with the given shape and unconstrained contents (z3 functions of the indices)"""
    n = len(shape)
    dom = [z3.IntSort()] * n
    if dtype == 'xreal':
        fp = z3.Function(fresh_name(base + '.pinf'), *dom, z3.BoolSort())
        fv = z3.Function(fresh_name(base + '.val'), *dom, z3.RealSort())
        return ArrayVal(shape, lambda *i: XReal(fp(*map(to_int, i)), False, fv(*map(to_int, i))), dtype)
    if dtype == 'xreal2':
        fp = z3.Function(fresh_name(base + '.pinf'), *dom, z3.BoolSort())
        fn = z3.Function(fresh_name(base + '.ninf'), *dom, z3.BoolSort())
        fv = z3.Function(fresh_name(base + '.val'), *dom, z3.RealSort())
        return ArrayVal(shape, lambda *i: XReal(z3.And(fp(*map(to_int, i)), z3.Not(fn(*map(to_int, i)))),
                                                fn(*map(to_int, i)), fv(*map(to_int, i))), 'xreal')
    rng = {'int': z3.IntSort(), 'real': z3.RealSort(), 'bool': z3.BoolSort(), 'sym': Sym, 'val': Val}.get(dtype)
    if rng is None:
        raise Unsupported('fresh array of dtype %s' % dtype)
    f = z3.Function(fresh_name(base), *dom, rng)
    return ArrayVal(shape, lambda *i: f(*map(to_int, i)), dtype)


def dtype_of_value(v):
    k = kind(v)
    if k in ('int', 'real', 'bool', 'xreal', 'sym'):
        return k
    return 'obj'


def join_dtype(a, b):
    order = ['bool', 'int', 'real', 'xreal']
    if a in order and b in order:
        return order[max(order.index(a), order.index(b))]
    if a == b:
        return a
    raise Unsupported('mixing dtypes %s and %s' % (a, b))


def cast(v, dtype):
    if dtype == 'int':
        return v if is_conc_num(v) and not isinstance(v, float) else to_int(v)
    if dtype == 'real':
        if isinstance(v, XReal):
            return v
        return float(v) if is_conc_num(v) else to_real(v)
    if dtype == 'xreal':
        return to_xreal(v)
    if dtype == 'bool':
        return truthy(v)
    return v


class Record:
    """opaque python object described only by the attributes / zero-argument methods the code uses"""

    def __init__(self, attrs, name='record'):
        self.attrs, self.name = attrs, name

    def __repr__(self):
        return 'Record(%s)' % self.name
