"""pyvc.lib — model tables for builtins / numpy (assumption A3: each entry is an assumed contract of the
dependency; differential-tested against the real library by pyvc.conform)."""
import z3
from .sym import *
from .arrays import *

BUILTINS = {'len', 'range', 'enumerate', 'zip', 'reversed', 'list', 'tuple', 'min', 'max', 'sum', 'abs', 'int',
            'float', 'sorted', 'all', 'any', 'isinstance', 'print', 'str', 'dict', 'set', 'bool', 'iter', 'next',
            'exit', 'round', 'type', 'ValueError', 'TypeError', 'RuntimeError', 'Exception', 'IndexError',
            'KeyError', 'StopIteration', 'ZeroDivisionError', 'map', 'filter', 'object', 'id', 'hash', 'repr', 'getattr', 'hasattr'}


class RangeVal:
    def __init__(self, start, stop, step=1):
        self.start, self.stop, self.step = start, stop, step

    def length(self):
        if not is_conc_num(self.step):
            raise Unsupported('symbolic range step')
        if self.step == 1:
            d = s_sub(self.stop, self.start)
            return ite(s_lt(d, 0), 0, d) if not is_conc_num(d) else max(d, 0)
        if self.step > 0:
            d = s_sub(self.stop, self.start)
            if is_conc_num(d):
                return max(0, (d + self.step - 1) // self.step)
            return ite(s_le(d, 0), 0, s_floordiv(s_add(d, self.step - 1), self.step))
        d = s_sub(self.start, self.stop)
        st = -self.step
        if is_conc_num(d):
            return max(0, (d + st - 1) // st)
        return ite(s_le(d, 0), 0, s_floordiv(s_add(d, st - 1), st))


class EnumVal:
    def __init__(self, inner, start=0):
        self.inner, self.start = inner, start


class ZipVal:
    def __init__(self, parts):
        self.parts = parts


class ReversedVal:
    def __init__(self, inner):
        self.inner = inner


class NamedTup:
    def __init__(self, fields, values):
        self.fields, self.values = list(fields), list(values)

    def get(self, name):
        return self.values[self.fields.index(name)]


class DictVal:
    """symbolic dict: key presence predicate + value function (python closures over z3 terms)"""

    def __init__(self, has, get):
        self._has, self._get = has, get

    def has(self, k):
        return self._has(k)

    def get(self, k):
        return self._get(k)

    def set(self, k, v):
        oh, og = self._has, self._get
        self._has = lambda x: bor(s_eq(x, k), oh(x))
        self._get = lambda x: ite(to_z3(s_eq(x, k)), v, og(x))


class SetVal:
    def __init__(self, has):
        self.has = has


# ------------------------------------------------------------------------------------------------
# specification builtins

def _contains(t, vs_ids, memo):
    k = t.get_id()
    if k in memo:
        return memo[k]
    r = k in vs_ids or any(_contains(c, vs_ids, memo) for c in t.children())
    memo[k] = r
    return r


def _has_ite(t, memo):
    k = t.get_id()
    if k not in memo:
        memo[k] = z3.is_app(t) and (t.decl().kind() == z3.Z3_OP_ITE or any(_has_ite(c, memo) for c in t.children()))
    return memo[k]


def infer_patterns(body, vs):
    """triggers for a universally quantified hypothesis: applications of uninterpreted functions whose arguments
    are bound variables or variable-free terms (no arithmetic over a bound variable inside the trigger), so that
    instantiation never feeds itself (no matching loops)."""
    vs_ids = {v.get_id() for v in vs}
    memo = {}
    cands = []
    seen = set()
    todo = [body]
    while todo:
        t = todo.pop()
        if t.get_id() in seen or not z3.is_app(t):
            if z3.is_quantifier(t):
                pass
            continue
        seen.add(t.get_id())
        todo.extend(t.children())
        if t.decl().kind() == z3.Z3_OP_UNINTERPRETED and t.num_args() > 0:
            ok = True
            covered = set()
            for a in t.children():
                if a.get_id() in vs_ids:
                    covered.add(a.get_id())
                elif _contains(a, vs_ids, memo):
                    ok = False
                    break
            if ok and covered and not _has_ite(t, {}):
                cands.append((t, covered))
    # prefer reads of program buffers (fresh functions, named base!N) over specification functions: an
    # instance then never creates a new term matching its own trigger
    prog = [(t, c) for t, c in cands if '!' in t.decl().name()]
    if prog:
        cov = set()
        for t, c in prog:
            cov |= c
        if cov == vs_ids:
            cands = prog
    full = [t for t, c in cands if c == vs_ids]
    if full:
        return full[:6]
    # multi-pattern: greedy cover
    chosen, cov = [], set()
    for t, c in sorted(cands, key=lambda x: -len(x[1])):
        if not c <= cov:
            chosen.append(t)
            cov |= c
        if cov == vs_ids:
            return [z3.MultiPattern(*chosen)] if len(chosen) > 1 else chosen
    return []


def _quant(ex, st, clo, q):
    fn = clo.node
    params = [a.arg for a in fn.args.args]
    vs = [z3.Int(fresh_name(p)) for p in params]
    s = st.copy()
    for p, v in zip(params, vs):
        s.env[p] = v
    ex.pending_defs.append([])
    try:
        body = truthy(ex.eval(fn.body, s))
    finally:
        defs = ex.pending_defs.pop()
    pats = []
    if q is z3.ForAll and ex.spec_role == 'hyp' and z3.is_expr(body):
        pats = infer_patterns(body, vs)
    body = to_z3(ex.wrap_defs(defs, to_z3(body), ex.spec_role))
    if pats:
        try:
            return q(vs, body, patterns=pats)
        except z3.Z3Exception:
            # z3 rejects some triggers (e.g. Boolean-valued applications it rewrites); fall back to its own choice
            pass
    return q(vs, body)


def spec_forall(ex, st, clo):
    return _quant(ex, st, clo, z3.ForAll)


def spec_exists(ex, st, clo):
    return _quant(ex, st, clo, z3.Exists)


def spec_implies(ex, st, a, b):
    return bimplies(truthy(a), truthy(b))


def spec_iff(ex, st, a, b):
    return s_eq(to_z3(truthy(a)), to_z3(truthy(b)))


def spec_ite(ex, st, c, a, b):
    return ite(to_z3(truthy(c)), a, b)


def spec_isinf(ex, st, v):
    v = to_xreal(v)
    return v.pinf


def spec_isneginf(ex, st, v):
    v = to_xreal(v)
    return v.ninf


def spec_finite(ex, st, v):
    v = to_xreal(v)
    return band(bnot(v.pinf), bnot(v.ninf))


def spec_old(ex, st, clo):
    """old(lambda: expr): expr evaluated with the heap / buffers of the function entry and the current variables"""
    s = st.copy()
    s.heap = dict(ex.entry.heap)
    s.store = dict(ex.entry.store)
    for k, v in st.heap.items():          # fields first touched after entry: their initial symbolic array
        if k not in s.heap:
            s.heap[k] = ex.initial_field(st, k)
    return ex.eval(clo.node.body, s)


def spec_abstract(ex, st, v):
    """ghost `x = abstract(x)`: a fresh integer constant equal to the (possibly large) term; after a `carry` cut only the carried
    facts about the constant remain, the defining term is forgotten (generalisation: sound)"""
    k = z3.Int(fresh_name('abs'))
    st.assume(k == to_int(v))
    return k


SPEC_BUILTINS = {'abstract': spec_abstract, 'old': spec_old, 'forall': spec_forall, 'exists': spec_exists, 'implies': spec_implies, 'iff': spec_iff,
                 'ite': spec_ite, 'isinf': spec_isinf, 'finite': spec_finite, 'isneginf': spec_isneginf,
                 'logaddexp': lambda ex, st, a, b: np_logaddexp(ex, st, a, b)}


# ------------------------------------------------------------------------------------------------

def opaque_attr(obj, name):
    if obj.name.startswith('class:') and obj.payload is not None:
        cls = obj.name[6:]
        return Opaque('func:%s.%s' % (cls, name), (obj.payload[0], '%s.%s' % (cls, name)))
    full = obj.name + '.' + name
    if full in ('np.inf', 'math.inf', 'np.Inf'):
        return float('inf')
    if full == 'np.newaxis':
        return Opaque('np.newaxis')
    if full in ('np.pi', 'math.pi'):
        raise Unsupported('pi')
    return Opaque(full)


def _len(ex, st, v, node=None):
    if isinstance(v, (list, tuple, str, dict)):
        return len(v)
    if isinstance(v, ArrayVal):
        if v.ndim == 0:
            raise Unsupported('len of 0-d')
        return v.shape[0]
    if isinstance(v, NDRef):
        return view_shape(v)[0]
    if isinstance(v, SeqVal):
        return z3.Length(v.s)
    if isinstance(v, PyList):
        return st.store[v.buf].shape[0]
    if isinstance(v, OptVal):
        if not ex.spec_mode:
            ex.emit(st, 'not-none', z3.Not(v.is_none), node, 'len() of a value that may be None')
        return _len(ex, st, v.some, node)
    raise Unsupported('len of %r' % (v,))


def _shape_arg(shape):
    if isinstance(shape, (tuple, list)):
        return tuple(shape)
    return (shape,)


def _new_buffer(st, arr, name='arr'):
    buf = fresh_name('buf_' + name)
    st.store[buf] = arr
    return NDRef(buf, [Dim(None, 0, 1, s) for s in arr.shape])


def _dtype_kw(kwargs, default):
    dt = kwargs.get('dtype')
    if dt is None:
        return default
    if isinstance(dt, Opaque):
        n = dt.name
        if n in ('builtins.int', 'np.int32', 'np.int64', 'np.uint8', 'np.int'):
            return 'int'
        if n in ('builtins.float', 'np.float32', 'np.float64', 'np.float'):
            return 'real'
        if n in ('builtins.bool', 'np.bool_'):
            return 'bool'
        if n in ('builtins.object',):
            return 'obj'
        if n in ('np.int8', 'np.int16', 'np.uint16', 'np.uint32', 'np.float16', 'np.half', 'np.short', 'np.byte'):
            # integers are mathematical and floats are reals in this model (A2): a narrow element type is where that
            # idealisation stops being harmless, so code that asks for one is left undecided, never proved
            raise Unsupported('narrow element type %s: machine arithmetic is not modelled' % n)
    raise Unsupported('dtype %r' % (dt,))


def np_array(ex, st, v, **kw):
    if isinstance(v, (ArrayVal, NDRef, PyList, list, tuple, SeqVal)):
        a = as_array(st, v)
        return _new_buffer(st, a)
    if is_scalar(v) or v is None:
        # 0-d array of a scalar: behaves as the scalar in comparisons
        return v
    raise Unsupported('np.array of %r' % (v,))


def np_asarray(ex, st, v, *a, **kw):
    if a:
        kw = dict(kw, dtype=a[0])
    if isinstance(v, NDRef):
        # the SAME object when no conversion is needed; a float64 / int64 / bool array asked for another width is a copy
        dt = kw.get('dtype')
        wide = {'real': ('builtins.float', 'np.float64', 'np.float'), 'int': ('builtins.int', 'np.int64', 'np.int'),
                'bool': ('builtins.bool', 'np.bool_')}.get(as_array(st, v).dtype, ())
        if dt is None or (isinstance(dt, Opaque) and dt.name in wide):
            return v
        return np_array(ex, st, v)
    return np_array(ex, st, v)


def np_linspace(ex, st, lo, hi, num=50, **kw):
    # num samples, the first is `lo`, the last is set to `hi` exactly (endpoint=True), the others lo + i * (hi - lo) / (num - 1)
    if kw.get('endpoint', True) is not True or any(k not in ('endpoint', '_node') for k in kw):
        raise Unsupported('np.linspace with %r' % sorted(kw))
    n = num
    lo_, hi_ = to_real(lo), to_real(hi)
    step = s_truediv(s_sub(hi_, lo_), to_real(s_sub(n, 1)))

    def get(i):
        mid = s_add(lo_, s_mul(to_real(i), step))
        return ite(s_eq(i, 0), lo_, ite(s_eq(i, s_sub(n, 1)), hi_, mid))
    cnt = ite(s_lt(n, 0), 0, n) if not is_conc_num(n) else max(n, 0)
    return _new_buffer(st, ArrayVal((cnt,), get, 'real'))


def np_arange(ex, st, *args, **kw):
    if len(args) == 1:
        lo, hi = 0, args[0]
    elif len(args) == 2:
        lo, hi = args
    else:
        raise Unsupported('arange with step')
    n = s_sub(hi, lo)
    n = ite(s_lt(n, 0), 0, n) if not is_conc_num(n) else max(n, 0)
    if _dtype_kw(kw, 'int') == 'real':
        return _new_buffer(st, ArrayVal((n,), lambda i: to_real(s_add(lo, i)), 'real'))
    return _new_buffer(st, ArrayVal((n,), lambda i: s_add(lo, i), 'int'))


def np_full(ex, st, shape, fill, **kw):
    shape = _shape_arg(shape)
    dt = _dtype_kw(kw, dtype_of_value(fill))
    fv = cast(fill, dt) if dt in ('int', 'real', 'xreal') else fill
    return _new_buffer(st, ArrayVal(shape, lambda *i: fv, dt))


def np_ones(ex, st, shape, *a, **kw):
    dt = _dtype_kw(kw, 'real')
    if a:
        dt = _dtype_kw({'dtype': a[0]}, 'real')
    return np_full(ex, st, shape, 1 if dt == 'int' else 1.0, **kw)


def np_zeros(ex, st, shape, *a, **kw):
    dt = _dtype_kw(kw, 'real')
    if a:
        dt = _dtype_kw({'dtype': a[0]}, 'real')
    shape = _shape_arg(shape)
    z = 0 if dt == 'int' else (False if dt == 'bool' else 0.0)
    return _new_buffer(st, ArrayVal(shape, lambda *i: z, dt))


def np_zeros_like(ex, st, a, **kw):
    arr = as_array(st, a)
    z = 0 if arr.dtype == 'int' else 0.0
    dt = 'real' if arr.dtype == 'xreal' else arr.dtype
    return _new_buffer(st, ArrayVal(arr.shape, lambda *i: z, dt))


def np_minimum(ex, st, a, b, **kw):
    r, obls = elementwise(s_min, st, a, b)
    ex.emit_all(st, 'shape', obls, kw.get('_node'))
    return r


def np_maximum(ex, st, a, b, **kw):
    r, obls = elementwise(s_max, st, a, b)
    ex.emit_all(st, 'shape', obls, kw.get('_node'))
    return r


def np_copy(ex, st, a, **kw):
    return _new_buffer(st, as_array(st, a))


def _reduce_concrete(arr, fn, init=None):
    n = arr.shape[0]
    acc = init
    for i in range(n):
        x = arr.get(i)
        acc = x if acc is None else fn(acc, x)
    return acc


_count_funcs = {}


def np_sum(ex, st, a, axis=None, **kw):
    arr = as_array(st, a)
    if arr.ndim == 1 and is_conc_num(arr.shape[0]):
        acc = 0
        for i in range(arr.shape[0]):
            x = arr.get(i)
            acc = s_add(acc, to_int(x) if kind(x) == 'bool' else x)
        return acc
    if arr.ndim == 2 and axis in (1, -1):
        # row sums of a matrix of symbolic shape: an uninterpreted function of the row index (numpy's floating-point summation of
        # that row, whatever its order); visible to the contract as ROWSUM(i)
        RS = z3.Function(fresh_name('ROWSUM'), z3.IntSort(), z3.RealSort())
        ex.spec_funcs['ROWSUM'] = _spec(lambda i: RS(to_int(i)))
        ex.assumed.append('model: np.sum(M, axis=1)[i] is a function ROWSUM(i) of row i (no property of the summation is used)')
        return ArrayVal((arr.shape[0],), lambda i: RS(to_int(i)), 'real')
    if arr.ndim == 1 and arr.dtype == 'bool':
        # number of True cells of a boolean vector of symbolic length: COUNT<k>(i) = number of True cells at positions >= i,
        # defined by recursion on the suffix (exact: the count is a mathematical integer <= the length)
        n = to_int(arr.shape[0])
        k = len([x for x in st.ghost if x.startswith('spec:COUNT')])     # per path: the k-th count of this path
        C = z3.Function(fresh_name('COUNT%d' % k), z3.IntSort(), z3.IntSort())
        st.assume(C(n) == 0)
        from .engine import SpecFunc

        def defn(j, C=C, arr=arr, n=n):
            j = to_int(j)
            return z3.Implies(z3.And(j >= 0, j < n), C(j) == C(j + 1) + z3.If(to_z3(truthy(arr.get(j))), 1, 0))
        # one-level unfolding at every occurrence in the contract (no self-triggering axiom)
        st.ghost['spec:COUNT%d' % k] = ex.spec_funcs['COUNT%d' % k] = SpecFunc(lambda j, C=C: C(to_int(j)), 'COUNT%d' % k, defn=defn)
        return C(z3.IntVal(0))
    raise Unsupported('sum over symbolic length (use a contract-level ghost)')


def np_any(ex, st, a, **kw):
    arr = as_array(st, a)
    if arr.ndim != 1:
        raise Unsupported('np.any n-d')
    if is_conc_num(arr.shape[0]):
        return bor(*[truthy(arr.get(i)) for i in range(arr.shape[0])])
    j = z3.Int(fresh_name('j'))
    return z3.Exists([j], z3.And(j >= 0, j < to_int(arr.shape[0]), to_z3(truthy(arr.get(j)))))


def np_all(ex, st, a, **kw):
    arr = as_array(st, a)
    if arr.ndim != 1:
        raise Unsupported('np.all n-d')
    if is_conc_num(arr.shape[0]):
        return band(*[truthy(arr.get(i)) for i in range(arr.shape[0])])
    j = z3.Int(fresh_name('j'))
    return z3.ForAll([j], z3.Implies(z3.And(j >= 0, j < to_int(arr.shape[0])), to_z3(truthy(arr.get(j)))))


def _argext_concrete(arr, better):
    n = arr.shape[0]
    if n == 0:
        raise Unsupported('arg-extremum of empty array')
    bi, bv = 0, arr.get(0)
    for i in range(1, n):
        x = arr.get(i)
        c = better(x, bv)      # strict: first extremum wins
        bi = ite(to_z3(c), i, bi) if c is not True and c is not False else (i if c else bi)
        bv = ite(to_z3(c), x, bv) if c is not True and c is not False else (x if c else bv)
    return bi, bv


def np_argmax(ex, st, a, axis=None, **kw):
    arr = as_array(st, a)
    if arr.ndim == 1 and is_conc_num(arr.shape[0]):
        if arr.shape[0] == 0:
            ex.emit(st, 'nonempty', z3.BoolVal(False), kw.get('_node'), 'argmax of an empty sequence')
            raise Unsupported('argmax of empty')
        return _argext_concrete(arr, lambda x, b: s_lt(b, x))[0]
    if arr.ndim == 1:
        return _sym_argext(ex, st, arr, lambda x, y: s_lt(x, y), 'argmax', kw.get('_node'))[0]
    if arr.ndim == 2 and axis in (1, -1):
        n, m = arr.shape
        if is_conc_num(m):
            return ArrayVal((n,), lambda i: _argext_concrete(ArrayVal((m,), lambda j: arr.get(i, j), arr.dtype),
                                                             lambda x, b: s_lt(b, x))[0], 'int')
    if axis is not None and arr.ndim >= 2:
        return _sym_argmax_axis(ex, st, arr, axis if axis >= 0 else axis + arr.ndim, kw.get('_node'))
    raise Unsupported('argmax pattern')


def _sym_argmax_axis(ex, st, arr, axis, node):
    """argmax along one axis of an n-d array with symbolic extent: a fresh index function AM over the remaining axes with
    0 <= AM < extent, every entry along the axis <= the entry at AM, and every entry before AM strictly smaller (first maximiser)"""
    m = to_int(arr.shape[axis])
    ex.emit(st, 'nonempty', m > 0, node, 'argmax along a non-empty axis')
    rest = [k for k in range(arr.ndim) if k != axis]
    AM = z3.Function(fresh_name('argmax'), *([z3.IntSort()] * len(rest)), z3.IntSort())
    idx = [z3.Int('am_i%d' % k) for k in range(len(rest))]
    c = z3.Int('am_c')

    def cell(cc):
        full = list(idx)
        full.insert(axis, cc)
        return arr.get(*full)
    inr = z3.And(*[z3.And(x >= 0, x < to_int(arr.shape[k])) for x, k in zip(idx, rest)])
    am = AM(*idx)
    st.assume(z3.ForAll(idx, z3.Implies(inr, z3.And(am >= 0, am < m)), patterns=[am]))
    le = to_z3(s_le(cell(c), cell(am)))
    def has_ite(t):
        return z3.is_app(t) and (t.decl().kind() == z3.Z3_OP_ITE or any(has_ite(ch) for ch in t.children()))
    pats = [z3.MultiPattern(am, p_) for p_ in infer_patterns(to_z3(s_le(cell(c), 0)), idx + [c]) if not has_ite(p_)] or [am]
    body1 = z3.Implies(z3.And(inr, c >= 0, c < m), le)
    body2 = z3.Implies(z3.And(inr, c >= 0, c < am), to_z3(s_lt(cell(c), cell(am))))
    try:
        st.assume(z3.ForAll(idx + [c], body1, patterns=pats))
        st.assume(z3.ForAll(idx + [c], body2, patterns=pats))
    except z3.Z3Exception:
        st.assume(z3.ForAll(idx + [c], body1))
        st.assume(z3.ForAll(idx + [c], body2))
    ex.assumed.append('model: argmax along an axis returns the first maximal index')
    shape = tuple(arr.shape[k] for k in rest)
    return ArrayVal(shape, lambda *i: AM(*[to_int(x) for x in i]), 'int')


def np_nonzero(ex, st, a, **kw):
    """np.nonzero of a 1-d boolean array of symbolic length: 1-tuple with the strictly increasing positions of the true entries"""
    arr = as_array(st, a)
    if arr.ndim != 1:
        raise Unsupported('nonzero of an n-d array')
    n = to_int(arr.shape[0])
    K = z3.Int(fresh_name('n_nonzero'))
    SRC = z3.Function(fresh_name('nonzero_at'), z3.IntSort(), z3.IntSort())
    POS = z3.Function(fresh_name('nonzero_pos'), z3.IntSort(), z3.IntSort())
    j, j2, i = z3.Ints('j j2 i')
    cond = lambda t: to_z3(truthy(arr.get(t)))
    st.assume(z3.And(K >= 0, K <= n))
    st.assume(z3.ForAll([j], z3.Implies(z3.And(j >= 0, j < K), z3.And(SRC(j) >= 0, SRC(j) < n, cond(SRC(j)), POS(SRC(j)) == j)), patterns=[SRC(j)]))
    st.assume(z3.ForAll([j, j2], z3.Implies(z3.And(j >= 0, j < j2, j2 < K), SRC(j) < SRC(j2)), patterns=[z3.MultiPattern(SRC(j), SRC(j2))]))
    ci = cond(i)
    body = z3.Implies(z3.And(i >= 0, i < n, ci), z3.And(POS(i) >= 0, POS(i) < K, SRC(POS(i)) == i))
    try:
        st.assume(z3.ForAll([i], body, patterns=[POS(i)] + infer_patterns(ci, [i])))
    except z3.Z3Exception:
        st.assume(z3.ForAll([i], body, patterns=[POS(i)]))
    ex.assumed.append('model: np.nonzero(mask) of a 1-d mask lists exactly the positions of the true entries, in increasing order')
    return (ArrayVal((K,), lambda q: SRC(to_int(q)), 'int'),)


def np_floor(ex, st, v, **kw):
    if is_conc_num(v):
        import math
        return float(math.floor(v))
    return z3.ToReal(z3.ToInt(to_real(v)))


def np_ceil(ex, st, v, **kw):
    if is_conc_num(v):
        import math
        return float(math.ceil(v))
    return -z3.ToReal(z3.ToInt(-to_real(v)))


def _flat_bijection(ex, st, shape):
    """ravel / unravel_index of a 2-d shape: mutually inverse bijections FLAT_ROW, FLAT_COL : [0, n0*n1) -> cells and FLAT_IDX back
    (the row-major formula i = r*n1 + c is not needed by the callers and would make the queries non-linear)"""
    key = tuple(str(x) for x in shape)
    cache = getattr(ex, '_flat_bij', None)
    if cache is None:
        cache = ex._flat_bij = {}
    if key in cache:
        return cache[key]
    n0, n1 = to_int(shape[0]), to_int(shape[1])
    N = n0 * n1
    ROW = z3.Function(fresh_name('FLAT_ROW'), z3.IntSort(), z3.IntSort())
    COL = z3.Function(fresh_name('FLAT_COL'), z3.IntSort(), z3.IntSort())
    IDX = z3.Function(fresh_name('FLAT_IDX'), z3.IntSort(), z3.IntSort(), z3.IntSort())
    i, r, c = z3.Ints('fi fr fc')
    st.assume(z3.ForAll([i], z3.Implies(z3.And(i >= 0, i < N), z3.And(ROW(i) >= 0, ROW(i) < n0, COL(i) >= 0, COL(i) < n1, IDX(ROW(i), COL(i)) == i)), patterns=[ROW(i)]))
    st.assume(z3.ForAll([i], z3.Implies(z3.And(i >= 0, i < N), z3.And(ROW(i) >= 0, ROW(i) < n0, COL(i) >= 0, COL(i) < n1, IDX(ROW(i), COL(i)) == i)), patterns=[COL(i)]))
    st.assume(z3.ForAll([r, c], z3.Implies(z3.And(r >= 0, r < n0, c >= 0, c < n1), z3.And(IDX(r, c) >= 0, IDX(r, c) < N, ROW(IDX(r, c)) == r, COL(IDX(r, c)) == c)),
                        patterns=[IDX(r, c)]))
    ex.assumed.append('model: ravel() and np.unravel_index of a 2-d array are mutually inverse bijections between flat positions and cells')
    ex.spec_funcs['FLAT_IDX'] = _spec(lambda r_, c_: IDX(to_int(r_), to_int(c_)))
    cache[key] = (ROW, COL, IDX, N)
    return cache[key]


def np_ravel(ex, st, a):
    arr = as_array(st, a)
    if arr.ndim == 1:
        return arr
    if arr.ndim != 2:
        raise Unsupported('ravel n-d')
    ROW, COL, IDX, N = _flat_bijection(ex, st, arr.shape)
    return ArrayVal((N,), lambda i: arr.get(ROW(to_int(i)), COL(to_int(i))), arr.dtype)


def np_unravel_index(ex, st, inds, shape, **kw):
    if len(shape) != 2:
        raise Unsupported('unravel_index n-d')
    ia = as_array(st, inds)
    ROW, COL, IDX, N = _flat_bijection(ex, st, shape)
    j = z3.Int(fresh_name('u'))
    if not ex.spec_mode:
        ex.emit(st, 'index', z3.ForAll([j], z3.Implies(z3.And(j >= 0, j < to_int(ia.shape[0])), z3.And(to_int(ia.get(j)) >= 0, to_int(ia.get(j)) < N))),
                kw.get('_node'), 'unravel_index: flat indices within the array')
    return (ArrayVal(ia.shape, lambda q: ROW(to_int(ia.get(q))), 'int'), ArrayVal(ia.shape, lambda q: COL(to_int(ia.get(q))), 'int'))


def np_argpartition(ex, st, a, kth, **kw):
    """permutation P of the positions with a[P[i]] <= a[P[kth]] for i < kth and a[P[i]] >= a[P[kth]] for i > kth"""
    arr = as_array(st, a)
    if arr.ndim != 1:
        raise Unsupported('argpartition n-d')
    n = to_int(arr.shape[0])
    kth = to_int(kth)
    ex.emit(st, 'index', z3.And(kth >= 0, kth < n), kw.get('_node'), 'argpartition: kth within the array')
    P = z3.Function(fresh_name('PART_PERM'), z3.IntSort(), z3.IntSort())
    PI = z3.Function(fresh_name('PART_INV'), z3.IntSort(), z3.IntSort())
    i = z3.Int('pi')
    rng = lambda x: z3.And(x >= 0, x < n)
    st.assume(z3.ForAll([i], z3.Implies(rng(i), z3.And(rng(P(i)), PI(P(i)) == i)), patterns=[P(i)]))
    st.assume(z3.ForAll([i], z3.Implies(rng(i), z3.And(rng(PI(i)), P(PI(i)) == i)), patterns=[PI(i)]))
    st.assume(z3.ForAll([i], z3.Implies(z3.And(rng(i), i < kth), to_z3(s_le(arr.get(P(i)), arr.get(P(kth))))), patterns=[P(i)]))
    st.assume(z3.ForAll([i], z3.Implies(z3.And(rng(i), i > kth), to_z3(s_le(arr.get(P(kth)), arr.get(P(i))))), patterns=[P(i)]))
    ex.assumed.append('model: np.argpartition(a, kth) returns a permutation whose kth element is in sorted position, smaller-or-equal before, greater-or-equal after')
    ex.spec_funcs['PART_INV'] = _spec(lambda q: PI(to_int(q)))
    return ArrayVal((n,), lambda q: P(to_int(q)), 'int')


def itertools_groupby(ex, st, a, key=None, **kw):
    """itertools.groupby(seq) without key over a 1-d array of symbolic length: one (key, group) pair per maximal run of equal
    elements — i.e. per position t with t == 0 or a[t] != a[t-1], in order (filter model: SRC strictly increasing, sound, complete)"""
    if key is not None:
        raise Unsupported('groupby with a key function')
    arr = as_array(st, a)
    if arr.ndim != 1:
        raise Unsupported('groupby of an n-d array')
    n = to_int(arr.shape[0])
    K = z3.Int(fresh_name('n_runs'))
    SRC = z3.Function(fresh_name('run_start'), z3.IntSort(), z3.IntSort())
    POS = z3.Function(fresh_name('run_of'), z3.IntSort(), z3.IntSort())
    j, j2, i = z3.Ints('j j2 i')
    cond = lambda t: z3.Or(t == 0, to_z3(s_ne(arr.get(t), arr.get(t - 1))))
    st.assume(z3.And(K >= 0, K <= n))
    st.assume(z3.ForAll([j], z3.Implies(z3.And(j >= 0, j < K), z3.And(SRC(j) >= 0, SRC(j) < n, cond(SRC(j)), POS(SRC(j)) == j)), patterns=[SRC(j)]))
    st.assume(z3.ForAll([j, j2], z3.Implies(z3.And(j >= 0, j < j2, j2 < K), SRC(j) < SRC(j2)), patterns=[z3.MultiPattern(SRC(j), SRC(j2))]))
    body = z3.Implies(z3.And(i >= 0, i < n, cond(i)), z3.And(POS(i) >= 0, POS(i) < K, SRC(POS(i)) == i))
    try:
        st.assume(z3.ForAll([i], body, patterns=[POS(i)] + infer_patterns(to_z3(s_ne(arr.get(i), 0)), [i])))
    except z3.Z3Exception:
        st.assume(z3.ForAll([i], body, patterns=[POS(i)]))
    ex.assumed.append('model: itertools.groupby(seq) yields one (key, group) pair per maximal run of equal elements, in order')
    res = ArrayVal((K,), lambda q: (arr.get(SRC(to_int(q))), Opaque('group')), 'obj')
    res.src = lambda q: SRC(to_int(q))
    res.is_list = False
    return res


def torch_cat(ex, st, parts, axis=0, dim=None, **kw):
    ex.assumed.append('model: torch tensor operations used here (cat, argmax, slicing, masked assignment, comparison) behave as their numpy counterparts')
    return np_concatenate(ex, st, list(parts), axis=dim if dim is not None else axis, **kw)


def torch_argmax(ex, st, a, dim=None, **kw):
    return np_argmax(ex, st, a, axis=dim, **kw)


def np_argmin(ex, st, a, axis=None, **kw):
    arr = as_array(st, a)
    if arr.ndim == 1 and is_conc_num(arr.shape[0]):
        return _argext_concrete(arr, lambda x, b: s_lt(x, b))[0]
    if arr.ndim == 1:
        return _sym_argext(ex, st, arr, lambda x, y: s_lt(y, x), 'argmin', kw.get('_node'))[0]
    raise Unsupported('argmin pattern')


def _sym_argext(ex, st, arr, worse, what, node):
    """first arg-extremum of a 1-d array of symbolic length: fresh index r with
    0<=r<n, forall i: not worse(a[r], a[i]),  forall i<r: worse(a[i], a[r])"""
    n = to_int(arr.shape[0])
    ex.emit(st, 'nonempty', n > 0, node, '%s of a non-empty sequence' % what)
    r = z3.Int(fresh_name(what))
    i = z3.Int(fresh_name('i'))
    st.assume(z3.And(r >= 0, r < n))
    st.assume(z3.ForAll([i], z3.Implies(z3.And(i >= 0, i < n), z3.Not(to_z3(worse(arr.get(r), arr.get(i)))))))
    st.assume(z3.ForAll([i], z3.Implies(z3.And(i >= 0, i < r), to_z3(worse(arr.get(i), arr.get(r))))))
    ex.assumed.append('model: %s returns the first extremal index' % what)
    return r, arr.get(r)


def np_max(ex, st, a, axis=None, **kw):
    arr = as_array(st, a)
    if arr.ndim == 1 and is_conc_num(arr.shape[0]):
        return _argext_concrete(arr, lambda x, b: s_lt(b, x))[1]
    if arr.ndim == 1:
        return _sym_argext(ex, st, arr, lambda x, y: s_lt(x, y), 'max', kw.get('_node'))[1]
    if arr.ndim == 2 and axis in (1, -1) and is_conc_num(arr.shape[1]):
        n, m = arr.shape
        return ArrayVal((n,), lambda i: _argext_concrete(ArrayVal((m,), lambda j: arr.get(i, j), arr.dtype),
                                                         lambda x, b: s_lt(b, x))[1], arr.dtype)
    if arr.ndim == 2 and axis in (1, -1):
        am = _sym_argmax_axis(ex, st, arr, 1, kw.get('_node'))
        return ArrayVal((arr.shape[0],), lambda i: arr.get(i, am.get(i)), arr.dtype)
    if arr.ndim == 2 and axis is None:
        # maximum over a 2-d region of symbolic shape: m bounds every entry and is attained; a zero-size array raises
        # ValueError in numpy: that path is not followed (the exception clause is not part of the range claims)
        n0, n1 = to_int(arr.shape[0]), to_int(arr.shape[1])
        st.assume(z3.And(n0 > 0, n1 > 0))
        ex.assumed.append('model: max() of an empty 2-d slice raises ValueError; that path is not followed')
        a, b = z3.Int(fresh_name('ma')), z3.Int(fresh_name('mb'))
        i, j = z3.Int(fresh_name('i')), z3.Int(fresh_name('j'))
        m = arr.get(a, b)
        st.assume(z3.And(a >= 0, a < n0, b >= 0, b < n1))
        st.assume(z3.ForAll([i, j], z3.Implies(z3.And(i >= 0, i < n0, j >= 0, j < n1), to_z3(s_le(arr.get(i, j), m)))))
        return m
    raise Unsupported('max pattern')


def np_min(ex, st, a, axis=None, **kw):
    arr = as_array(st, a)
    if arr.ndim == 1 and is_conc_num(arr.shape[0]):
        return _argext_concrete(arr, lambda x, b: s_lt(x, b))[1]
    if arr.ndim == 1:
        return _sym_argext(ex, st, arr, lambda x, y: s_lt(y, x), 'min', kw.get('_node'))[1]
    raise Unsupported('min pattern')


def np_where(ex, st, cond, *rest, **kw):
    if len(rest) == 2:
        r, obls = elementwise(lambda c, a, b: ite(to_z3(truthy(c)), a, b), st, cond, rest[0], rest[1])
        ex.emit_all(st, 'shape', obls, kw.get('_node'))
        return r
    if not rest:
        return np_nonzero(ex, st, cond, **kw)      # np.where(mask) is np.nonzero(mask)
    raise Unsupported('np.where with two arguments')


def np_concatenate(ex, st, parts, axis=0, **kw):
    if all(isinstance(p, SeqVal) for p in parts) and axis == 0:
        # arrays modelled as sequences of rows
        return SeqVal(z3.Concat(*[p.s for p in parts]) if len(parts) > 1 else parts[0].s, parts[0].elem)
    arrs = [as_array(st, p) for p in parts]
    nd = arrs[0].ndim
    if any(a.ndim != nd for a in arrs):
        raise Unsupported('concatenate of different ranks')
    if axis < 0:
        axis += nd
    offs = [0]
    for a in arrs:
        offs.append(s_add(offs[-1], a.shape[axis]))
    shape = list(arrs[0].shape)
    shape[axis] = offs[-1]
    for a in arrs[1:]:
        for ax in range(nd):
            if ax != axis:
                c = s_eq(a.shape[ax], arrs[0].shape[ax])
                if c is not True:
                    ex.emit(st, 'shape', to_z3(c), kw.get('_node'), 'concatenate: other axes agree')

    def get(*i):
        res = None
        for k in range(len(arrs) - 1, -1, -1):
            j = list(i)
            j[axis] = s_sub(i[axis], offs[k])
            v = arrs[k].get(*j)
            if res is None:
                res = v
            else:
                res = ite(to_z3(s_lt(i[axis], offs[k + 1])), v, res)
        return res
    dt = arrs[0].dtype
    for a in arrs[1:]:
        dt = join_dtype(dt, a.dtype)
    return _new_buffer(st, ArrayVal(tuple(shape), get, dt))


def np_isfinite(ex, st, a, **kw):
    def f(x):
        x = to_xreal(x)
        return band(bnot(x.pinf), bnot(x.ninf))
    r, _ = elementwise(f, st, a)
    return r


def np_abs(ex, st, a, **kw):
    r, _ = elementwise(s_abs, st, a)
    return r


def np_add_outer(ex, st, a, b, **kw):
    a, b = as_array(st, a), as_array(st, b)
    return ArrayVal((a.shape[0], b.shape[0]), lambda i, j: s_add(a.get(i), b.get(j)), join_dtype(a.dtype, b.dtype))


def np_flip(ex, st, a, axis=None, **kw):
    a = as_array(st, a)
    if axis is None or (axis == 0 and a.ndim >= 1):
        if a.ndim != 1 and axis is None:
            raise Unsupported('np.flip of an n-d array without axis')
        n = a.shape[0]
        return _new_buffer(st, ArrayVal(a.shape, lambda i, *r: a.get(s_sub(s_sub(n, 1), i), *r), a.dtype), 'flip')
    if a.ndim == 2 and axis in (1, -1):
        m = a.shape[1]
        return _new_buffer(st, ArrayVal(a.shape, lambda i, c: a.get(i, s_sub(s_sub(m, 1), c)), a.dtype), 'flip')
    raise Unsupported('np.flip pattern')


EXP = z3.Function('EXP', z3.RealSort(), z3.RealSort())
_x = z3.Real('x')
EXP_AXIOMS = [(['EXP'], z3.ForAll([_x], EXP(_x) > 0, patterns=[EXP(_x)])),
              (['EXP'], z3.ForAll([_x], z3.Implies(_x <= 0, EXP(_x) <= 1), patterns=[EXP(_x)]))]


def s_exp(v):
    if is_conc_num(v) and v == 0:
        return 1.0
    if isinstance(v, XReal) or kind(v) == 'xreal':
        v = to_xreal(v)
        return ite(v.ninf, z3.RealVal(0), EXP(v.val))     # exp(-inf) = 0 ; +inf excluded
    return EXP(to_real(v))


def np_exp(ex, st, a, **kw):
    ex.assumed.append('model: exp is an uninterpreted function with the axioms exp(x) > 0 and x <= 0 => exp(x) <= 1')
    if isinstance(a, (ArrayVal, NDRef)):
        r, _ = elementwise(s_exp, st, a)
        return r
    return s_exp(a)


LAEF = z3.Function('LAE', z3.RealSort(), z3.RealSort(), z3.RealSort())
_y = z3.Real('y')
LAE_AXIOMS = [(['LAE'], z3.ForAll([_x, _y], LAEF(_x, _y) == LAEF(_y, _x), patterns=[LAEF(_x, _y)])),
              (['LAE'], z3.ForAll([_x, _y], z3.And(LAEF(_x, _y) > _x, LAEF(_x, _y) > _y), patterns=[LAEF(_x, _y)]))]


def s_lae(a, b):
    """log(exp(a) + exp(b)) over the reals extended with -inf (+inf propagates); the finite case is the uninterpreted,
    commutative LAE with LAE(x, y) > max(x, y)"""
    a, b = to_xreal(a), to_xreal(b)
    val = z3.If(a.ninf, b.val, z3.If(b.ninf, a.val, LAEF(a.val, b.val)))
    return XReal(z3.Or(a.pinf, b.pinf), z3.And(a.ninf, b.ninf), val)


def np_logaddexp(ex, st, a, b, **kw):
    ex.assumed.append('model: logaddexp over finite arguments is an uninterpreted commutative function with LAE(x,y) > max(x,y); '
                      'logaddexp(-inf, y) = y')
    if 'LAE' not in getattr(ex, '_lib_axioms', set()):
        ex._lib_axioms = getattr(ex, '_lib_axioms', set()) | {'LAE'}
        ex.axioms.extend(LAE_AXIOMS)
    if isinstance(a, (ArrayVal, NDRef, PyList)) or isinstance(b, (ArrayVal, NDRef, PyList)):
        r, obls = elementwise(s_lae, st, a, b)
        ex.emit_all(st, 'shape', obls, kw.get('_node'))
        return r
    return s_lae(a, b)


def _logical(fn):
    def model(ex, st, *args, **kw):
        r, obls = elementwise(lambda *xs: fn(*[truthy(x) for x in xs]), st, *args)
        ex.emit_all(st, 'shape', obls, kw.get('_node'))
        return r
    return model


LIB = {
    'np.logical_and': _logical(band), 'np.logical_or': _logical(bor), 'np.logical_not': _logical(bnot),
    'np.exp': np_exp, 'math.exp': np_exp, 'np.logaddexp': np_logaddexp, 'np.nonzero': np_nonzero,
    'torch.cat': torch_cat, 'torch.argmax': torch_argmax, 'np.ceil': np_ceil, 'np.floor': np_floor, 'np.argpartition': np_argpartition, 'itertools.groupby': itertools_groupby, 'np.unravel_index': np_unravel_index, 'math.ceil': np_ceil, 'math.floor': np_floor,
    'np.array': np_array, 'np.asarray': np_asarray, 'np.fromiter': lambda ex, st, v, **kw: np_array(ex, st, v), 'np.arange': np_arange, 'np.linspace': np_linspace, 'np.full': np_full,
    'np.ones': np_ones, 'np.zeros': np_zeros, 'np.zeros_like': np_zeros_like, 'np.minimum': np_minimum,
    'np.maximum': np_maximum, 'np.copy': np_copy, 'np.sum': np_sum, 'np.any': np_any, 'np.all': np_all,
    'np.argmax': np_argmax, 'np.argmin': np_argmin, 'np.max': np_max, 'np.amax': np_max, 'np.min': np_min,
    'np.amin': np_min, 'np.where': np_where, 'np.concatenate': np_concatenate, 'np.isfinite': np_isfinite,
    'np.abs': np_abs, 'np.add.outer': np_add_outer, 'np.flip': np_flip,
}


def b_range(ex, st, *args):
    if len(args) == 1:
        return RangeVal(0, args[0], 1)
    if len(args) == 2:
        return RangeVal(args[0], args[1], 1)
    return RangeVal(*args)


def b_list(ex, st, v=None):
    if v is None:
        return []
    if isinstance(v, (list, tuple)):
        return list(v)
    if isinstance(v, str):
        return list(v)
    if isinstance(v, (SeqVal, ArrayVal, PyList)):
        return v           # immutable use assumed (copy semantics irrelevant without mutation)
    if isinstance(v, NDRef):
        return read_view(st, v)
    if isinstance(v, ReversedVal):
        inner = v.inner
        if isinstance(inner, SeqVal):
            rev = z3.Function('REV_' + inner.elem.name, inner.s.sort(), inner.s.sort())
            ex.assumed.append('model: list(reversed(xs)) is the mirror image REV(xs) (uninterpreted; same length)')
            r = rev(inner.s)
            st.assume(z3.Length(r) == z3.Length(inner.s))
            qi = z3.Int(fresh_name('ri'))
            st.assume(z3.ForAll([qi], z3.Implies(z3.And(qi >= 0, qi < z3.Length(r)),
                                                 r[qi] == inner.s[z3.Length(r) - 1 - qi]), patterns=[r[qi]]))
            return SeqVal(r, inner.elem)
        if isinstance(inner, (list, tuple)):
            return list(reversed(inner))
        a = as_array(st, inner)
        n = a.shape[0]
        return ArrayVal(a.shape, lambda i: a.get(s_sub(s_sub(n, 1), i)), a.dtype)
    if isinstance(v, RangeVal):
        n = v.length()
        if is_conc_num(n) and is_conc_num(v.start):
            return [v.start + i * v.step for i in range(n)]
        return ArrayVal((n,), lambda i: s_add(v.start, s_mul(i, v.step)), 'int')
    if isinstance(v, (ZipVal, EnumVal)):
        ln, item = ex.iter_descr(v, st, None)
        if is_conc_num(ln):
            return [item(i) for i in range(ln)]
    raise Unsupported('list(%r)' % (v,))


def b_min(ex, st, *args, **kw):
    if len(args) == 1:
        v = args[0]
        if isinstance(v, (list, tuple)):
            if not v:
                raise Unsupported('min of empty')
            r = v[0]
            for x in v[1:]:
                r = s_min(r, x)
            return r
        return np_min(ex, st, v)
    r = args[0]
    for x in args[1:]:
        r = s_min(r, x)
    return r


def b_max(ex, st, *args, **kw):
    key = kw.get('key')
    if key is not None:
        seq = args[0]
        if isinstance(seq, (list, tuple)):
            if not seq:
                ex.emit(st, 'nonempty', z3.BoolVal(False), kw.get('_node'), 'max of empty sequence')
                raise Unsupported('max of empty')
            best, bk = seq[0], ex.call(key, [seq[0]], {}, st, None)
            for x in seq[1:]:
                k = ex.call(key, [x], {}, st, None)
                c = s_lt(bk, k)
                best = ite(to_z3(c), x, best) if not isinstance(c, bool) else (x if c else best)
                bk = ite(to_z3(c), k, bk) if not isinstance(c, bool) else (k if c else bk)
            return best
        # symbolic sequence: first maximiser of the key
        ln, item = ex.iter_descr(seq, st, kw.get('_node'))

        def keyfn(i):
            ex.spec_mode += 1
            try:
                return ex.call(key, [item(i)], {}, st, None)
            finally:
                ex.spec_mode -= 1
        keys = ArrayVal((ln,), keyfn, 'real')
        r, _ = _sym_argext(ex, st, keys, lambda x, y: s_lt(x, y), 'max(key)', kw.get('_node'))
        return item(r)
    if len(args) == 1:
        v = args[0]
        if isinstance(v, (list, tuple)):
            if not v:
                raise Unsupported('max of empty')
            r = v[0]
            for x in v[1:]:
                r = s_max(r, x)
            return r
        return np_max(ex, st, v)
    r = args[0]
    for x in args[1:]:
        r = s_max(r, x)
    return r


def b_sum(ex, st, v, start=0):
    if isinstance(v, (list, tuple)):
        acc = start
        for x in v:
            acc = s_add(acc, x)
        return acc
    return s_add(start, np_sum(ex, st, v))


def b_int(ex, st, v=0):
    if is_conc_num(v):
        return int(v)
    k = kind(v)
    if k in ('int', 'bool'):
        return to_int(v)
    if k == 'real':
        # int() truncates toward zero
        f = z3.ToInt(v)
        return z3.If(v >= 0, f, z3.If(z3.ToReal(f) == v, f, f + 1))
    raise Unsupported('int(%r)' % (v,))


def b_float(ex, st, v=0.0):
    if isinstance(v, str):
        return float(v)
    if is_conc_num(v):
        return float(v)
    return to_real(v) if kind(v) != 'xreal' else v


def b_isinstance(ex, st, v, t):
    tn = t.name if isinstance(t, Opaque) else None
    if tn == 'builtins.int':
        return kind(v) == 'int'
    if tn == 'builtins.float':
        return kind(v) in ('real', 'xreal')
    if tn == 'builtins.str':
        return isinstance(v, str)
    raise Unsupported('isinstance(%r, %r)' % (v, t))


def b_all(ex, st, v):
    if isinstance(v, (list, tuple)):
        return band(*[truthy(x) for x in v])
    return np_all(ex, st, v)


def b_any(ex, st, v):
    if isinstance(v, (list, tuple)):
        return bor(*[truthy(x) for x in v])
    return np_any(ex, st, v)


def b_reversed(ex, st, v):
    if isinstance(v, (list, tuple)):
        return list(reversed(v))
    return ReversedVal(v)


def b_abs(ex, st, v):
    return s_abs(v)


def b_sorted(ex, st, v, key=None, reverse=False, _node=None):
    """model of the builtin: the result is a *stable permutation* of the input *ordered by the key given in the source*"""
    if isinstance(v, (list, tuple)) and all(is_conc_num(x) for x in v) and key is None:
        return sorted(v, reverse=reverse)
    ln, item = ex.iter_descr(v, st, _node)
    n = to_int(ln) if not is_conc_num(ln) else z3.IntVal(ln)
    PERM = z3.Function(fresh_name('SORT_PERM'), z3.IntSort(), z3.IntSort())

    def K(i):
        x = item(PERM(to_int(i)))
        if key is None:
            return x
        ex.spec_mode += 1
        try:
            return ex.call(key, [x], {}, st, None)
        finally:
            ex.spec_mode -= 1
    i, j = z3.Int(fresh_name('si')), z3.Int(fresh_name('sj'))
    rng = lambda x: z3.And(x >= 0, x < n)
    st.assume(z3.ForAll([i], z3.Implies(rng(i), rng(PERM(i))), patterns=[PERM(i)]))
    st.assume(z3.ForAll([i, j], z3.Implies(z3.And(rng(i), rng(j), PERM(i) == PERM(j)), i == j), patterns=[z3.MultiPattern(PERM(i), PERM(j))]))
    # surjective as well (finite injection): stated explicitly through an inverse
    INV = z3.Function(fresh_name('SORT_INV'), z3.IntSort(), z3.IntSort())
    st.assume(z3.ForAll([i], z3.Implies(rng(i), z3.And(rng(INV(i)), PERM(INV(i)) == i)), patterns=[INV(i)]))
    lt = (lambda a, b: s_lt(b, a)) if reverse is True else (lambda a, b: s_lt(a, b))
    before = lt(K(j), K(i))          # element at the later position sorts strictly before the earlier one: forbidden
    if before is not False:
        st.assume(z3.ForAll([i, j], z3.Implies(z3.And(rng(i), rng(j), i < j), z3.Not(to_z3(before)))))
    strictly = lt(K(i), K(j))
    if strictly is not True:
        tie = z3.BoolVal(True) if strictly is False else z3.Not(to_z3(strictly))
        st.assume(z3.ForAll([i, j], z3.Implies(z3.And(rng(i), rng(j), i < j, tie), PERM(i) < PERM(j))))
    ex.assumed.append('model: sorted() returns a stable permutation of its input ordered by the key function given in the source')
    ex.spec_funcs['SORT_PERM'] = ex.spec_funcs.get('SORT_PERM') or _spec(lambda q: PERM(to_int(q)))
    ex.spec_funcs['SORT_INV'] = ex.spec_funcs.get('SORT_INV') or _spec(lambda q: INV(to_int(q)))
    return ArrayVal((ln,), lambda q: item(PERM(to_int(q))), 'obj')


def _spec(fn):
    from .engine import SpecFunc
    return SpecFunc(fn)


def time_time(ex, st):
    ex.assumed.append('model: time.time() returns an arbitrary real (clock)')
    return z3.Real(fresh_name('clock'))


def b_set(ex, st, v=None):
    if v is None:
        return SetVal(lambda x: False)
    raise Unsupported('set(iterable)')


LIB.update({
    'time.time': time_time, 'builtins.set': b_set,
    'builtins.len': _len, 'builtins.range': b_range, 'builtins.list': b_list, 'builtins.tuple': lambda ex, st, v=(): tuple(b_list(ex, st, v)) if isinstance(b_list(ex, st, v), list) else b_list(ex, st, v),
    'builtins.enumerate': lambda ex, st, v, start=0: EnumVal(v, start),
    'builtins.zip': lambda ex, st, *parts: ZipVal(list(parts)),
    'builtins.reversed': b_reversed, 'builtins.min': b_min, 'builtins.max': b_max, 'builtins.sum': b_sum,
    'builtins.int': b_int, 'builtins.float': b_float, 'builtins.isinstance': b_isinstance,
    'builtins.all': b_all, 'builtins.any': b_any, 'builtins.abs': b_abs, 'builtins.sorted': b_sorted,
    'builtins.bool': lambda ex, st, v=False: truthy(v),
    'builtins.print': lambda ex, st, *a, **k: None,
})


def call_lib(ex, st, name, args, kwargs, node):
    if name.startswith('numpy.'):
        name = 'np.' + name[6:]
    ov = ex.contract.ghosts.get('lib:' + name)
    if ov is not None:
        return ov(ex, st, *args, **kwargs)
    fn = LIB.get(name)
    if fn is None:
        raise Unsupported('library function %s is not modelled (line %s)' % (name, getattr(node, 'lineno', '?')))
    if name == 'math.exp':
        return fn(ex, st, *args)
    if (name.startswith('np.') or name.startswith('torch.')) and name not in ('np.array', 'np.asarray'):
        kwargs = dict(kwargs)
        kwargs['_node'] = node
    elif name in ('builtins.max', 'builtins.min', 'builtins.sorted') and 'key' in kwargs:
        kwargs = dict(kwargs)
        kwargs['_node'] = node
    if name in ('np.array', 'np.asarray', 'np.fromiter'):
        kwargs = {}
    return fn(ex, st, *args, **kwargs)


def call_method(ex, st, obj, name, args, kwargs, node):
    if name == '__getitem__' and len(args) == 1 and not kwargs:
        return ex.getitem(obj, args[0], st, node)          # xs.__getitem__(i) is xs[i]
    if isinstance(obj, (ArrayVal, NDRef)):
        if name == 'copy':
            return np_copy(ex, st, obj)
        if name in ('max', 'min', 'argmax', 'argmin', 'sum', 'any', 'all'):
            kw = dict(kwargs)
            kw['_node'] = node
            return {'max': np_max, 'min': np_min, 'argmax': np_argmax, 'argmin': np_argmin, 'sum': np_sum,
                    'any': np_any, 'all': np_all}[name](ex, st, obj, *args, **kw)
        if name == 'mean':
            arr = as_array(st, obj)
            if arr.ndim == 1 and is_conc_num(arr.shape[0]) and arr.shape[0] > 0:
                return s_truediv(np_sum(ex, st, arr), arr.shape[0])
            raise Unsupported('mean over symbolic length')
        if name == 'ravel' or name == 'flatten':
            return np_ravel(ex, st, obj)
        if name == 'tolist':
            return as_array(st, obj)
        if name == 'astype':
            return np_copy(ex, st, obj) if isinstance(obj, NDRef) and kwargs.get('copy', True) is True else obj   # astype copies
        if name in ('cpu', 'numpy', 'detach', 'contiguous'):
            return obj
        if name == 'reshape' and len(args) in (1, 2):
            shp = tuple(args[0]) if len(args) == 1 and isinstance(args[0], (tuple, list)) else tuple(args)
            arr = as_array(st, obj)
            if arr.ndim == 1 and shp == (-1, 1):
                return _new_buffer(st, ArrayVal((arr.shape[0], 1), lambda i, j, arr=arr: arr.get(i), arr.dtype))
            if arr.ndim == 1 and shp == (1, -1):
                return _new_buffer(st, ArrayVal((1, arr.shape[0]), lambda i, j, arr=arr: arr.get(j), arr.dtype))
            raise Unsupported('reshape to %r' % (shp,))
        raise Unsupported('array method %s' % name)
    if isinstance(obj, DictVal) and name == 'keys' and not args and getattr(obj, 'keys_arr', None) is None:
        return SetVal(lambda x: obj.has(x))           # membership view of the keys (`k in d.keys()` is `k in d`)
    if isinstance(obj, DictVal) and name == 'get' and 1 <= len(args) <= 2:
        # d.get(k, default) == d[k] if k in d else default
        k_ = args[0]
        dflt = args[1] if len(args) == 2 else None
        h = obj.has(k_)
        if h is True:
            return obj.get(k_)
        if h is False:
            return dflt
        if dflt is None:
            raise Unsupported('dict.get without default on a symbolic dict')
        return ite(to_z3(h), obj.get(k_), dflt)
    if isinstance(obj, SeqVal):
        if name == 'append':
            raise Unsupported('SeqVal.append must be handled at statement level')
        if name == 'insert':
            raise Unsupported('SeqVal.insert must be handled at statement level')
    if isinstance(obj, list):
        if name == 'append':
            obj.append(args[0])
            return None
        if name == 'insert' and is_conc_num(args[0]):
            obj.insert(args[0], args[1])
            return None
        if name == 'index':
            for i, x in enumerate(obj):
                c = s_eq(x, args[0])
                if c is True:
                    return i
                if c is not False:
                    raise Unsupported('symbolic list.index')
            raise Unsupported('list.index miss')
    if isinstance(obj, SetVal):
        if name == 'intersection':
            other = args[0]
            if not isinstance(other, SetVal):
                raise Unsupported('intersection with a non-set')
            a, b = obj.has, other.has
            return SetVal(lambda x: band(a(x), b(x)))
        if name == 'union':
            other = args[0]
            a, b = obj.has, other.has
            return SetVal(lambda x: bor(a(x), b(x)))
    if isinstance(obj, dict):
        if name == 'values':
            return list(obj.values())
        if name == 'keys':
            return list(obj.keys())
        if name == 'items':
            return [(k, v) for k, v in obj.items()]
    if isinstance(obj, str):
        if name == 'join':
            return Opaque('joined-string', args[0])
        if name == 'format':
            return Opaque('formatted-string')
    if isinstance(obj, Record):
        if name in obj.attrs:
            v = obj.attrs[name]
            return v(ex, st, *args, **kwargs) if callable(v) else v
    if isinstance(obj, OptVal) and isinstance(obj.some, ObjRef):
        raise Unsupported('method %s on optional object' % name)
    raise Unsupported('method %s of %r at line %s' % (name, obj, getattr(node, 'lineno', '?')))
