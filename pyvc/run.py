"""pyvc.run — verify one function under its contract: generate VCs from the working tree, discharge, report."""
import time
import traceback
from . import extract, solve
from .engine import Exec
from .sym import Unsupported


class FnReport:
    def __init__(self, key):
        self.key = key
        self.vcs = []
        self.unsupported = None
        self.info = None
        self.axioms = []
        self.assumed = []
        self.gen_s = 0.0
        self.paths = 0
        self.covers = []
        self.vacuous = []

    @property
    def name(self):
        return '%s::%s' % self.key[:2] + ('#' + self.key[2] if len(self.key) > 2 else '')


def generate(key, contract, registry, root=None, unassumed=()):
    rep = FnReport(key)
    t0 = time.time()
    try:
        from . import sym
        sym.reset_names()
        info = extract.get_function(key[0], key[1], root)
        rep.info = info
        ex = Exec(info, contract, registry, name=key[1] + ('#' + key[2] if len(key) > 2 else ''))
        rep.ex = ex
        ex.unassumed_lemmas = set(unassumed)
        ex.run()
        rep.vcs = ex.vcs
        rep.axioms = ex.axioms
        rep.assumed = sorted(set(ex.assumed))
        rep.paths = ex.path_count
        rep.covers = ex.covers
        rep.vacuous = list(ex.vacuous)
    except Unsupported as e:
        rep.unsupported = str(e)
        ex = getattr(rep, 'ex', None)
        if ex is not None:
            rep.vcs, rep.axioms, rep.assumed = ex.vcs, ex.axioms, sorted(set(ex.assumed))
    except KeyError as e:
        rep.unsupported = 'extraction failed: %s' % e
    except RecursionError:
        rep.unsupported = 'generator recursion limit (construct outside the modelled subset)'
    except Exception as e:          # the generator met a construct it mis-models: undecided, never a verdict
        import traceback
        rep.unsupported = 'generator error %s: %s' % (type(e).__name__, str(e)[:200])
        rep.trace = traceback.format_exc()[-1500:]
        ex = getattr(rep, 'ex', None)
        if ex is not None:
            rep.vcs, rep.axioms, rep.assumed = ex.vcs, ex.axioms, sorted(set(ex.assumed))
    rep.gen_s = time.time() - t0
    return rep


def verify(keys, registry, root=None, both=False):
    reps = [generate(k, registry[k], registry, root) for k in keys]
    allv = []
    ax = {}
    for r in reps:
        for vc in r.vcs:
            vc.func = r.name
        ax[r.name] = r.axioms
        allv.extend(r.vcs)
    lad = {r.name: registry[r.key].ladder for r in reps}
    solve.discharge(allv, ax, both=both, ladders=lad)
    # refuted cut lemmas: a lemma is a proof step, not a clause of the contract.  The function is re-generated with the refuted
    # lemmas checked but NOT assumed; if every other obligation is still discharged, the contract holds without them (a harmless
    # edit broke the proof script, not the property) and the lemma is reported as superseded; otherwise the refutation stands.
    for idx, r in enumerate(reps):
        bad = [vc.name for vc in r.vcs if vc.kind.startswith('lemma') and vc.result == 'sat' and '/base' not in vc.name and '/step' not in vc.name]
        if not bad or r.unsupported:
            continue
        r2 = generate(r.key, registry[r.key], registry, root, unassumed=bad)
        if r2.unsupported or getattr(r2, 'vacuous', None):
            continue
        for vc in r2.vcs:
            vc.func = r2.name
        solve.discharge(r2.vcs, {r2.name: r2.axioms}, both=both, ladders={r2.name: registry[r.key].ladder})
        others = [vc for vc in r2.vcs if vc.name not in bad]
        if all(vc.result == 'unsat' for vc in others):
            for vc in r2.vcs:
                if vc.name in bad:
                    vc.result, vc.solver = 'unsat', 'superseded: refuted cut lemma, but every contract clause is discharged without it'
            reps[idx] = r2
    return reps
