"""pyvc.arrays — numpy-like indexing, views and writes over ArrayVal / NDRef, and python slice semantics."""
import z3
from .sym import *


def clamp_index(i, n):
    """python slice bound normalisation: None handled by caller; negative wraps once, then clamps to [0, n]"""
    if is_conc_num(i) and is_conc_num(n):
        if i < 0:
            i += n
        return min(max(i, 0), n)
    if is_conc_num(i):
        if i >= 0:
            if i == 0:
                return 0
            return ite(s_lt(n, i), n, i)
        w = s_add(n, i)
        return ite(s_lt(w, 0), 0, w)
    w = ite(s_lt(i, 0), s_add(n, i), i)
    return ite(s_lt(w, 0), 0, ite(s_lt(n, w), n, w))


def slice_bounds(start, stop, step, n):
    """-> (lo, step, length) for a python slice over a sequence of length n; only positive steps"""
    if step is None:
        step = 1
    if not is_conc_num(step) or step <= 0:
        raise Unsupported('slice step %r' % (step,))
    lo = 0 if start is None else clamp_index(start, n)
    hi = n if stop is None else clamp_index(stop, n)
    span = s_sub(hi, lo)
    if step == 1:
        length = ite(s_lt(span, 0), 0, span)
    else:
        # ceil(span / step) for span > 0
        length = ite(s_le(span, 0), 0, s_floordiv(s_add(span, step - 1), step))
    return lo, step, simp(length) if is_z3(length) else length


NONNEG_ORACLE = [None]     # set by the engine: callable(index term) -> True when the index is provably >= 0


def norm_index(i, n):
    """python index normalisation (negative wraps once). returns (index, in_bounds_condition)"""
    if not is_conc_num(i) and NONNEG_ORACLE[0] is not None and NONNEG_ORACLE[0](i):
        i = to_int(i)
        return i, s_lt(i, n)
    if is_conc_num(i):
        if i < 0:
            j = s_add(n, i)
            return j, s_le(0, j)
        return i, s_lt(i, n)
    i = to_int(i)
    j = ite(s_lt(i, 0), s_add(n, i), i)
    return j, band(s_le(0, j), s_lt(j, n))


class SliceIx:
    def __init__(self, start, stop, step):
        self.start, self.stop, self.step = start, stop, step


NEWAXIS = object()
ELLIPSIS = object()


def view_shape(ref):
    return tuple(d.length for d in ref.dims if d.fixed is None)


def read_view(st, ref):
    """snapshot of the view as an immutable ArrayVal"""
    content = st.store[ref.buf]
    dims = list(ref.dims)

    def get(*idx):
        it = iter(idx)
        full = []
        for d in dims:
            if d.fixed is not None:
                full.append(d.fixed)
            else:
                i = next(it)
                full.append(s_add(d.start, s_mul(i, d.step)) if not (is_conc_num(d.step) and d.step == 1)
                            else s_add(d.start, i))
        return content.get(*full)
    return ArrayVal(view_shape(ref), get, content.dtype)


def as_array(st, v):
    """ArrayVal for anything array-like (NDRef views are snapshotted)"""
    if isinstance(v, ArrayVal):
        return v
    if isinstance(v, NDRef):
        return read_view(st, v)
    if isinstance(v, PyList):
        return st.store[v.buf]
    if isinstance(v, (list, tuple)):
        items = list(v)
        if items and all(isinstance(x, (list, tuple)) for x in items) and len({len(x) for x in items}) == 1:
            rows = [list(x) for x in items]
            dt = 'bool'
            for r in rows:
                for x in r:
                    dt = join_dtype(dt, dtype_of_value(x)) if dtype_of_value(x) in ('bool', 'int', 'real', 'xreal') else dtype_of_value(x)

            def get2(i, j):
                return select_concrete([select_concrete_row(r, j, dt) for r in rows], i, dt, already=True)
            return ArrayVal((len(rows), len(rows[0])), get2, dt)
        dt = None
        for x in items:
            k = dtype_of_value(x)
            if dt is None:
                dt = k
            elif k != dt:
                dt = join_dtype(dt, k)
        if dt is None:
            dt = 'real'
        return ArrayVal((len(items),), lambda i: select_concrete(items, i, dt), dt)
    if isinstance(v, SeqVal):
        s = v.s
        parts = getattr(v.elem, 'parts', None)
        if parts and all(c.name == parts[0].name and c.name in ('Sym', 'Int', 'Real') for c in parts):
            # list of equal-length tuples of one scalar kind: numpy makes a 2-d array of it
            accs = v.elem.accs

            def get2(i, j):
                row = s[to_int(i)]
                cells = [parts[k].unpack(accs[k](row)) for k in range(len(parts))]
                return select_concrete(cells, j, parts[0].name.lower())
            return ArrayVal((z3.Length(s), len(parts)), get2, parts[0].name.lower())
        return ArrayVal((z3.Length(s),), lambda i: v.elem.unpack(s[to_int(i)]), v.elem.name.lower() if v.elem.name in ('Sym', 'Int', 'Real') else 'obj')
    raise Unsupported('not array-like: %r' % (v,))


def select_concrete_row(row, j, dt):
    return select_concrete(row, j, dt)


def select_concrete(items, i, dt, already=False):
    """items[i] for a concrete python list and a possibly symbolic index"""
    if is_conc_num(i):
        return items[i]
    if len(items) == 0:
        raise Unsupported('indexing an empty concrete sequence symbolically')
    res = items[-1]
    for k in range(len(items) - 2, -1, -1):
        res = ite(s_eq(i, k), items[k], res)
    return res


def basic_index_ref(ref, idx_list, nd_shape_check):
    """apply basic indices (ints / SliceIx) to a view -> (new NDRef, obligations[(cond, what)])"""
    obls = []
    dims = []
    it = iter(idx_list)
    pending = list(idx_list)
    free_axes = [d for d in ref.dims if d.fixed is None]
    if len([x for x in pending if x is not NEWAXIS]) > len(free_axes):
        raise Unsupported('too many indices')
    k = 0
    for d in ref.dims:
        if d.fixed is not None:
            dims.append(d)
            continue
        if k < len(pending):
            ix = pending[k]
            k += 1
        else:
            ix = SliceIx(None, None, None)
        if isinstance(ix, SliceIx):
            lo, step, length = slice_bounds(ix.start, ix.stop, ix.step, d.length)
            dims.append(Dim(None, s_add(d.start, s_mul(lo, d.step)), s_mul(d.step, step), length))
        else:
            j, ok = norm_index(ix, d.length)
            obls.append((ok, 'index in bounds'))
            dims.append(Dim(s_add(d.start, s_mul(j, d.step))))
    return NDRef(ref.buf, dims), obls


def basic_index_arr(arr, idx_list):
    """apply basic indices to an immutable ArrayVal -> (ArrayVal or scalar, obligations)"""
    obls = []
    plan = []   # per source axis: ('fix', j) or ('sl', lo, step, length)
    k = 0
    shape = []
    for n in arr.shape:
        if k < len(idx_list):
            ix = idx_list[k]
            k += 1
        else:
            ix = SliceIx(None, None, None)
        if isinstance(ix, SliceIx):
            lo, step, length = slice_bounds(ix.start, ix.stop, ix.step, n)
            plan.append(('sl', lo, step))
            shape.append(length)
        else:
            j, ok = norm_index(ix, n)
            obls.append((ok, 'index in bounds'))
            plan.append(('fix', j))
    if k < len(idx_list):
        raise Unsupported('too many indices for array')

    def get(*idx):
        it = iter(idx)
        full = []
        for p in plan:
            if p[0] == 'fix':
                full.append(p[1])
            else:
                i = next(it)
                full.append(s_add(p[1], s_mul(i, p[2]) if p[2] != 1 else i))
        return arr.get(*full)
    if not shape:
        return get(), obls
    return ArrayVal(tuple(shape), get, arr.dtype), obls


def broadcast_get(v, shape):
    """-> function idx -> element, for scalar / same-shape array / trailing-axes array"""
    if isinstance(v, ArrayVal):
        if v.ndim == len(shape):
            return v.get
        if v.ndim < len(shape):
            k = len(shape) - v.ndim
            return lambda *i: v.get(*i[k:])
        raise Unsupported('broadcast to lower rank')
    return lambda *i: v


def shape_eq_cond(a, b):
    if len(a) != len(b):
        return False
    return band(*[s_eq(x, y) for x, y in zip(a, b)])


def write_view(st, ref, value, mask=None):
    """in-place store through a view. value: scalar or ArrayVal (same shape / broadcastable) or MaskedSel.
    returns list of obligations"""
    obls = []
    old = st.store[ref.buf]
    vshape = view_shape(ref)
    if isinstance(value, MaskedSel):
        if mask is None or value.mask is not mask:
            raise Unsupported('masked selection assigned through a different mask')
        src = value.arr
        obls.append((shape_eq_cond(src.shape, vshape), 'shape of masked source'))
        vget = src.get
    elif isinstance(value, ArrayVal):
        if value.ndim == len(vshape):
            if mask is None:
                # numpy broadcasting: a length-1 axis is allowed; we demand equal shapes
                obls.append((shape_eq_cond(value.shape, vshape), 'shape of assigned array'))
            vget = value.get
        else:
            vget = broadcast_get(value, vshape)
    else:
        vget = lambda *i: value
    if mask is not None:
        obls.append((shape_eq_cond(mask.shape, vshape), 'shape of boolean mask'))
    dims = list(ref.dims)
    vdt = value.arr.dtype if isinstance(value, MaskedSel) else (value.dtype if isinstance(value, ArrayVal) else dtype_of_value(value))
    dt = old.dtype
    if dt != vdt:
        if dt in ('bool', 'int', 'real', 'xreal') and vdt in ('bool', 'int', 'real', 'xreal'):
            # numpy keeps the buffer dtype: int buffer receiving reals truncates -> unsupported
            if ['bool', 'int', 'real', 'xreal'].index(vdt) > ['bool', 'int', 'real', 'xreal'].index(dt):
                if not (dt == 'real' and vdt == 'xreal'):
                    raise Unsupported('assignment of %s values into %s buffer' % (vdt, dt))
                dt = 'xreal'
        elif dt == 'obj' or vdt == 'none':
            dt = 'obj'
        else:
            raise Unsupported('assignment of %s values into %s buffer' % (vdt, dt))

    def get(*j):
        conds = []
        vidx = []
        for d, jj in zip(dims, j):
            if d.fixed is not None:
                conds.append(s_eq(jj, d.fixed))
            else:
                if is_conc_num(d.step) and d.step == 1:
                    conds.append(band(s_le(d.start, jj), s_lt(jj, s_add(d.start, d.length))))
                    vidx.append(s_sub(jj, d.start))
                else:
                    off = s_sub(jj, d.start)
                    conds.append(band(s_le(0, off), s_eq(s_mod(off, d.step), 0),
                                      s_lt(s_floordiv(off, d.step), d.length)))
                    vidx.append(s_floordiv(off, d.step))
        c = band(*conds)
        if mask is not None:
            c = band(c, mask.get(*vidx))
        newv = cast(vget(*vidx), dt) if dt in ('int', 'real', 'xreal', 'bool') else vget(*vidx)
        oldv = old.get(*j)
        if c is True:
            return newv
        if c is False:
            return oldv
        return ite(c, newv, cast(oldv, dt) if dt in ('int', 'real', 'xreal', 'bool') else oldv)
    st.store[ref.buf] = ArrayVal(old.shape, get, dt)
    return obls


def elementwise(fn, st, *vals):
    """apply scalar fn over broadcast arrays/scalars -> (value, obligations)"""
    arrs = [as_array(st, v) if isinstance(v, (ArrayVal, NDRef, list, tuple, PyList)) else v for v in vals]
    shapes = [a.shape for a in arrs if isinstance(a, ArrayVal)]
    if not shapes:
        return fn(*arrs), []
    nd = max(len(s) for s in shapes)
    obls = []
    # result shape: the shape of the highest-rank operand; equal-rank operands must agree;
    # length-1 axes broadcast (numpy) only when concretely 1
    full = [s for s in shapes if len(s) == nd]
    shape = list(full[0])
    getters = []
    for a in arrs:
        if isinstance(a, ArrayVal):
            if a.ndim == nd:
                ones = [is_conc_num(x) and x == 1 for x in a.shape]
                for ax, (x, y) in enumerate(zip(a.shape, shape)):
                    if ones[ax] and not (is_conc_num(y) and y == 1):
                        continue
                    if is_conc_num(y) and y == 1 and not ones[ax]:
                        shape[ax] = x
                        continue
                    c = s_eq(x, y)
                    if c is not True:
                        obls.append((c, 'operand shapes agree'))

                def g(*i, a=a, ones=ones):
                    return a.get(*[0 if o else k for o, k in zip(ones, i)])
                getters.append(g)
            else:
                k = nd - a.ndim
                for x, y in zip(a.shape, shape[k:]):
                    c = s_eq(x, y)
                    if c is not True:
                        obls.append((c, 'operand shapes agree (broadcast)'))
                getters.append(lambda *i, a=a, k=k: a.get(*i[k:]))
        else:
            getters.append(lambda *i, a=a: a)

    def get(*i):
        return fn(*[g(*i) for g in getters])
    # dtype by probing with a fresh index
    probe = get(*[z3.Int(fresh_name('probe')) for _ in range(nd)])
    return ArrayVal(tuple(shape), get, dtype_of_value(probe)), obls
