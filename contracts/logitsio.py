"""Sidecar contracts for logits persistence (property C09): the restore loop of PageLayout.load_logits (slice mode: the
loop is verified from an arbitrary state of the three dictionaries read from the file) and TextLine.get_dense_logits."""
import ast
import z3
from pyvc import extract, sym, run as vrun, lib
from pyvc.engine import Contract, LoopSpec, Exec, State, VC, SpecFunc
from pyvc.sym import *

PATH = 'pero_ocr/core/layout.py'
CONTRACTS = {}

NREG = z3.Int('n_regions')
REG = z3.Function('REGION', z3.IntSort(), z3.IntSort())
NL = z3.Function('n_lines', z3.IntSort(), z3.IntSort())
LINE = z3.Function('LINE', z3.IntSort(), z3.IntSort(), z3.IntSort())      # region index, position -> line reference
HAS = z3.Function('FILE_has', Val, z3.BoolSort())
D_LOG = z3.Function('FILE_logits', Val, Val)
D_CH = z3.Function('FILE_characters', Val, Val)
D_CO = z3.Function('FILE_coords', Val, Val)
STORED = None


def _regions(ex, st, obj):
    st.assume(NREG >= 0)
    return ArrayVal((NREG,), lambda a: ObjRef(REG(to_int(a)), 'RegionLayout'), 'obj')


REGIDX = z3.Function('region_index', z3.IntSort(), z3.IntSort())


def _lines(ex, st, obj):
    a = REGIDX(obj.r)
    return ArrayVal((NL(a),), lambda j: ObjRef(LINE(a, to_int(j)), 'TextLine'), 'obj')


def theory(ex, st):
    a, j, a2, j2 = z3.Ints('a j a2 j2')
    axioms = [
        z3.ForAll([a], z3.Implies(z3.And(a >= 0, a < NREG), z3.And(REGIDX(REG(a)) == a, NL(a) >= 0)), patterns=[REG(a)]),
        # line objects are pairwise distinct
        z3.ForAll([a, j, a2, j2], z3.Implies(LINE(a, j) == LINE(a2, j2), z3.And(a == a2, j == j2)),
                  patterns=[z3.MultiPattern(LINE(a, j), LINE(a2, j2))]),
    ]
    return {'NREG': NREG, 'NL': SpecFunc(lambda x: NL(to_int(x))), 'LINE': SpecFunc(lambda x, y: ObjRef(LINE(to_int(x), to_int(y)), 'TextLine')),
            'HAS': SpecFunc(lambda k: HAS(k)), 'D_LOG': SpecFunc(lambda k: D_LOG(k)), 'D_CH': SpecFunc(lambda k: D_CH(k)), 'D_CO': SpecFunc(lambda k: D_CO(k))}, axioms


FIELDS = ['logits', 'characters', 'logit_coords']


def restored(line):
    return ('(implies(HAS(%(l)s.id), %(l)s.logits == D_LOG(%(l)s.id) and %(l)s.characters == D_CH(%(l)s.id) and %(l)s.logit_coords == D_CO(%(l)s.id)) and '
            'implies(not HAS(%(l)s.id), %(u)s))') % {'l': line, 'u': ' and '.join('%s.%s == old(lambda: %s.%s)' % (line, f, line, f) for f in FIELDS)}


def untouched(line):
    return ' and '.join('%s.%s == old(lambda: %s.%s)' % (line, f, line, f) for f in FIELDS)


def done(bound_a, bound_b):
    """lines of regions < bound_a, and the first bound_b lines of region bound_a, are processed; all others untouched"""
    return ['forall(lambda a, j: implies(0 <= a and a < NREG and 0 <= j and j < NL(a) and (a < %s or (a == %s and j < %s)), %s))'
            % (bound_a, bound_a, bound_b, restored('LINE(a, j)')),
            'forall(lambda a, j: implies(0 <= a and a < NREG and 0 <= j and j < NL(a) and not (a < %s or (a == %s and j < %s)), %s))'
            % (bound_a, bound_a, bound_b, untouched('LINE(a, j)'))]


def load_logits_contract():
    return Contract(
        params={'self': 'obj:PageLayout'}, theory=theory,
        fields={'regions': 'py', 'lines': 'py', 'logits': 'val', 'characters': 'val', 'logit_coords': 'val', 'id': 'val'},
        ghosts={'pyinit:regions': _regions, 'pyinit:lines': _lines},
        loops={0: LoopSpec(counter='ra', inv=done('ra', '0')),
               1: LoopSpec(counter='lb', inv=done('ra', 'lb') + ['region is self.regions[ra]'])})


def load_logits_report(root):
    sym.reset_names()
    rep = vrun.FnReport((PATH, 'PageLayout.load_logits[restore loop]'))
    try:
        info = extract.get_function(PATH, 'PageLayout.load_logits', root)
        rep.info = info
        loops = [s for s in info.node.body if isinstance(s, ast.For)]
        if len(loops) != 1:
            raise Unsupported('expected exactly one top-level loop in load_logits (found %d)' % len(loops))
        con = load_logits_contract()
        ex = Exec(info, con, {}, name='PageLayout.load_logits[restore loop]')
        st = State()
        st.env = {'self': ObjRef(z3.Int('self'), 'PageLayout'),
                  'logits_dict': lib.DictVal(lambda k: HAS(k) if (is_z3(k) and k.sort() == Val) else False, lambda k: D_LOG(k)),
                  # the file's character / coordinate dictionaries have an entry for every id of the file
                  'characters': lib.DictVal(lambda k: HAS(k), lambda k: D_CH(k)),
                  'logit_coords': lib.DictVal(lambda k: HAS(k), lambda k: D_CO(k))}
        names, axioms = theory(ex, st)
        ex.spec_funcs.update(names)
        ex.axioms.extend(axioms)
        for f in FIELDS + ['id']:
            ex.field(st, f)
        ex.entry = st.copy()
        outs = ex.exec_block(loops, st)
        for s2, oc in outs:
            if oc is not None:
                raise Unsupported('restore loop leaves with %s' % oc[0])
            for i, e in enumerate(done('NREG', '0')):
                ex.emit(s2, 'post#%d' % i, ex.eval_spec(e, s2), loops[0], e)
        rep.vcs = ex.vcs
        rep.axioms = ex.axioms
        rep.assumed = sorted(set(ex.assumed + ['slice mode: the dictionaries read from the file are arbitrary (logits_dict has an entry exactly for the ids of the file; '
                                               'characters / logit_coords have an entry for each of those ids)']))
        rep.paths = len(outs)
    except (KeyError, Unsupported) as e:
        rep.unsupported = str(e)
        if 'ex' in locals():
            rep.vcs, rep.axioms = ex.vcs, ex.axioms
    return rep


def _dense_hook(ex, st, name, base, args, kwargs):
    if name == 'toarray':
        shape = (z3.Int('rows'), z3.Int('cols'))
        st.assume(z3.And(shape[0] >= 0, shape[1] >= 0))
        arr = fresh_array(shape, 'real', 'STORED')
        ex.spec_funcs['STORED'] = SpecFunc(lambda t, c: arr.get(t, c))
        ex.spec_funcs['ROWS'], ex.spec_funcs['COLS'] = shape
        ex.assumed.append('model: sparse.toarray() returns a fresh dense array STORED (zeros where nothing is stored)')
        return lib._new_buffer(st, arr, 'dense')
    return NotImplemented


CONTRACTS[(PATH, 'TextLine.get_dense_logits')] = Contract(
    params={'self': 'obj:TextLine', 'zero_logit_value': 'int'}, fields={'logits': 'val'}, ghosts={'opaque_hook': _dense_hook},
    ensures=['result.shape[0] == ROWS and result.shape[1] == COLS',
             'forall(lambda t, c: implies(0 <= t and t < ROWS and 0 <= c and c < COLS and STORED(t, c) != 0, result[t, c] == STORED(t, c)))',
             'forall(lambda t, c: implies(0 <= t and t < ROWS and 0 <= c and c < COLS and STORED(t, c) == 0, result[t, c] == zero_logit_value))'],
)
# ---------------------------------------------------------------------------------------------------
# _gen_logits: a missing component is reported, never saved silently

_MISSING = ('exists(lambda a, j: 0 <= a and a < NREG and 0 <= j and j < NL(a) and '
            '(LINE(a, j).logits is None or LINE(a, j).characters is None or LINE(a, j).logit_coords is None))')
_COMPLETE = ('forall(lambda a, j: implies(0 <= a and a < %s and 0 <= j and j < %s, '
             'LINE(a, j).logits is not None and LINE(a, j).characters is not None and LINE(a, j).logit_coords is not None))')
CONTRACTS[(PATH, 'PageLayout._gen_logits')] = Contract(
    params={'self': 'obj:PageLayout', 'missing_line_logits_ok': 'bool'}, theory=theory,
    fields={'regions': 'py', 'lines': 'py', 'logits': 'opt:val', 'characters': 'opt:val', 'logit_coords': 'opt:val', 'id': 'val'},
    ghosts={'pyinit:regions': _regions, 'pyinit:lines': _lines, 'seqvars': {'logits': ValCodec, 'characters': ValCodec, 'logit_coords': ValCodec}},
    # the three `+=` of per-line tuples and the dictionary construction are replaced by "no effect on the exception clause"
    replace={('logits += [(line.id, line.logits) for line in ', 'logits.extend([(line.id, line.logits) for line in '): [],
             ('characters += [(line.id, line.characters) for line in ', 'characters.extend([(line.id, line.characters) for line in '): [],
             ('logit_coords += [(line.id, line.logit_coords) for line in ', 'logit_coords.extend([(line.id, line.logit_coords) for line in '): [],
             'logits_dict = dict(logits)': ['logits_dict = 0'], "logits_dict['line_characters'] = dict(characters)": [], "logits_dict['logit_coords'] = dict(logit_coords)": []},
    # unless the caller allows it, a line without logits / character table / frame window raises instead of being written
    raises={'Exception': 'not missing_line_logits_ok and ' + _MISSING},
    ensures_exc={'Exception': 'not missing_line_logits_ok and ' + _MISSING},
    loops={0: LoopSpec(counter='ra', inv=['implies(not missing_line_logits_ok, ' + _COMPLETE % ('ra', 'NL(a)') + ')']),
           1: LoopSpec(counter='lb', inv=['region is self.regions[ra]', 'implies(not missing_line_logits_ok, ' + _COMPLETE % ('ra', 'NL(a)') + ')',
                                          'implies(not missing_line_logits_ok, forall(lambda j: implies(0 <= j and j < lb, LINE(ra, j).logits is not None and '
                                          'LINE(ra, j).characters is not None and LINE(ra, j).logit_coords is not None)))'])},
)
KEYS = list(CONTRACTS)


def reports(root):
    return [load_logits_report(root)]
