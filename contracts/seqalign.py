"""Sidecar contracts for pero_ocr/sequence_alignment.py and pero_ocr/error_summary.py (property C13).

Spec functions (uninterpreted + defining axioms), S = source elements, T = target elements:
  LEV(i, j)   Wagner-Fischer value for the prefixes S[0..i), T[0..j) with costs sub/ins/del
"""
import z3
from pyvc.engine import Contract, LoopSpec, SpecFunc
from pyvc.sym import *

PATH = 'pero_ocr/sequence_alignment.py'
SYM_NONE = NONE_SYM       # the default empty_symbol=None of the alignment functions


def imin(a, b):
    return z3.If(a <= b, a, b)


def lev_theory(src='source', tgt='target', free_start=False, longer_first=False, fname='LEV', costs=None):
    """returns theory(ex, st) declaring LEV over the elements of params src / tgt and the cost params.
    longer_first: the function swaps its arguments so that the first is the longer one; the theory is then
    stated over (longer, shorter)."""
    def theory(ex, st):
        S = st.env[src]
        T = st.env[tgt]
        if longer_first:
            swap = to_int(T.shape[0]) > to_int(S.shape[0])
            S0, T0 = S, T
            S = ArrayVal((z3.If(swap, to_int(T0.shape[0]), to_int(S0.shape[0])),),
                         lambda i: z3.If(swap, T0.get(i), S0.get(i)), 'sym')
            T = ArrayVal((z3.If(swap, to_int(S0.shape[0]), to_int(T0.shape[0])),),
                         lambda i: z3.If(swap, S0.get(i), T0.get(i)), 'sym')
        sub, ins, dele = costs or [to_int(st.env[c]) for c in ('sub_cost', 'ins_cost', 'del_cost')]
        LEV = z3.Function(fname, z3.IntSort(), z3.IntSort(), z3.IntSort())
        a, b = z3.Ints('a b')
        neq = lambda i, j: z3.If(S.get(i) != T.get(j), sub, z3.IntVal(0))
        def lev_def(i, j):
            i, j = to_int(i), to_int(j)
            return z3.Implies(z3.And(i >= 1, j >= 1),
                              LEV(i, j) == imin(imin(LEV(i - 1, j) + dele, LEV(i, j - 1) + ins),
                                                LEV(i - 1, j - 1) + neq(i - 1, j - 1)))
        # base cases are closed forms (not self-triggering); the recursive case is unfolded at occurrences
        axioms = [
            ([fname], z3.ForAll([b], z3.Implies(b >= 0, LEV(0, b) == b * ins), patterns=[LEV(0, b)])),
            ([fname], z3.ForAll([a], z3.Implies(a >= 0, LEV(a, 0) == (z3.IntVal(0) if free_start else a * dele)), patterns=[LEV(a, 0)])),
        ]
        names = {fname: SpecFunc(lambda i, j: LEV(to_int(i), to_int(j)), fname, defn=lev_def)}
        # LEVD(a, b): the distance of the two sequences a, b as a caller sees it (see from_lists); inside the function it is
        # LEV at the full lengths of its own parameters
        names['_S'], names['_T'] = S, T          # the two sequences as the theory reads them (after the argument swap, if any)
        names['NONE_SYMBOL'] = SpecFunc(lambda: SYM_NONE, 'NONE_SYMBOL')
        names['LEVD'] = SpecFunc(lambda a_, b_: LEV(to_int(S.shape[0]), to_int(T.shape[0])), 'LEVD')
        if free_start:
            # BEST(i) = min over i' <= i of LEV(i', m): best match of the whole shorter sequence against a substring
            # of the longer one that ends at or before position i
            m = to_int(T.shape[0])
            BEST = z3.Function('BEST', z3.IntSort(), z3.IntSort())

            def best_def(i):
                i = to_int(i)
                return z3.And(z3.Implies(i == 0, BEST(i) == LEV(0, m)),
                              z3.Implies(i >= 1, BEST(i) == imin(BEST(i - 1), LEV(i, m))))
            names['BEST'] = SpecFunc(lambda i: BEST(to_int(i)), 'BEST', defn=best_def)

            def PRE(ex, st, i, j):
                i, j = to_int(i), to_int(j)
                if ex.pending_defs:
                    ex.pending_defs[-1].extend([lev_def(i, j), lev_def(i, j - 1)])
                return imin(LEV(i, j) + dele, LEV(i, j - 1) + neq(i, j - 1))
            names['PRE'] = PRE
        return names, axioms
    return theory


LADDER = [dict(len_source=n, len_target=m, sub_cost=1, ins_cost=2, del_cost=3)
          for n, m in ((1, 1), (1, 2), (2, 1), (2, 2), (2, 3))] + \
         [dict(len_source=n, len_target=m, sub_cost=3, ins_cost=1, del_cost=1) for n, m in ((1, 1), (2, 2))]

COSTS = ['sub_cost >= 1', 'ins_cost >= 1', 'del_cost >= 1']

CONTRACTS = {}

CONTRACTS[(PATH, 'levenshtein_distance')] = Contract(
    params={'source': 'seq:sym', 'target': 'seq:sym', 'sub_cost': 'int', 'ins_cost': 'int', 'del_cost': 'int'},
    requires=COSTS, inline=['_as_symbol_array'],
    theory=lev_theory(), ladder=LADDER,
    ensures=['result == LEV(len(source), len(target))', 'result >= 0', 'result == LEVD(source_0, target_0)'],
    # callers with unit costs read LEVD as the unit-cost distance of the two argument sequences
    public_ensures=['result >= 0', {'needs': ['LEVD'], 'text': 'implies(sub_cost == 1 and ins_cost == 1 and del_cost == 1, result == LEVD(source_0, target_0))'}],
    result=lambda ex, st, env: z3.Int(fresh_name('lev')),
    loops={
        0: LoopSpec(counter='i', inv=[
            'forall(lambda j: implies(0 <= j and j <= len(target), dist[j] == LEV(i, j)))',
            'forall(lambda j: implies(0 <= j and j <= len(target), dist[j] >= 0))',
        ]),
        1: LoopSpec(counter='c', inv=[
            'forall(lambda j: implies(0 <= j and j <= c, dist[j] == LEV(i + 1, j)))',
            'forall(lambda j: implies(c < j and j <= len(target), dist[j] == min(LEV(i, j) + del_cost, '
            'LEV(i, j - 1) + (sub_cost if target[j - 1] != source[i] else 0))))',
            'forall(lambda j: implies(0 <= j and j <= len(target), dist[j] >= 0))',
        ]),
    },
)


# ---------------------------------------------------------------------------------------------------
# alignments: backtrack-matrix certificate + sequence projections

PAIR = tuple_codec([SymCodec, SymCodec])
SEQ_PAIR = z3.SeqSort(PAIR.sort)
SEQ_SYM = z3.SeqSort(Sym)
SEQ_REAL = z3.SeqSort(z3.RealSort())


def pair_family(E, sub, ins, dele):
    """projections, cost and the no-(E, E)-pair predicate of an alignment (sequence of pairs), cons-recursive; shared by the
    contract of levenshtein_alignment and by its callers so that both sides read the same definitions"""
    projS = z3.Function('projS', SEQ_PAIR, SEQ_SYM)
    projT = z3.Function('projT', SEQ_PAIR, SEQ_SYM)
    cost = z3.Function('cost', SEQ_PAIR, z3.IntSort())
    noee = z3.Function('NOEE', SEQ_PAIR, z3.BoolSort())
    q = z3.Const('q', PAIR.sort)
    s = z3.Const('s', SEQ_PAIR)
    fst, snd = PAIR.accs
    cons = z3.Concat(z3.Unit(q), s)
    empty = z3.Empty(SEQ_PAIR)
    axioms = [
        (['projS'], projS(empty) == z3.Empty(SEQ_SYM)), (['projT'], projT(empty) == z3.Empty(SEQ_SYM)),
        (['cost'], cost(empty) == 0), (['NOEE'], noee(empty)),
        (['projS'], z3.ForAll([q, s], projS(cons) == z3.If(fst(q) == E, projS(s), z3.Concat(z3.Unit(fst(q)), projS(s))),
                              patterns=[projS(cons)])),
        (['projT'], z3.ForAll([q, s], projT(cons) == z3.If(snd(q) == E, projT(s), z3.Concat(z3.Unit(snd(q)), projT(s))),
                              patterns=[projT(cons)])),
        (['cost'], z3.ForAll([q, s], cost(cons) == cost(s) + z3.If(fst(q) == E, ins, z3.If(snd(q) == E, dele,
                                                                   z3.If(fst(q) != snd(q), sub, z3.IntVal(0)))),
                             patterns=[cost(cons)])),
        (['NOEE'], z3.ForAll([q, s], noee(cons) == z3.And(noee(s), z3.Not(z3.And(fst(q) == E, snd(q) == E))),
                             patterns=[noee(cons)])),
    ]
    names = {'projS': SpecFunc(lambda a: SeqVal(projS(a.s), SymCodec)),
             'projT': SpecFunc(lambda a: SeqVal(projT(a.s), SymCodec)),
             'cost': SpecFunc(lambda a: cost(a.s)),
             'NOEE': SpecFunc(lambda a: noee(a.s))}
    return names, axioms


def align_theory(path_variant=False):
    """LEV + suffix sequences SUF_S / SUF_T + projections/cost of an alignment (cons-recursive)"""
    base = lev_theory()

    def theory(ex, st):
        names, axioms = base(ex, st)
        S, T = st.env['source'], st.env['target']
        n, m = to_int(S.shape[0]), to_int(T.shape[0])
        sub, ins, dele = [to_int(st.env[c]) for c in ('sub_cost', 'ins_cost', 'del_cost')]
        LEV = names['LEV'].fn
        LEVdef = names['LEV'].defn
        p = z3.Int('p')
        if not path_variant:
            E = st.env['empty_symbol']
            SUF_S = z3.Function('SUF_S', z3.IntSort(), SEQ_SYM)
            SUF_T = z3.Function('SUF_T', z3.IntSort(), SEQ_SYM)
            fam_names, fam_axioms = pair_family(E, sub, ins, dele)
            axioms += [
                (['SUF_S'], SUF_S(n) == z3.Empty(SEQ_SYM)), (['SUF_T'], SUF_T(m) == z3.Empty(SEQ_SYM))] + fam_axioms
            names.update(fam_names)
            names.update({
                'SUF_S': SpecFunc(lambda i: SeqVal(SUF_S(to_int(i)), SymCodec), 'SUF_S', defn=lambda i: z3.Implies(
                    z3.And(to_int(i) >= 0, to_int(i) < n),
                    SUF_S(to_int(i)) == z3.Concat(z3.Unit(S.get(to_int(i))), SUF_S(to_int(i) + 1)))),
                'SUF_T': SpecFunc(lambda i: SeqVal(SUF_T(to_int(i)), SymCodec), 'SUF_T', defn=lambda i: z3.Implies(
                    z3.And(to_int(i) >= 0, to_int(i) < m),
                    SUF_T(to_int(i)) == z3.Concat(z3.Unit(T.get(to_int(i))), SUF_T(to_int(i) + 1)))),
            })
        else:
            # path variant: list of moves built by append while walking back from (n, m)
            cntS = z3.Function('cntS', SEQ_REAL, z3.IntSort())
            cntT = z3.Function('cntT', SEQ_REAL, z3.IntSort())
            wcost = z3.Function('wcost', SEQ_REAL, z3.IntSort())
            w = z3.Real('w')
            s = z3.Const('s', SEQ_REAL)
            snoc = z3.Concat(s, z3.Unit(w))
            empty = z3.Empty(SEQ_REAL)
            i_, j_ = n - cntS(s), m - cntT(s)
            step = z3.If(w > 0, dele, z3.If(w < 0, ins, z3.If(S.get(i_ - 1) != T.get(j_ - 1), sub, z3.IntVal(0))))
            axioms += [
                (['cntS'], cntS(empty) == 0), (['cntT'], cntT(empty) == 0), (['wcost'], wcost(empty) == 0),
                (['cntS'], z3.ForAll([s, w], cntS(snoc) == cntS(s) + z3.If(w >= 0, 1, 0), patterns=[cntS(snoc)])),
                (['cntT'], z3.ForAll([s, w], cntT(snoc) == cntT(s) + z3.If(w <= 0, 1, 0), patterns=[cntT(snoc)])),
                (['wcost'], z3.ForAll([s, w], wcost(snoc) == wcost(s) + step, patterns=[wcost(snoc)])),
            ]
            names.update({'cntS': SpecFunc(lambda a: cntS(a.s)), 'cntT': SpecFunc(lambda a: cntT(a.s)),
                          'wcost': SpecFunc(lambda a: wcost(a.s))})

        def neq(i, j):
            return z3.If(S.get(i) != T.get(j), sub, z3.IntVal(0))

        def CERT(ex, st, i, j):
            """backtrack[i, j] certifies which recurrence case realises LEV(i, j)"""
            i, j = to_int(i), to_int(j)
            bt = ex.getitem(st.env['backtrack'], (i, j), st, None)
            if ex.pending_defs:
                ex.pending_defs[-1].extend([LEVdef(i, j), LEVdef(i - 1, j), LEVdef(i, j - 1), LEVdef(i - 1, j - 1)])
            return z3.And(
                z3.Or(bt == 1, bt == 0, bt == -1),
                z3.Implies(bt == 1, z3.And(i >= 1, LEV(i, j) == LEV(i - 1, j) + dele)),
                z3.Implies(bt == 0, z3.And(i >= 1, j >= 1, LEV(i, j) == LEV(i - 1, j - 1) + neq(i - 1, j - 1))),
                z3.Implies(bt == -1, z3.And(j >= 1, LEV(i, j) == LEV(i, j - 1) + ins)))

        def PRE(ex, st, i, j):
            """value of dist[j] after the vectorised sub/del step of row i+1, before insertion relaxation"""
            i, j = to_int(i), to_int(j)
            if ex.pending_defs:
                ex.pending_defs[-1].extend([LEVdef(i, j), LEVdef(i, j - 1)])
            return imin(LEV(i, j) + dele, LEV(i, j - 1) + neq(i, j - 1))

        def PREBT(ex, st, i, j):
            """backtrack[i+1, j] after the vectorised step: 0 only if substitution realises PRE, 1 only if deletion
            does (ties may go either way: the contract does not pin the tie-break)"""
            i, j = to_int(i), to_int(j)
            bt = ex.getitem(st.env['backtrack'], (i + 1, j), st, None)
            if ex.pending_defs:
                ex.pending_defs[-1].extend([LEVdef(i, j), LEVdef(i, j - 1)])
            pre = imin(LEV(i, j) + dele, LEV(i, j - 1) + neq(i, j - 1))
            return z3.And(z3.Or(bt == 0, bt == 1),
                          z3.Implies(bt == 0, pre == LEV(i, j - 1) + neq(i, j - 1)),
                          z3.Implies(bt == 1, pre == LEV(i, j) + dele))
        names.update({'CERT': CERT, 'PRE': PRE, 'PREBT': PREBT})
        return names, axioms
    return theory


_N, _M = 'len(source)', 'len(target)'
ROWS_DONE = ('forall(lambda a, b: implies(0 <= a and a <= %s and 0 <= b and b <= ' + _M + ' and a + b > 0, CERT(a, b)))')
ROWS_TODO = 'forall(lambda a, b: implies(%s < a and a <= ' + _N + ' and 0 <= b and b <= ' + _M + ', backtrack[a, b] == 1))'
SHAPES = ['backtrack.shape[0] == ' + _N + ' + 1', 'backtrack.shape[1] == ' + _M + ' + 1', 'len(dist) == ' + _M + ' + 1']

def _merge(a, b):
    d = dict(a)
    d.update(b)
    return d


ALIGN_LOOPS = {
    0: LoopSpec(counter='r', modifies={'backtrack': 'lambda a, b: 1 <= a and a <= r'}, inv=[
        'forall(lambda j: implies(0 <= j and j <= ' + _M + ', dist[j] == LEV(r, j)))',
        ROWS_DONE % 'r']),
    1: LoopSpec(counter='c', modifies={'backtrack': 'lambda a, b: a == r + 1'}, inv=[
        'forall(lambda j: implies(0 <= j and j <= c, dist[j] == LEV(r + 1, j)))',
        'forall(lambda j: implies(c < j and j <= ' + _M + ', dist[j] == PRE(r, j)))',
        'forall(lambda j: implies(0 <= j and j <= c, CERT(r + 1, j)))',
        'forall(lambda j: implies(c < j and j <= ' + _M + ', PREBT(r, j)))']),
}

CONTRACTS[(PATH, 'levenshtein_alignment')] = Contract(
    params={'source': 'seq:sym', 'target': 'seq:sym', 'sub_cost': 'int', 'ins_cost': 'int', 'del_cost': 'int',
            'empty_symbol': 'sym'},
    requires=COSTS + ['forall(lambda k: implies(0 <= k and k < len(source), source[k] != empty_symbol))',
                      'forall(lambda k: implies(0 <= k and k < len(target), target[k] != empty_symbol))'],
    theory=align_theory(), ladder=LADDER, inline=['_as_symbol_array'], ghosts={'seqvars': {'alig': PAIR}},
    ensures=['projS(result) == SUF_S(0)', 'projT(result) == SUF_T(0)', 'cost(result) == LEV(len(source), len(target))',
             'NOEE(result)', 'cost(result) == LEVD(source_0, target_0)'],
    # for callers with unit costs and the default empty symbol, whose theory reads cost / NOEE / LEVD with those values
    public_ensures=[{'needs': ['LEVD', 'cost', 'NOEE', 'NONE_SYMBOL'],
                     'text': 'implies(sub_cost == 1 and ins_cost == 1 and del_cost == 1 and empty_symbol == NONE_SYMBOL(), cost(result) == LEVD(source_0, target_0) and NOEE(result))'}],
    result=lambda ex, st, env: SeqVal(z3.Const(fresh_name('alignment'), SEQ_PAIR), PAIR),
    loops=_merge(ALIGN_LOOPS, {
        2: LoopSpec(counter='w', inv=[
            '0 <= src_pos and src_pos <= len(source)', '0 <= tar_pos and tar_pos <= len(target)',
            'projS(alig) == SUF_S(src_pos)', 'projT(alig) == SUF_T(tar_pos)', 'NOEE(alig)',
            'cost(alig) + LEV(src_pos, tar_pos) == LEV(len(source), len(target))'],
            variant='src_pos + tar_pos')}),
)

CONTRACTS[(PATH, 'levenshtein_alignment_path')] = Contract(
    params={'source': 'seq:sym', 'target': 'seq:sym', 'sub_cost': 'int', 'ins_cost': 'int', 'del_cost': 'int',
            'empty_symbol': 'sym'},
    requires=COSTS,
    theory=align_theory(path_variant=True), ladder=LADDER, inline=['_as_symbol_array'], ghosts={'seqvars': {'align': RealCodec}},
    # `list(reversed(align))`: the result is the walk read backwards; the contract is stated on the walk
    ensures=['cntS(align) == len(source)', 'cntT(align) == len(target)',
             'wcost(align) == LEV(len(source), len(target))', 'len(result) == len(align)'],
    loops=_merge(ALIGN_LOOPS, {
        2: LoopSpec(counter='w', inv=[
            '0 <= src_pos and src_pos <= len(source)', '0 <= tar_pos and tar_pos <= len(target)',
            'cntS(align) == len(source) - src_pos', 'cntT(align) == len(target) - tar_pos',
            'wcost(align) + LEV(src_pos, tar_pos) == LEV(len(source), len(target))'],
            variant='src_pos + tar_pos')}),
)


# ---------------------------------------------------------------------------------------------------
# substring distance (Sellers): free start in the longer sequence, best end position

_M2 = 'len(target)'
CONTRACTS[(PATH, 'levenshtein_distance_substring')] = Contract(
    params={'source': 'seq:sym', 'target': 'seq:sym', 'sub_cost': 'int', 'ins_cost': 'int', 'del_cost': 'int'},
    requires=COSTS, inline=['_as_symbol_array'],
    theory=lev_theory(free_start=True, longer_first=True), ladder=LADDER,
    # after the swap `source` is the longer and `target` the shorter sequence
    ensures=['result == BEST(len(source))', 'finite(result)', 'len(source) >= len(target)'],
    loops={
        0: LoopSpec(counter='i', inv=[
            'forall(lambda j: implies(0 <= j and j <= ' + _M2 + ', dist[j] == LEV(i, j)))',
            'dist[' + _M2 + ' + 1] == BEST(i)']),
        1: LoopSpec(counter='c', modifies={'dist': 'lambda j: j <= ' + _M2}, inv=[
            'forall(lambda j: implies(0 <= j and j <= c, dist[j] == LEV(i + 1, j)))',
            'forall(lambda j: implies(c < j and j <= ' + _M2 + ', dist[j] == PRE(i, j)))']),
    },
)


# ---------------------------------------------------------------------------------------------------
# ErrorsSummary.aggregate: every total is the sum over the list

ES_PATH = 'pero_ocr/error_summary.py'
NERR = z3.Int('n_summaries')
ERR = z3.Function('SUMMARY', z3.IntSort(), z3.IntSort())
NKEYS = z3.Function('n_confusion_keys', z3.IntSort(), z3.IntSort())
CKEY = z3.Function('confusion_key', z3.IntSort(), z3.IntSort(), Val)
TOTALS = ['nb_lines_summarized', 'ref_len', 'nb_errors', 'nb_subs', 'nb_inss', 'nb_dels']


def _errors(ex, st, n):
    st.assume(NERR >= 0)
    return ArrayVal((NERR,), lambda i: ObjRef(ERR(to_int(i)), 'ErrorsSummary'), 'obj')


def _confusions(ex, st, obj):
    from pyvc import lib
    n = NKEYS(obj.r)
    st.assume(n >= 0)
    d = lib.DictVal(lambda k: True, lambda k: z3.Function('CONFUSIONS', z3.IntSort(), Val, Val)(obj.r, k))
    d.keys_arr = ArrayVal((n,), lambda j: CKEY(obj.r, to_int(j)), 'obj')
    return d


def _summary_ctor(ex, st, *args):
    names = ['nb_lines_summarized', 'ref_len', 'nb_errors', 'nb_subs', 'nb_inss', 'nb_dels', 'confusions', 'ending_errors']
    return Record(dict(zip(names, args)), 'ErrorsSummary')


def aggregate_theory(ex, st):
    names = {}
    for f in TOTALS:
        H = ex.initial_field(st, f)[0]
        S = z3.Function('SUM_' + f, z3.IntSort(), z3.IntSort())

        def defn(k, S=S, H=H):
            k = to_int(k)
            return z3.And(z3.Implies(k == 0, S(k) == 0), z3.Implies(k >= 1, S(k) == S(k - 1) + z3.Select(H, ERR(k - 1))))
        names['SUM_' + f] = SpecFunc(lambda k, S=S: S(to_int(k)), 'SUM_' + f, defn=defn)
    return names, []


CONTRACTS[(ES_PATH, 'ErrorsSummary.aggregate')] = Contract(
    params={'errors': _errors}, theory=aggregate_theory,
    fields=dict({f: 'int' for f in TOTALS}, confusions='py', ending_errors='val'),
    opaque=['empty_summary'],
    ghosts={'pyinit:confusions': _confusions, 'ctor:ErrorsSummary': _summary_ctor,
            'lib:collections.defaultdict': lambda ex, st, *a: z3.Const('total_confusions', Val)},
    ensures=['result.%s == SUM_%s(len(errors))' % (f, f) for f in TOTALS],
    loops={0: LoopSpec(counter='kk', inv=['%s == SUM_%s(kk)' % ('total_' + f.replace('nb_lines_summarized', 'nb_lines'), f) for f in TOTALS]),
           1: LoopSpec(counter='kc', inv=[])},
)


# ---------------------------------------------------------------------------------------------------
# edit_stats_for_alignment and ErrorsSummary.from_lists: substitutions + insertions + deletions == distance
#
# Counts over an alignment (a z3 sequence of pairs), by recursion on the suffix that starts at position k:
#   NINS(a, k)  pairs at positions >= k whose second component is the empty symbol
#   NDEL(a, k)  ... whose first component is the empty symbol
#   NCOR(a, k)  ... whose two components are equal
# edit_stats_for_alignment counts with numpy (np.sum of boolean vectors, modelled as COUNT<n>, same recursion);
# the lemma `counts` identifies the two.



def count_names(E):
    fst, snd = PAIR.accs
    out = {}
    for nm, pred in (('NINS', lambda q: snd(q) == E), ('NDEL', lambda q: fst(q) == E), ('NCOR', lambda q: fst(q) == snd(q))):
        F = z3.Function(nm, SEQ_PAIR, z3.IntSort(), z3.IntSort())

        def defn(a, i, F=F, pred=pred):
            i = to_int(i)
            n = z3.Length(a.s)
            return z3.And(z3.Implies(z3.And(i >= 0, i < n), F(a.s, i) == F(a.s, i + 1) + z3.If(pred(a.s[i]), 1, 0)),
                          z3.Implies(i == n, F(a.s, i) == 0))
        out[nm] = SpecFunc(lambda a, i, F=F: F(a.s, to_int(i)), nm, defn=defn)
    return out


def _alig_param(ex, st, n):
    return SeqVal(z3.Const(n, SEQ_PAIR), PAIR)


def edit_stats_theory(ex, st):
    return count_names(st.env['empty_symbol']), []


CONTRACTS[(PATH, 'edit_stats_for_alignment')] = Contract(
    params={'alig': _alig_param, 'empty_symbol': 'sym'}, theory=edit_stats_theory,
    lemmas=[{'name': 'counts', 'var': 'k', 'lo': '0', 'hi': 'len(alig_0)', 'direction': 'down',
             'needs': ['COUNT0', 'COUNT1', 'COUNT2'],
             'stmt': 'COUNT0(k) == NCOR(alig_0, k) and COUNT1(k) == NDEL(alig_0, k) and COUNT2(k) == len(alig_0) - k - NINS(alig_0, k)'}],
    # (nphn, ncor, nins, ndel, nsub)
    ensures=['result[0] == len(alig_0) - NINS(alig_0, 0)', 'result[1] == NCOR(alig_0, 0)', 'result[2] == NINS(alig_0, 0)',
             'result[3] == NDEL(alig_0, 0)',
             'result[4] == len(alig_0) - NCOR(alig_0, 0) - NINS(alig_0, 0) - NDEL(alig_0, 0)'],
    result=lambda ex, st, env: tuple(z3.Int(fresh_name(n)) for n in ('nphn', 'ncor', 'nins', 'ndel', 'nsub')),
)
CONTRACTS[(PATH, 'edit_stats_for_alignment')].public_ensures = list(CONTRACTS[(PATH, 'edit_stats_for_alignment')].ensures)


def from_lists_theory(ex, st):
    """unit-cost distances in both argument orders (the function computes the distance as (ref, hyp) but the alignment as
    (hyp, ref)), the alignment family with unit costs and None as the empty symbol, the suffix counts, and TAIL(a, k) =
    the suffix of the sequence a from position k"""
    from pyvc.engine import Unsupported
    R, H = st.env['ref'], st.env['hyp']
    n, m = to_int(R.shape[0]), to_int(H.shape[0])
    one = z3.IntVal(1)
    na, aa = lev_theory(src='ref', tgt='hyp', fname='LEV_ref_hyp', costs=(one, one, one))(ex, st)
    nb, ab = lev_theory(src='hyp', tgt='ref', fname='LEV_hyp_ref', costs=(one, one, one))(ex, st)
    LA, LB = na['LEV_ref_hyp'].fn, nb['LEV_hyp_ref'].fn
    names = {'LEV_ref_hyp': na['LEV_ref_hyp'], 'LEV_hyp_ref': nb['LEV_hyp_ref'], 'NONE_SYMBOL': na['NONE_SYMBOL']}

    def levd(a, b):
        if a is R and b is H:
            return LA(n, m)
        if a is H and b is R:
            return LB(m, n)
        raise Unsupported('LEVD of sequences other than the two parameters')
    names['LEVD'] = SpecFunc(levd, 'LEVD')
    fam_names, fam_axioms = pair_family(SYM_NONE, one, one, one)
    names.update(fam_names)
    names.update(count_names(SYM_NONE))

    def tail(a, k):
        k = to_int(k)
        return z3.Extract(a.s, k, z3.Length(a.s) - k)
    names['TAIL'] = SpecFunc(lambda a, k: SeqVal(tail(a, k), PAIR), 'TAIL')
    # facts of the sequence theory, stated as lemmas (proved, then used by the inductions)
    names['TAIL_UNFOLDS'] = SpecFunc(lambda a, k: tail(a, k) == z3.Concat(z3.Unit(a.s[to_int(k)]), tail(a, to_int(k) + 1)), 'TAIL_UNFOLDS')
    names['TAIL_ENDS'] = SpecFunc(lambda a: z3.And(tail(a, 0) == a.s, tail(a, z3.Length(a.s)) == z3.Empty(SEQ_PAIR)), 'TAIL_ENDS')
    return names, aa + ab + fam_axioms


_AL = 'alignment'
CONTRACTS[(ES_PATH, 'ErrorsSummary.from_lists')] = Contract(
    params={'cls': lambda ex, st, n: Opaque('class:ErrorsSummary'), 'ref': 'seq:sym', 'hyp': 'seq:sym'},
    requires=['forall(lambda k: implies(0 <= k and k < len(ref), ref[k] != NONE_SYMBOL()))',
              'forall(lambda k: implies(0 <= k and k < len(hyp), hyp[k] != NONE_SYMBOL()))'],
    theory=from_lists_theory, ladder=[dict(len_ref=1, len_hyp=2), dict(len_ref=2, len_hyp=1), dict(len_ref=0, len_hyp=1)],
    ghosts={'ctor:ErrorsSummary': _summary_ctor},
    # not modelled: the confusion table and the ending-error summary (they read `alignment` and write only the
    # `confusions` / `ending_errors` fields, which no clause of C13 constrains)
    replace={'confusions = defaultdict(Counter)': ['confusions = 0'], 'for hyp_sym, ref_sym in alignment': [],
             'match_types = ': [], 'ending_mistakes = ': [], 'end_errors = ': ['end_errors = 0']},
    lemmas=[
        {'name': 'LEV-symmetric', 'var': 'd', 'lo': '0', 'hi': 'len(ref) + len(hyp)', 'direction': 'up',
         'stmt': 'forall(lambda i, j: implies(0 <= i and i <= len(ref) and 0 <= j and j <= len(hyp) and i + j <= d, '
                 'LEV_ref_hyp(i, j) == LEV_hyp_ref(j, i)))'},
        {'name': 'tail-ends', 'uses': [], 'stmt': 'TAIL_ENDS(%s)' % _AL},
        {'name': 'cost-is-number-of-unequal-pairs', 'var': 'k', 'lo': '0', 'hi': 'len(%s)' % _AL, 'direction': 'down',
         'uses': ['tail-ends'], 'step_facts': ['TAIL_UNFOLDS(%s, k - 1)' % _AL],
         'stmt': 'implies(NOEE(TAIL(%(a)s, k)), cost(TAIL(%(a)s, k)) == len(%(a)s) - k - NCOR(%(a)s, k))' % {'a': _AL}},
        {'name': 'counts-are-disjoint', 'var': 'k', 'lo': '0', 'hi': 'len(%s)' % _AL, 'direction': 'down',
         'uses': ['tail-ends'], 'step_facts': ['TAIL_UNFOLDS(%s, k - 1)' % _AL],
         'stmt': 'implies(NOEE(TAIL(%(a)s, k)), NINS(%(a)s, k) >= 0 and NDEL(%(a)s, k) >= 0 and NCOR(%(a)s, k) >= 0 and '
                 'NINS(%(a)s, k) + NDEL(%(a)s, k) + NCOR(%(a)s, k) <= len(%(a)s) - k)' % {'a': _AL}},
    ],
    ensures=['result.nb_lines_summarized == 1', 'result.ref_len == len(ref)',
             'result.nb_errors == LEVD(ref, hyp)',
             'result.nb_subs + result.nb_inss + result.nb_dels == result.nb_errors',
             'result.nb_subs >= 0 and result.nb_inss >= 0 and result.nb_dels >= 0'],
)


# ---------------------------------------------------------------------------------------------------
# levenshtein_alignment_substring: Sellers' matrix with a backtrack certificate; the best end position is tracked in an extra
# last column; the alignment = (walk back from the best end, leading source symbols free) ++ (trailing source symbols)

def substr_align_theory(ex, st):
    names, axioms = lev_theory(free_start=True, longer_first=True)(ex, st)
    S, T = names['_S'], names['_T']
    n, m = to_int(S.shape[0]), to_int(T.shape[0])
    sub, ins, dele = [to_int(st.env[c]) for c in ('sub_cost', 'ins_cost', 'del_cost')]
    E = st.env['empty_symbol']
    LEV, LEVdef = names['LEV'].fn, names['LEV'].defn
    fam_names, fam_axioms = pair_family(E, sub, ins, dele)
    names.update(fam_names)
    axioms += fam_axioms
    fst, snd = PAIR.accs
    SEG_S = z3.Function('SEG_S', z3.IntSort(), z3.IntSort(), SEQ_SYM)       # S[i:e]
    SUF_T = z3.Function('SUF_T', z3.IntSort(), SEQ_SYM)                     # T[j:]
    TRAIL = z3.Function('TRAIL', z3.IntSort(), SEQ_PAIR)                    # [(S[k], E) for k >= i]
    LDEL = z3.Function('LDEL', SEQ_PAIR, z3.IntSort(), z3.BoolSort())      # the first k pairs have an empty second component
    q = z3.Const('q', PAIR.sort)
    sq = z3.Const('s', SEQ_PAIR)
    k = z3.Int('k')
    axioms += [
        (['SUF_T'], SUF_T(m) == z3.Empty(SEQ_SYM)), (['TRAIL'], TRAIL(n) == z3.Empty(SEQ_PAIR)),
        (['LDEL'], z3.ForAll([sq], LDEL(sq, 0), patterns=[LDEL(sq, 0)])),
        (['LDEL'], z3.ForAll([q, sq, k], LDEL(z3.Concat(z3.Unit(q), sq), k) == z3.Or(k <= 0, z3.And(snd(q) == E, LDEL(sq, k - 1))),
                             patterns=[LDEL(z3.Concat(z3.Unit(q), sq), k)])),
    ]

    def seg_def(i, e):
        i, e = to_int(i), to_int(e)
        return z3.And(z3.Implies(z3.And(i >= 0, i < e, e <= n), SEG_S(i, e) == z3.Concat(z3.Unit(S.get(i)), SEG_S(i + 1, e))),
                      z3.Implies(i == e, SEG_S(i, e) == z3.Empty(SEQ_SYM)))

    def trail_def(i):
        i = to_int(i)
        return z3.Implies(z3.And(i >= 0, i < n), TRAIL(i) == z3.Concat(z3.Unit(PAIR.mk(S.get(i), E)), TRAIL(i + 1)))
    names.update({
        'SEG_S': SpecFunc(lambda i, e: SeqVal(SEG_S(to_int(i), to_int(e)), SymCodec), 'SEG_S', defn=seg_def),
        'SUF_T': SpecFunc(lambda i: SeqVal(SUF_T(to_int(i)), SymCodec), 'SUF_T', defn=lambda i: z3.Implies(
            z3.And(to_int(i) >= 0, to_int(i) < m), SUF_T(to_int(i)) == z3.Concat(z3.Unit(T.get(to_int(i))), SUF_T(to_int(i) + 1)))),
        'TRAIL': SpecFunc(lambda i: SeqVal(TRAIL(to_int(i)), PAIR), 'TRAIL', defn=trail_def),
        'LDEL': SpecFunc(lambda a, kk: LDEL(a.s, to_int(kk)), 'LDEL'),
    })

    def neq(i, j):
        return z3.If(S.get(i) != T.get(j), sub, z3.IntVal(0))

    def bt_at(ex, st, i, j):
        return ex.getitem(st.env['backtrack'], (i, j), st, None)

    def CERTF(ex, st, i, j):
        """backtrack[i, j] (j <= m) names a recurrence case that realises LEV(i, j); column 0 is the free start"""
        i, j = to_int(i), to_int(j)
        bt = bt_at(ex, st, i, j)
        if ex.pending_defs:
            ex.pending_defs[-1].extend([LEVdef(i, j), LEVdef(i - 1, j), LEVdef(i, j - 1), LEVdef(i - 1, j - 1)])
        return z3.And(
            z3.Or(bt == 1, bt == 0, bt == -1),
            z3.Implies(j == 0, z3.And(i >= 1, bt == 1)),
            z3.Implies(z3.And(j >= 1, bt == 1), z3.And(i >= 1, LEV(i, j) == LEV(i - 1, j) + dele)),
            z3.Implies(bt == 0, z3.And(i >= 1, j >= 1, LEV(i, j) == LEV(i - 1, j - 1) + neq(i - 1, j - 1))),
            z3.Implies(bt == -1, z3.And(j >= 1, LEV(i, j) == LEV(i, j - 1) + ins)))

    def PRE(ex, st, i, j):
        i, j = to_int(i), to_int(j)
        if ex.pending_defs:
            ex.pending_defs[-1].extend([LEVdef(i, j), LEVdef(i, j - 1)])
        return imin(LEV(i, j) + dele, LEV(i, j - 1) + neq(i, j - 1))

    def PREBT(ex, st, i, j):
        i, j = to_int(i), to_int(j)
        bt = bt_at(ex, st, i + 1, j)
        if ex.pending_defs:
            ex.pending_defs[-1].extend([LEVdef(i, j), LEVdef(i, j - 1)])
        pre = imin(LEV(i, j) + dele, LEV(i, j - 1) + neq(i, j - 1))
        return z3.And(z3.Or(bt == 0, bt == 1),
                      z3.Implies(bt == 0, pre == LEV(i, j - 1) + neq(i, j - 1)),
                      z3.Implies(bt == 1, pre == LEV(i, j) + dele))
    BEST, BESTdef = names['BEST'].fn, names['BEST'].defn

    def LASTC(ex, st, a):
        """last column of row a >= 1: < 1 iff the best end position moved to row a, 1 (untouched) iff it stayed"""
        a = to_int(a)
        bt = bt_at(ex, st, a, m + 1)
        if ex.pending_defs:
            ex.pending_defs[-1].extend([BESTdef(a)])
        return z3.And(z3.Or(bt == 1, bt == 0, bt == -1),
                      z3.Implies(bt < 1, BEST(a) == LEV(a, m)), z3.Implies(bt > 0, BEST(a) == BEST(a - 1)))
    names.update({'CERTF': CERTF, 'PRE': PRE, 'PREBT': PREBT, 'LASTC': LASTC})
    return names, axioms


# the dropped statements may be merged / inlined by a maintainer: each is dropped where present
CONTRACTS[(ES_PATH, 'ErrorsSummary.from_lists')].replace_optional = ('match_types = ', 'ending_mistakes = ', 'for hyp_sym, ref_sym in alignment')

_SN, _SM = 'len(source)', 'len(target)'
_E = 'suffix_beginning - 1'
SUB_DONE = ('forall(lambda a, b: implies(0 <= a and a <= %s and 0 <= b and b <= ' + _SM + ' and a + b > 0, CERTF(a, b)))')
SUB_TODO = 'forall(lambda a, b: implies(%s < a and a <= ' + _SN + ' and 0 <= b and b <= ' + _SM + ' + 1, backtrack[a, b] == 1))'
SUB_LAST = 'forall(lambda a: implies(1 <= a and a <= %s, LASTC(a)))'
SUB_SHAPES = ['backtrack.shape[0] == ' + _SN + ' + 1', 'backtrack.shape[1] == ' + _SM + ' + 2', 'len(dist) == ' + _SM + ' + 2']

CONTRACTS[(PATH, 'levenshtein_alignment_substring')] = Contract(
    params={'source': 'seq:sym', 'target': 'seq:sym', 'sub_cost': 'int', 'ins_cost': 'int', 'del_cost': 'int', 'empty_symbol': 'sym'},
    requires=COSTS + ['forall(lambda k: implies(0 <= k and k < len(source), source[k] != empty_symbol))',
                      'forall(lambda k: implies(0 <= k and k < len(target), target[k] != empty_symbol))'],
    theory=substr_align_theory, inline=['_as_symbol_array'], ghosts={'seqvars': {'alig': PAIR, 'mid': PAIR}},
    ladder=LADDER,
    ghost_at={
        'alig = []': ['mid = alig', 'lead = 0', 'leadcost = 0'],
        'alig.insert(0, (': [
            # the step just taken, in terms of the recurrence (cut lemmas from the certificate of the cell that was read)
            'assert where == 1 or where == 0 or where == -1',
            'assert implies(where == 1 and tar_pos > 0, LEV(src_pos + 1, tar_pos) == LEV(src_pos, tar_pos) + del_cost)',
            'assert implies(where == 1 and tar_pos == 0, LEV(src_pos + 1, tar_pos) == 0 and LEV(src_pos, tar_pos) == 0)',
            'assert implies(where == 0, LEV(src_pos + 1, tar_pos + 1) == LEV(src_pos, tar_pos) + (sub_cost if source[src_pos] != target[tar_pos] else 0))',
            'assert implies(where == -1, LEV(src_pos, tar_pos + 1) == LEV(src_pos, tar_pos) + ins_cost)',
            'mid.insert(0, (empty_symbol if where < 0 else source[src_pos], empty_symbol if where > 0 else target[tar_pos]))',
                             'lead = lead + (1 if (where > 0 and tar_pos == 0) else 0)',
                             # what the lead free pairs would cost (kept as a running sum: lead * del_cost is non-linear)
                             'leadcost = leadcost + (del_cost if (where > 0 and tar_pos == 0) else 0)'],
    },
    ghost_before={'backtrack = backtrack[:suffix_beginning, :-1]': [
        'suffix_beginning = abstract(suffix_beginning)',       # a plain constant instead of the np.where(...)[0][-1] + 1 term
        'assert 1 <= suffix_beginning and suffix_beginning <= ' + _SN + ' + 1',
        'assert forall(lambda a: implies(' + _E + ' < a and a <= ' + _SN + ', BEST(a) == BEST(a - 1)))',
        'assert BEST(' + _E + ') == LEV(' + _E + ', ' + _SM + ')'],
        'alig = [(pair[1], pair[0]) for pair in alig]': ['pre_swap = alig']},
    lemmas=[{'name': 'best-end-is-the-chosen-row', 'var': 'a', 'lo': _E, 'hi': _SN, 'direction': 'up',
             'stmt': 'BEST(a) == LEV(' + _E + ', ' + _SM + ')'}],
    ensures=[_SN + ' >= ' + _SM, '1 <= suffix_beginning and suffix_beginning <= ' + _SN + ' + 1',
             'projS(mid) == SEG_S(0, ' + _E + ')', 'projT(mid) == SUF_T(0)',
             'lead >= 0 and LDEL(mid, lead)',
             # the cost of the alignment without its free leading part (lead pairs (s, E)) and without the free trailing part TRAIL
             'cost(mid) - leadcost == BEST(' + _SN + ') and leadcost == lead * del_cost',
             'implies(not swapped, result == mid + TRAIL(' + _E + '))',
             # after the argument swap the pairs are turned round: result[k] == (b, a) for pre_swap[k] == (a, b)
             '(pre_swap == mid + TRAIL(' + _E + ') and len(result) == len(pre_swap) and forall(lambda k: implies(0 <= k and k < len(result), '
             'result[k][0] == pre_swap[k][1] and result[k][1] == pre_swap[k][0]))) if swapped else True'],

    loops={
        0: LoopSpec(counter='r', modifies={'backtrack': 'lambda a, b: 1 <= a and a <= r'}, inv=[
            'forall(lambda j: implies(0 <= j and j <= ' + _SM + ', dist[j] == LEV(r, j)))',
            'dist[' + _SM + ' + 1] == BEST(r)',
            SUB_DONE % 'r', SUB_LAST % 'r', SUB_TODO % 'r', 'backtrack[0, ' + _SM + ' + 1] == -1']),
        1: LoopSpec(counter='c', modifies={'backtrack': 'lambda a, b: a == r + 1 and b <= ' + _SM, 'dist': 'lambda j: j <= ' + _SM}, inv=[
            'forall(lambda j: implies(0 <= j and j <= c, dist[j] == LEV(r + 1, j)))',
            'forall(lambda j: implies(c < j and j <= ' + _SM + ', dist[j] == PRE(r, j)))',
            'forall(lambda j: implies(0 <= j and j <= c, CERTF(r + 1, j)))',
            'forall(lambda j: implies(c < j and j <= ' + _SM + ', PREBT(r, j)))']),
        2: LoopSpec(counter='t', inv=['alig + TRAIL(' + _E + ' + t) == TRAIL(' + _E + ')']),
        3: LoopSpec(counter='w', carry=[
            'implies(swapped, len(target_0) > len(source_0)) and implies(not swapped, len(target_0) <= len(source_0))',
            '1 <= suffix_beginning and suffix_beginning <= ' + _SN + ' + 1',
            'forall(lambda a: implies(' + _E + ' < a and a <= ' + _SN + ', BEST(a) == BEST(a - 1)))',
            'BEST(' + _E + ') == LEV(' + _E + ', ' + _SM + ')',
            SUB_DONE % _E,
            'alig == TRAIL(' + _E + ')'],
            inv=[
            ('src', '0 <= src_pos and src_pos <= ' + _E), ('tar', '0 <= tar_pos and tar_pos <= ' + _SM),
            ('split', 'alig == mid + TRAIL(' + _E + ')'),
            ('projS', 'projS(mid) == SEG_S(src_pos, ' + _E + ')'), ('projT', 'projT(mid) == SUF_T(tar_pos)'),
            ('lead', 'lead >= 0 and implies(lead > 0, tar_pos == 0) and LDEL(mid, lead)'),
            ('leadcost', 'leadcost == lead * del_cost'),
            ('cost', 'cost(mid) + LEV(src_pos, tar_pos) == LEV(' + _E + ', ' + _SM + ') + leadcost')],
            uses={'split': [], 'projS': ['src', 'tar'], 'projT': ['src', 'tar'], 'lead': ['src', 'tar'], 'leadcost': [],
                  'cost': ['src', 'tar', 'lead']},
            variant='src_pos + tar_pos'),
    },
)
