"""Sidecar contracts for the confidence computations (property C16).  Axioms (A2, listed in the evidence):
exp(x) > 0; x <= 0 => exp(x) <= 1; logsumexp(xs) >= every element of xs."""
import z3
from pyvc.engine import Contract, LoopSpec, SpecFunc, Exec
from pyvc.sym import *
from pyvc import lib
from pyvc.arrays import as_array
from contracts import boh

CONTRACTS = {}
PP = 'pero_ocr/document_ocr/page_parser.py'
CE = 'pero_ocr/core/confidence_estimation.py'
BH = boh.PATH


def exp_theory(ex, st):
    return {}, list(lib.EXP_AXIOMS)


CONTRACTS[(PP, 'get_prob')] = Contract(
    params={'best_ids': 'seq:int', 'best_probs': 'seq:real'},
    requires=['forall(lambda q: implies(0 <= q and q < len(best_probs), 0 <= best_probs[q] and best_probs[q] <= 1))'],
    ensures=['0 <= result', 'result <= 1'],
    loops={0: LoopSpec(counter='kk', types={'last_prob': 'real', 'worst_prob': 'real'},
                       inv=['0 <= worst_prob and worst_prob <= 1', '0 <= last_prob and last_prob <= 1'])},
)


def _logsumexp(ex, st, xs, **kw):
    a = as_array(st, xs)
    L = z3.Real(fresh_name('lse'))
    i = z3.Int(fresh_name('i'))
    st.assume(z3.ForAll([i], z3.Implies(z3.And(i >= 0, i < to_int(a.shape[0])), to_real(a.get(i)) <= L)))
    ex.assumed.append('model: logsumexp(xs) is a real L with xs[i] <= L for every i')
    return L


def bag_theory(ex, st):
    names, ax = boh.theory(ex, st)
    return names, ax + list(lib.EXP_AXIOMS)


def _posteriors_method(ex, st, obj, *a, **k):
    return ex.call_inline((BH, 'BagOfHypotheses.posteriors'), [obj], {}, st, None)


GH = dict(boh.GH)
GH.update({'lib:scipy.misc.logsumexp': _logsumexp, 'lib:scipy.special.logsumexp': _logsumexp, 'method:posteriors': _posteriors_method})

CONTRACTS[(BH, 'BagOfHypotheses.posteriors')] = Contract(
    params={'self': 'obj:BagOfHypotheses'}, fields={'lm_weight': 'real'}, ghosts=GH, theory=bag_theory, inline=['total_scores'],
    ensures=['len(result) == NHYP', 'forall(lambda i: implies(0 <= i and i < NHYP, result[i] <= 0))',
             # posteriors are the total scores shifted by one common constant
             'forall(lambda i, j: implies(0 <= i and i < NHYP and 0 <= j and j < NHYP, result[i] - result[j] == TOT(i) - TOT(j)))'],
)
CONTRACTS[(BH, 'BagOfHypotheses.confidence')] = Contract(
    params={'self': 'obj:BagOfHypotheses'}, fields={'lm_weight': 'real'}, ghosts=GH, theory=bag_theory,
    requires=['NHYP >= 1'], inline=['total_scores', 'posteriors'],
    ensures=['0 < result', 'result <= 1'],
)
CONTRACTS[(BH, 'BagOfHypotheses.transcript_confidence')] = Contract(
    params={'self': 'obj:BagOfHypotheses', 'transcript': 'val'}, fields={'lm_weight': 'real'}, ghosts=GH, theory=bag_theory,
    inline=['total_scores', 'posteriors'],
    ensures=['0 <= result', 'result <= 1'],
    loops={0: LoopSpec(counter='kk', inv=[])},
)

# --- per-character line confidence -------------------------------------------------------------------------------

LT, LC = z3.Int('logits_rows'), z3.Int('logits_cols')


def _line(ex, st, n):
    return ObjRef(z3.Int('line'), 'TextLine')


def _line_logits(ex, st, obj):
    return Record({'shape': (LT, LC)}, 'line.logits')


_IN01 = 'forall(lambda t, c: implies(0 <= t and t < log_probs.shape[0] and 0 <= c and c < log_probs.shape[1], log_probs[t, c] <= 0))'
CONTRACTS[(CE, 'get_line_confidence')] = Contract(
    params={'line': _line, 'labels': 'seq:int', 'aligned_letters': 'seq:int', 'log_probs': 'nd2:real'},
    ghosts={'TextLine.logits': _line_logits}, theory=lambda ex, st: ({'logits_rows': LT}, list(lib.EXP_AXIOMS)),
    requires=['logits_rows != len(labels)',      # CTC path (the one-row-per-character path is get_line_confidence_transformer)
              _IN01, 'len(aligned_letters) == len(labels)', 'log_probs.shape[1] >= 2',
              'forall(lambda q: implies(0 <= q and q < len(labels), 0 <= labels[q] and labels[q] < log_probs.shape[1] and '
              '0 <= aligned_letters[q] and aligned_letters[q] < log_probs.shape[0]))'],
    ensures=['len(result) == len(labels)',
             'forall(lambda q: implies(0 <= q and q < len(labels), 0 <= result[q] and result[q] <= 1))'],
    loops={0: LoopSpec(counter='kk', inv=[
        'len(confidences) == len(labels)', 'probs.shape[0] == log_probs.shape[0]', 'probs.shape[1] == log_probs.shape[1]',
        'len(alignment) == len(labels) + 1',
        'forall(lambda q: implies(0 <= q and q < len(labels), alignment[q] == aligned_letters[q]))',
        'forall(lambda t, c: implies(0 <= t and t < probs.shape[0] and 0 <= c and c < probs.shape[1], 0 < probs[t, c] and probs[t, c] <= 1))',
        'forall(lambda q: implies(0 <= q and q < len(labels), 0 <= confidences[q] and confidences[q] <= 1))'])},
)

KEYS = [(PP, 'get_prob'), (BH, 'BagOfHypotheses.posteriors'), (BH, 'BagOfHypotheses.confidence'),
        (BH, 'BagOfHypotheses.transcript_confidence'), (CE, 'get_line_confidence')]



def _rowwise(name):
    """uninterpreted row-wise reduction: a deterministic function of the matrix (same symbol in both runs)"""
    def model(ex, st, a, axis=None, **kw):
        arr = as_array(st, a)
        f = z3.Function(name, z3.IntSort(), z3.RealSort())
        ex.assumed.append('opaque: %s is a pure function of its matrix argument' % name)
        return ArrayVal((arr.shape[0],), lambda t: f(to_int(t)), 'real')
    return model


def relational_threshold_monotone(root):
    """line_confident_enough(logits, t1) and t2 <= t1  ==>  line_confident_enough(logits, t2): the function is executed
    twice on the same symbolic logits (identical fresh names, so opaque numpy reductions are the same functions) with two
    thresholds; obligation: run 1 true and theta2 <= theta1 imply run 2 true."""
    from pyvc import extract, sym, run as vrun
    from pyvc.engine import VC
    key = (PP, 'line_confident_enough')
    rep = vrun.FnReport(key)
    caught = {}

    def once(tag):
        sym.reset_names()
        info = extract.get_function(key[0], key[1], root)
        rep.info = info

        def capture(ex, st):
            caught[tag] = (st.env['result'], list(st.pc))
            return True
        c = Contract(params={'logits': 'nd2:real', 'confidence_threshold': lambda ex, st, n: z3.Real('theta_' + tag)},
                     ghosts={'lib:np.logaddexp.reduce': _rowwise('ROW_LSE'), 'lib:np.max': _rowwise('ROW_MAX')},
                     requires=['logits.shape[0] >= 1'], ensures=[capture], theory=exp_theory)
        ex = Exec(info, c, {}, name='line_confident_enough')
        ex.run()
        return ex
    try:
        e1 = once('1')
        e2 = once('2')
        (r1, pc1), (r2, pc2) = caught['1'], caught['2']
        vc = VC('line_confident_enough/relational:threshold-monotone', 'relational', pc1 + pc2 + [z3.Real('theta_2') <= z3.Real('theta_1'), to_z3(truthy(r1))],
                to_z3(truthy(r2)), rep.info.lines[0], 'line_confident_enough', 'confident at threshold t1 and t2 <= t1 => confident at t2')
        rep.vcs = [v for v in e1.vcs if v.kind != 'post#0'] + [vc]
        rep.axioms = list(lib.EXP_AXIOMS)
        rep.assumed = sorted(set(e1.assumed))
        rep.paths = 2
    except Unsupported as e:
        rep.unsupported = str(e)
    return rep


def extra_reports(root):
    return [relational_threshold_monotone(root)]


def extra_checks(root):
    return []
