"""Obligations for user_scripts/parse_folder.py (property C17: resuming an interrupted batch).

The history property is reduced to per-call / structural obligations (DESIGN.md §5 C17):
 (i)   skip soundness:  load_already_processed_files = intersection over the non-None directories (bounded-symbolic proof,
       <= 4 directories), and the *resume-safety condition* on the program structure: every output kind that
       Computator.__call__ writes AFTER some kind consulted by the skip logic is itself consulted (then: all consulted
       outputs of a page present  =>  every requested output of that page present, whatever the kill point between writes);
 (ii)  work completeness: every `if self.output_X_path is not None:` block of Computator.__call__ writes to that path;
 (iii) clean exit: the closing statistics cannot divide by zero.
"""
import ast
import z3
from pyvc import extract, sym, run as vrun
from pyvc.engine import Contract, LoopSpec, Exec, State, VC
from pyvc.sym import *
from pyvc import lib

PATH = 'user_scripts/parse_folder.py'
KINDS = {'output_xml_path': 'xml', 'output_render_path': 'render', 'output_logit_path': 'logits', 'output_alto_path': 'alto',
         'output_line_path': 'lines'}


def _mkvc(rep, name, ok, line, note, detail):
    vc = VC('%s/%s@L%d' % (rep.key[1], name, line), name.split(':')[0], [], z3.BoolVal(bool(ok)), line, rep.name, note)
    vc.result, vc.solver, vc.ms = ('unsat' if ok else 'sat'), 'syntactic-scan', 0
    if not ok:
        vc.model = detail
    return vc


def structure(root):
    """write order W of the output kinds in Computator.__call__ and the kinds S consulted by the skip logic in main()"""
    module, src = extract.parse_module(PATH, root)
    call = extract.get_function(PATH, 'Computator.__call__', root).node
    main = extract.get_function(PATH, 'main', root).node
    W = []
    blocks = {}
    for n in ast.walk(call):
        if isinstance(n, ast.If):
            attrs = [a.attr for a in ast.walk(n.test) if isinstance(a, ast.Attribute) and a.attr in KINDS]
            if attrs and attrs[0] not in blocks:
                blocks[attrs[0]] = n
    for a, n in sorted(blocks.items(), key=lambda kv: kv[1].lineno):
        W.append((KINDS[a], a, n))
    S = None
    site = None
    for n in ast.walk(main):
        if isinstance(n, ast.Call) and isinstance(n.func, ast.Name) and n.func.id == 'load_already_processed_files' and n.args:
            names = [e.id for e in ast.walk(n.args[0]) if isinstance(e, ast.Name)]
            S = [KINDS[x] for x in names if x in KINDS]
            site = n
    return W, S, site, call, main


def structural_report(root):
    rep = vrun.FnReport((PATH, 'main+Computator.__call__'))
    try:
        W, S, site, call, main = structure(root)
        rep.info = extract.get_function(PATH, 'Computator.__call__', root)
        vcs = []
        if S is None:
            vcs.append(_mkvc(rep, 'resume-safety', False, main.lineno, 'skip logic call site not found', {}))
        else:
            order = [k for k, _, _ in W]
            bad = []
            for i, k in enumerate(order):
                if k not in S and any(s in order[:i] for s in S):
                    bad.append(k)
            vcs.append(_mkvc(rep, 'resume-safety', not bad, site.lineno,
                             'write order %s; consulted by --skip-processed: %s; every kind written after a consulted kind must be consulted' % (order, S),
                             {'written_after_a_marker_but_not_consulted': bad, 'write_order': order, 'consulted': S}))
            missing = [k for k in order if k != 'lines' and k not in S]
            vcs.append(_mkvc(rep, 'skip-set-complete', not missing, site.lineno,
                             'every page-level output kind is consulted (a page whose XML/logits/render/ALTO are complete is not processed again)',
                             {'not_consulted': missing}))
        for kind, attr, node in W:
            writes = False
            for c in ast.walk(node):
                if isinstance(c, ast.Call):
                    txt = ast.unparse(c)
                    if 'self.' + attr in txt and any(w in txt for w in ('imwrite', 'to_pagexml', 'save_logits', 'to_altoxml', 'LMDB_writer')):
                        writes = True
            vcs.append(_mkvc(rep, 'writes-requested:%s' % kind, writes, node.lineno,
                             'the block guarded by self.%s writes to that path' % attr, {'block_without_write': attr}))
        rep.vcs = vcs
        rep.paths = 1
    except (KeyError, Unsupported) as e:
        rep.unsupported = str(e)
    return rep


def division_report(root):
    """slice mode: the statements of main() after the processing loop, every variable havocked"""
    sym.reset_names()
    rep = vrun.FnReport((PATH, 'main[closing statistics]'))
    try:
        info = extract.get_function(PATH, 'main', root)
        rep.info = info
        body = info.node.body
        tail = []
        for s in reversed(body):
            tail.insert(0, s)
            if any(isinstance(n, ast.BinOp) and isinstance(n.op, ast.Div) for n in ast.walk(s)):
                break
        tail = [s for s in tail if any(isinstance(n, ast.BinOp) and isinstance(n.op, ast.Div) for n in ast.walk(s))]
        ex = Exec(info, Contract(params={}), {}, name='main[closing statistics]')
        st = State()
        n = z3.Int('n_ids')
        st.assume(n >= 0)
        st.env = {'ids_to_process': ArrayVal((n,), lambda i: z3.Const('id', Val), 'obj'), 't_start': z3.Real('t_start'),
                  'logger': Opaque('logger'), 'time': Opaque('time')}
        ex.entry = st.copy()
        # logger.info(f'...{expr}') : evaluate the formatted expressions for definedness
        exprs = []
        for s in tail:
            for nn in ast.walk(s):
                if isinstance(nn, ast.FormattedValue):
                    exprs.append((nn.value, s))
        if not exprs:
            raise Unsupported('closing statistics not found')

        def run_stmt(stmts, state):
            for s in stmts:
                if isinstance(s, ast.If):
                    c = truthy(ex.eval(s.test, state))
                    s1 = state.copy()
                    s1.assume(c)
                    if ex.feasible(s1):
                        run_stmt(s.body, s1)
                    s2 = state.copy()
                    s2.assume(bnot(c))
                    if ex.feasible(s2):
                        run_stmt(s.orelse, s2)
                elif isinstance(s, (ast.Assign, ast.AugAssign)):
                    for s3, oc in ex.exec_stmt(s, state):
                        state.env, state.pc, state.store = s3.env, s3.pc, s3.store
                else:
                    for nn in ast.walk(s):
                        if isinstance(nn, ast.FormattedValue):
                            ex.eval(nn.value, state)
        # locals the tail reads that are defined earlier by a single plain assignment (e.g. a hoisted `n = len(ids_to_process)`):
        # that assignment is executed first, over the havocked inputs
        assigns = {}
        for nn in ast.walk(info.node):
            if isinstance(nn, ast.Assign) and len(nn.targets) == 1 and isinstance(nn.targets[0], ast.Name):
                assigns.setdefault(nn.targets[0].id, []).append(nn)
        tail_first = min(s.lineno for s in tail)

        def define(name, depth=0):
            defs = [a for a in assigns.get(name, []) if a.lineno < tail_first]
            if name in st.env or len(defs) != 1 or depth > 4:
                return
            for dep in [x.id for x in ast.walk(defs[0].value) if isinstance(x, ast.Name)]:
                define(dep, depth + 1)
            try:
                for s3, oc in ex.exec_stmt(defs[0], st):
                    st.env, st.pc, st.store = s3.env, s3.pc, s3.store
                ex.assumed.append('slice: `%s` is taken from its only assignment at line %d' % (name, defs[0].lineno))
            except Unsupported:
                pass
        local_defs = {t.id for s in tail for n2 in ast.walk(s) if isinstance(n2, ast.Assign) for t in n2.targets if isinstance(t, ast.Name)}
        for s in tail:
            for nn in ast.walk(s):
                if isinstance(nn, ast.Name) and isinstance(nn.ctx, ast.Load) and nn.id not in local_defs:
                    define(nn.id)
        run_stmt(tail, st)
        rep.vcs = ex.vcs
        rep.assumed = sorted(set(ex.assumed))
        rep.paths = 1
        if not any(v.kind == 'div-by-zero' for v in ex.vcs):
            raise Unsupported('no division obligation generated')
    except (KeyError, Unsupported) as e:
        rep.unsupported = str(e)
    return rep


FILES = z3.Function('FILES_in_directory', Val, Val, z3.BoolSort())


def _dirs(ex, st, n):
    out = []
    for k in range(4):
        out.append(OptVal(z3.Bool('dir%d_is_none' % k), z3.Const('dir%d' % k, Val)))
    return out


def _listing(ex, st, args, kwargs):
    d = args[0]
    return lib.SetVal(lambda x, d=d: FILES(d.some if isinstance(d, OptVal) else d, x))


def intersection_contract():
    def post(ex, st):
        """x in result  <=>  some directory is given and x is listed in every given directory"""
        res = st.env['result']
        x = z3.Const('any_id', Val)
        dirs = st.env['directories']
        conj = [z3.Or(d.is_none, FILES(d.some, x)) for d in dirs]
        anyd = z3.Or(*[z3.Not(d.is_none) for d in dirs])
        return to_z3(res.has(x)) == z3.And(anyd, *conj)
    return Contract(params={'directories': _dirs}, opaque=['load_already_processed_files_in_directory'],
                    ghosts={'opaque_model:load_already_processed_files_in_directory': _listing}, ensures=[post])


def reports(root):
    reps = [structural_report(root), division_report(root)]
    r = vrun.generate((PATH, 'load_already_processed_files'), intersection_contract(), {}, root)
    reps.append(r)
    return reps
