"""Sidecar contracts for the naive region sorter (property C12)."""
import z3
from pyvc.engine import Contract, LoopSpec, SpecFunc
from pyvc.sym import *

PATH = 'pero_ocr/layout_engines/naive_sorter.py'
CONTRACTS = {}
NREG = z3.Int('n_regions')
REG = z3.Function('REGION', z3.IntSort(), z3.IntSort())
ORDER = z3.Function('ORDER', z3.IntSort(), z3.IntSort())


def _regions(ex, st, obj):
    st.assume(NREG >= 0)
    return ArrayVal((NREG,), lambda i: ObjRef(REG(to_int(i)), 'RegionLayout'), 'obj')


def _image(ex, st, n):
    return Record({'shape': (z3.Int('img_h'), z3.Int('img_w'), 3)}, 'image')


def _region_ctor(ex, st, region):
    return region          # Region(region_layout) wraps the layout region; identity is what matters here


def _order_result(ex, st, env):
    from pyvc.arrays import as_array
    n = as_array(st, env['regions']).shape[0]
    return ArrayVal((n,), lambda i: ORDER(to_int(i)), 'int')


# ASSUMED contract of sort_regions (sklearn DBSCAN + numpy unique/argwhere are external): requires at least one region
# (DBSCAN.fit_predict rejects an empty sample array); returns a permutation of range(len(regions)).  The permutation
# clause is covered by the bounded tier only.
CONTRACTS[(PATH, 'NaiveRegionSorter.sort_regions')] = Contract(
    params={'regions': 'seq:int', 'eps': 'int'}, requires=['len(regions) >= 1'], result=_order_result,
    public_ensures=['len(result) == len(regions)',
                    'forall(lambda i: implies(0 <= i and i < len(regions), 0 <= result[i] and result[i] < len(regions)))',
                    'forall(lambda i, j: implies(0 <= i and i < j and j < len(regions), result[i] != result[j]))'],
    notes='assumed')

CONTRACTS[(PATH, 'NaiveRegionSorter.process_page')] = Contract(
    params={'self': 'obj:NaiveRegionSorter', 'image': _image, 'page_layout': 'obj:PageLayout'},
    fields={'regions': 'py', 'width_denom': 'int'},
    ghosts={'pyinit:regions': _regions, 'listvars': {'regions': RefCodec}, 'ctor:Region': _region_ctor},
    requires=['self.width_denom >= 1'],
    theory=lambda ex, st: ({'NREG': NREG, 'OLD': SpecFunc(lambda i: ObjRef(REG(to_int(i)), 'RegionLayout')), 'ORDER': SpecFunc(lambda i: ORDER(to_int(i)))}, []),
    ensures=['result is page_layout', 'len(page_layout.regions) == NREG',
             # the regions are the old ones re-indexed by the order returned by the clustering (or untouched for < 2 regions)
             'implies(NREG >= 2, forall(lambda i: implies(0 <= i and i < NREG, page_layout.regions[i] is OLD(ORDER(i)))))',
             'implies(NREG < 2, forall(lambda i: implies(0 <= i and i < NREG, page_layout.regions[i] is OLD(i))))'],
    loops={0: LoopSpec(counter='kk', inv=['len(regions) == kk', 'forall(lambda q: implies(0 <= q and q < kk, regions[q] is OLD(q)))'])},
)
KEYS = [(PATH, 'NaiveRegionSorter.process_page')]
