"""Sidecar contract for BaseEngineLineOCR.process_lines (property C07), CTC configuration: the index bookkeeping that routes every
line through exactly one batch and puts its results back at its own input position.

What is executed: the real statements of process_lines, except the four listed under `replace` (shape check loop, assembly of the
zero-padded batch tensor, cropping of an over-long batch, call of the network), which are replaced by their ASSUMED effect:
run_ocr returns, for the i-th image of the batch, the transcription NET_T and logits NET_L of that image alone (a network whose
frame output depends only on a bounded horizontal neighbourhood of zero-padded input) — the bounded tier checks the assembly with
stub networks."""
import z3
from pyvc.engine import Contract, LoopSpec, SpecFunc
from pyvc.sym import *
from pyvc import lib

PATH = 'pero_ocr/ocr_engine/line_ocr_engine.py'
CONTRACTS = {}

NLINES = z3.Int('n_lines')
WIDTH = z3.Function('LINE_width', z3.IntSort(), z3.IntSort())       # width of the i-th line crop
NET_T = z3.Function('NET_transcription', z3.IntSort(), Val)          # what the network says about line i alone
NET_L = z3.Function('NET_logits', z3.IntSort(), Val)
FRAMES = z3.Function('LOGITS_frames', Val, z3.IntSort())


def _lines(ex, st, name):
    st.assume(NLINES >= 0)
    i = z3.Int('i')
    st.assume(z3.ForAll([i], WIDTH(i) >= 1, patterns=[WIDTH(i)]))
    return ArrayVal((NLINES,), lambda q: Record({'shape': (z3.Int('line_height'), WIDTH(to_int(q)), 3)}, 'line'), 'obj')


def _logits_rec(v):
    return Record({'shape': (FRAMES(v), z3.Int('n_classes')), 'payload': v}, 'logits')


LogitsCodec = ElemCodec(Val, lambda r: r.attrs['payload'] if isinstance(r, Record) else r, _logits_rec, 'Logits')


def theory(ex, st):
    def run_ocr(ids):
        from pyvc.arrays import as_array
        a = as_array(st_ref[0], ids) if not isinstance(ids, ArrayVal) else ids
        return (ArrayVal(a.shape, lambda q: NET_T(to_int(a.get(q))), 'val'),
                ArrayVal(a.shape, lambda q: _logits_rec(NET_L(to_int(a.get(q)))), 'obj'))
    st_ref = [st]
    return {'NLINES': NLINES, 'NET_T': SpecFunc(lambda i: NET_T(to_int(i))), 'NET_L': SpecFunc(lambda i: NET_L(to_int(i))),
            'WIDTH': SpecFunc(lambda i: WIDTH(to_int(i))), 'FRAMES': SpecFunc(lambda v: FRAMES(v.attrs['payload'] if isinstance(v, Record) else v)),
            'PAYLOAD': SpecFunc(lambda x: (x.some if isinstance(x, OptVal) else x).attrs['payload']),
            'RUN_OCR': lambda ex_, st_, ids: (st_ref.__setitem__(0, st_), run_ocr(ids))[1]}, []


_PAIR = opt_codec(tuple_codec([IntCodec, IntCodec]))
_n = 'NLINES'
DONE_T = 'forall(lambda j: implies(0 <= j and j < %s, all_transcriptions[order[j]] == NET_T(order[j])))'
DONE_L = 'forall(lambda j: implies(0 <= j and j < %s, all_logits[order[j]] is not None and PAYLOAD(all_logits[order[j]]) == NET_L(order[j])))'
DONE_C = ('forall(lambda j: implies(0 <= j and j < %s, all_logit_coords[order[j]][0] == self.line_padding_px // self.net_subsampling and '
          'all_logit_coords[order[j]][1] == min((self.line_padding_px + WIDTH(order[j])) // self.net_subsampling, FRAMES(NET_L(order[j])))))')
TODO = 'forall(lambda j: implies(%s <= j and j < ' + _n + ', all_transcriptions[order[j]] is None))'

CONTRACTS[(PATH, 'BaseEngineLineOCR.process_lines')] = Contract(
    params={'self': 'obj:BaseEngineLineOCR', 'lines': _lines, 'sparse_logits': 'const:False', 'tight_crop_logits': 'const:False', 'no_logits': 'const:False'},
    fields={'line_px_height': 'int', 'max_input_horizontal_pixels': 'int', 'line_padding_px': 'int', 'net_subsampling': 'int'},
    ghosts={'BaseEngineLineOCR.model_type': lambda ex, st, obj: 'ctc',
            'BaseEngineLineOCR.device': lambda ex, st, obj: Record({'type': 'cpu'}, 'device'),
            'listlike': ['line_ids'],
            'listvars': {'all_transcriptions': opt_codec(ValCodec), 'all_logits': opt_codec(LogitsCodec), 'all_logit_coords': _PAIR}},
    theory=theory,
    requires=['self.max_input_horizontal_pixels >= 1', 'self.line_padding_px >= 0', 'self.net_subsampling >= 1'],
    replace={
        'for line in lines:': [],
        'batch_data = np.zeros(': [],
        'for data, image in zip(batch_data, batch_images):': [],
        'if batch_data.shape[2] > self.max_input_horizontal_pixels:': [],
        'out_transcriptions, out_logits = self.run_ocr(batch_data)': ['(out_transcriptions, out_logits) = RUN_OCR(batch_line_ids)'],
    },
    ghost_at={'line_ids = [': ['order = line_ids', 'done = 0']},
    ensures=['len(result[0]) == ' + _n + ' and len(result[1]) == ' + _n + ' and len(result[2]) == ' + _n,
             # the processing order is a permutation of the input positions: every position i is processed (as number SORT_INV(i))
             'forall(lambda i: implies(0 <= i and i < ' + _n + ', 0 <= SORT_INV(i) and SORT_INV(i) < ' + _n + ' and order[SORT_INV(i)] == i))',
             # every input position holds what the network says about the image at that position, and its un-padded frame window
             # (the guard order[SORT_INV(i)] == i is the previous clause; it names the witness for the solver)
             'forall(lambda i: implies(0 <= i and i < ' + _n + ' and order[SORT_INV(i)] == i, result[0][i] == NET_T(i)))',
             'forall(lambda i: implies(0 <= i and i < ' + _n + ' and order[SORT_INV(i)] == i, result[1][i] is not None and PAYLOAD(result[1][i]) == NET_L(i)))',
             'forall(lambda i: implies(0 <= i and i < ' + _n + ' and order[SORT_INV(i)] == i, result[2][i][0] == self.line_padding_px // self.net_subsampling and '
             'result[2][i][1] == min((self.line_padding_px + WIDTH(i)) // self.net_subsampling, FRAMES(NET_L(i)))))'],
    loops={1: LoopSpec(counter='kk', ghost_post=['done = done + len(batch_line_ids)'], inv=[
        'len(all_transcriptions) == ' + _n + ' and len(all_logits) == ' + _n + ' and len(all_logit_coords) == ' + _n,
        '0 <= done and done <= ' + _n, 'len(order) == ' + _n, 'len(line_ids) == ' + _n + ' - done',
        'forall(lambda j: implies(0 <= j and j < len(line_ids), line_ids[j] == order[done + j]))',
        DONE_T % 'done', DONE_L % 'done', DONE_C % 'done', TODO % 'done'],
        variant=_n + ' - done'),
           7: LoopSpec(counter='jj', inv=[
        'len(all_transcriptions) == ' + _n + ' and len(all_logits) == ' + _n + ' and len(all_logit_coords) == ' + _n,
        DONE_T % '(done + jj)', DONE_L % '(done + jj)', DONE_C % '(done + jj)', TODO % '(done + jj)'])},
)

import copy as _copy
_b = CONTRACTS[(PATH, 'BaseEngineLineOCR.process_lines')]
_nl = _copy.copy(_b)
_nl.params = dict(_b.params, no_logits='const:True')
_nl.ensures = _b.ensures[:3]
_w = _b.loops[1]
_nl.loops = {1: LoopSpec(counter='kk', ghost_post=list(_w.ghost_post), variant=_w.variant,
                         inv=[x for x in _w.inv if 'all_logits[order' not in x and 'all_logit_coords[order' not in x]),
             6: LoopSpec(counter='jj', inv=[_b.loops[7].inv[0], DONE_T % '(done + jj)', TODO % '(done + jj)'])}
CONTRACTS[(PATH, 'BaseEngineLineOCR.process_lines', 'no_logits')] = _nl

KEYS = [(PATH, 'BaseEngineLineOCR.process_lines'), (PATH, 'BaseEngineLineOCR.process_lines', 'no_logits')]


# ---------------------------------------------------------------------------------------------------
# PageOCR.process_page: the results of process_lines are put back onto the lines they belong to

PP_PATH = 'pero_ocr/document_ocr/page_parser.py'
NPL = z3.Int('n_page_lines')
PLINE = z3.Function('PAGE_LINE', z3.IntSort(), z3.IntSort())          # q-th line of lines_iterator()
R_T = z3.Function('RESULT_transcription', z3.IntSort(), Val)
R_L = z3.Function('RESULT_logits', z3.IntSort(), Val)
R_C = z3.Function('RESULT_coords', z3.IntSort(), Val)


def _page_lines(ex, st, obj, *a):
    st.assume(NPL >= 0)
    return ArrayVal((NPL,), lambda q: ObjRef(PLINE(to_int(q)), 'TextLine'), 'obj')


def _process_lines_model(ex, st, name, base, args, kwargs):
    """self.ocr_engine.process_lines(crops): three lists with one entry per crop, in the order of the crops (the contract of
    process_lines proved above: position q holds the result of crop q)"""
    if name == 'process_lines':
        from pyvc.arrays import as_array
        n = as_array(st, args[0]).shape[0]
        ex.assumed.append('callee contract (proved above for BaseEngineLineOCR.process_lines): one (transcription, logits, frame window) per crop, at the position of the crop')
        return (ArrayVal((n,), lambda q: R_T(to_int(q)), 'val'), ArrayVal((n,), lambda q: R_L(to_int(q)), 'val'), ArrayVal((n,), lambda q: R_C(to_int(q)), 'val'))
    return NotImplemented


def _pp_theory(ex, st):
    q, q2 = z3.Ints('q q2')
    ax = [z3.ForAll([q, q2], z3.Implies(PLINE(q) == PLINE(q2), q == q2), patterns=[z3.MultiPattern(PLINE(q), PLINE(q2))])]
    return {'NPL': NPL, 'PLINE': SpecFunc(lambda x: ObjRef(PLINE(to_int(x)), 'TextLine')), 'R_T': SpecFunc(lambda x: R_T(to_int(x))),
            'R_L': SpecFunc(lambda x: R_L(to_int(x))), 'R_C': SpecFunc(lambda x: R_C(to_int(x)))}, ax


_DONE = ('forall(lambda q: implies(0 <= q and q < %s, PLINE(q).transcription == R_T(q) and PLINE(q).logits == R_L(q) and '
         'PLINE(q).logit_coords == R_C(q) and PLINE(q).characters == old(lambda: self.ocr_engine).characters))')
_NOCROP = 'exists(lambda q: 0 <= q and q < NPL and PLINE(q).crop is None)'
CONTRACTS[(PP_PATH, 'PageOCR.process_page')] = Contract(
    params={'self': 'obj:PageOCR', 'img': 'val', 'page_layout': 'obj:PageLayout'},
    fields={'crop': 'opt:val', 'transcription': 'val', 'logits': 'val', 'characters': 'val', 'logit_coords': 'val', 'id': 'val', 'ocr_engine': 'val'},
    ghosts={'method:lines_iterator': _page_lines, 'opaque_hook': _process_lines_model},
    theory=_pp_theory,
    frame=['transcription', 'logits', 'characters', 'logit_coords'],
    raises={'Exception': _NOCROP}, ensures_exc={'Exception': _NOCROP},
    # every line of the page receives the result computed for ITS crop (q-th line <- q-th result), and the engine's character table
    ensures=[_DONE % 'NPL'],
    loops={0: LoopSpec(counter='k0', inv=['forall(lambda q: implies(0 <= q and q < k0, PLINE(q).crop is not None))']),
           1: LoopSpec(counter='k1', inv=[_DONE % 'k1'])},
)

KEYS = KEYS + [(PP_PATH, 'PageOCR.process_page')]
