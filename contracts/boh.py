"""Sidecar contracts for pero_ocr/decoding/bag_of_hypotheses.py (C03 best_hyp, C16 posteriors/confidence)."""
import z3
from pyvc.engine import Contract, LoopSpec, SpecFunc
from pyvc.sym import *
from pyvc import lib

PATH = 'pero_ocr/decoding/bag_of_hypotheses.py'
CONTRACTS = {}

TR = z3.Function('HYP_transcript', z3.IntSort(), Val)
VIS = z3.Function('HYP_vis_sc', z3.IntSort(), z3.RealSort())
LM = z3.Function('HYP_lm_sc', z3.IntSort(), z3.RealSort())
NHYP = z3.Int('n_hyps')


def _hyps(ex, st, obj):
    """self._hyps: list of Hypothese(transcript, vis_sc, lm_sc) with symbolic length; every hypothesis has an LM score"""
    return ArrayVal((NHYP,), lambda i: lib.NamedTup(['transcript', 'vis_sc', 'lm_sc'],
                                                    [TR(to_int(i)), VIS(to_int(i)), LM(to_int(i))]), 'obj')


def _total_scores_method(ex, st, obj, *a, **k):
    return ex.call_inline((PATH, 'BagOfHypotheses.total_scores'), [obj], {}, st, None)


def theory(ex, st):
    st.assume(NHYP >= 0)
    w = ex.getattr(st.env['self'], 'lm_weight', st, None)
    return {'TOT': SpecFunc(lambda i: VIS(to_int(i)) + w * LM(to_int(i)), 'TOT'), 'NHYP': NHYP,
            'TRANSCRIPT': SpecFunc(lambda i: TR(to_int(i)), 'TRANSCRIPT')}, []


GH = {'BagOfHypotheses._hyps': _hyps, 'method:total_scores': _total_scores_method}

CONTRACTS[(PATH, 'BagOfHypotheses.total_scores')] = Contract(
    params={'self': 'obj:BagOfHypotheses'}, fields={'lm_weight': 'real'}, ghosts=GH, theory=theory,
    ensures=['len(result) == NHYP', 'forall(lambda i: implies(0 <= i and i < NHYP, result[i] == TOT(i)))'],
)

CONTRACTS[(PATH, 'BagOfHypotheses.best_hyp')] = Contract(
    params={'self': 'obj:BagOfHypotheses'}, fields={'lm_weight': 'real'}, ghosts=GH, theory=theory,
    requires=['NHYP >= 1'], inline=['total_scores'],
    ensures=['exists(lambda r: 0 <= r and r < NHYP and result == TRANSCRIPT(r) and '
             'forall(lambda i: implies(0 <= i and i < NHYP, TOT(i) <= TOT(r))) and '
             'forall(lambda i: implies(0 <= i and i < r, TOT(i) < TOT(r))))'],
)
KEYS_C03 = [(PATH, 'BagOfHypotheses.total_scores'), (PATH, 'BagOfHypotheses.best_hyp')]
