"""Sidecar contracts for the greedy CTC decoders (property C04): pero_ocr/ocr_engine/pytorch_ocr_engine.py::greedy_decode_ctc
(batched, torch) and pero_ocr/decoding/decoders.py::GreedyDecoder.__call__ (numpy)."""
import z3
from pyvc.engine import Contract, LoopSpec, SpecFunc
from pyvc.sym import *
from pyvc import lib

EPATH = 'pero_ocr/ocr_engine/pytorch_ocr_engine.py'
CONTRACTS = {}


def argmax_theory(param, n_axis, c_axis, t_axis):
    """AM(n, t): the first maximal class of frame t of line n of the ORIGINAL score tensor"""
    def theory(ex, st):
        from pyvc.arrays import as_array
        X = as_array(st, st.env[param])
        AM = z3.Function('ARGMAX_class', z3.IntSort(), z3.IntSort(), z3.IntSort())
        n, t, c = z3.Ints('n t c')
        N, C, T = to_int(X.shape[n_axis]), to_int(X.shape[c_axis]), to_int(X.shape[t_axis])

        def cell(nn, cc, tt):
            full = [None, None, None]
            full[n_axis], full[c_axis], full[t_axis] = nn, cc, tt
            return X.get(*full)
        inr = z3.And(n >= 0, n < N, t >= 0, t < T)
        axioms = [
            (['ARGMAX_class'], z3.ForAll([n, t], z3.Implies(inr, z3.And(AM(n, t) >= 0, AM(n, t) < C)), patterns=[AM(n, t)])),
            (['ARGMAX_class'], z3.ForAll([n, t, c], z3.Implies(z3.And(inr, c >= 0, c < C), to_z3(s_le(cell(n, c, t), cell(n, AM(n, t), t)))),
                                         patterns=[z3.MultiPattern(AM(n, t), to_z3(cell(n, c, t)))])),
            (['ARGMAX_class'], z3.ForAll([n, t, c], z3.Implies(z3.And(inr, c >= 0, c < AM(n, t)), to_z3(s_lt(cell(n, c, t), cell(n, AM(n, t), t)))),
                                         patterns=[z3.MultiPattern(AM(n, t), to_z3(cell(n, c, t)))])),
        ]
        return {'AM': SpecFunc(lambda a, b: AM(to_int(a), to_int(b)), 'AM')}, axioms
    return theory


def _text_hook(ex, st, name, base, args, kwargs):
    return NotImplemented


_N, _C, _T = 'scores_probs.shape[0]', 'scores_probs.shape[1]', 'scores_probs.shape[2]'
KEPT = '(AM(n, t) != %s - 1 and (t == 0 or AM(n, t) != AM(n, t - 1)))' % 'old(lambda: scores_probs.shape[1])'
CONTRACTS[(EPATH, 'greedy_decode_ctc')] = Contract(
    params={'scores_probs': 'nd3:real', 'chars': 'val'},
    theory=argmax_theory('scores_probs', 0, 1, 2),
    requires=[_T + ' >= 1', _C + ' >= 1'],
    ghosts={'listvars': {'outputs': ValCodec}, 'opaque_hook': _text_hook},
    ghost_entry=['S0 = scores_probs.copy()', 'NN = scores_probs.shape[0]', 'CC = scores_probs.shape[1]', 'TT = scores_probs.shape[2]'],
    ghost_at={'scores_probs[:, -1, 0] = 1000': [
        # the tensor with the prepended frame: frame 0 is "blank for sure", frame t+1 is the original frame t
        'assert scores_probs.shape[0] == NN and scores_probs.shape[1] == CC and scores_probs.shape[2] == TT + 1',
        'assert forall(lambda n, c, t: implies(0 <= n and n < NN and 0 <= c and c < CC and 0 <= t and t < TT, scores_probs[n, c, t + 1] == S0[n, c, t]))',
        'assert forall(lambda n, c: implies(0 <= n and n < NN and 0 <= c and c < CC, scores_probs[n, c, 0] == ite(c == CC - 1, 1000, -1000)))',
    ]},
    # anchored BEFORE the statements that use the values (robust against how `best` is computed: one statement or several)
    ghost_before={'mask = best[': [
        'assert best.shape[0] == NN and best.shape[1] == TT + 1',
        'assert forall(lambda n: implies(0 <= n and n < NN, best[n, 0] == CC))',
        # both arg-max notions (the code's, on the shifted tensor, and the specification's, on the original) bound each other ...
        'assert forall(lambda n, t: implies(0 <= n and n < NN and 0 <= t and t < TT, 1 <= best[n, t + 1] and best[n, t + 1] <= CC))',
        'assert forall(lambda n, t: implies(0 <= n and n < NN and 0 <= t and t < TT, scores_probs[n, AM(n, t), t + 1] <= scores_probs[n, best[n, t + 1] - 1, t + 1]))',
        'assert forall(lambda n, t: implies(0 <= n and n < NN and 0 <= t and t < TT, S0[n, best[n, t + 1] - 1, t] <= S0[n, AM(n, t), t]))',
        'assert forall(lambda n, t: implies(0 <= n and n < NN and 0 <= t and t < TT, best[n, t + 1] - 1 <= AM(n, t)))',
        'assert forall(lambda n, t: implies(0 <= n and n < NN and 0 <= t and t < TT, AM(n, t) <= best[n, t + 1] - 1))',
        # ... hence they are the same first maximiser
        'assert forall(lambda n, t: implies(0 <= n and n < NN and 0 <= t and t < TT, best[n, t + 1] == AM(n, t) + 1))',
    ], 'outputs = []': [
        'assert best.shape[0] == NN and best.shape[1] == TT',
        # frame t of line n survives iff its arg-max class is not blank and differs from the previous frame's; the surviving entry is that class
        'assert forall(lambda n, t: implies(0 <= n and n < NN and 0 <= t and t < TT, '
        'best[n, t] == ite(AM(n, t) != CC - 1 and (t == 0 or AM(n, t) != AM(n, t - 1)), AM(n, t), -1)))',
    ]},
    ensures=['len(result) == NN'],
    loops={0: LoopSpec(counter='kk', inv=['len(outputs) == kk'])},
)

# ---------------------------------------------------------------------------------------------------
# the stand-alone greedy decoder (numpy): itertools.groupby merges the repeats, a filtered generator drops the blanks

DPATH = 'pero_ocr/decoding/decoders.py'
TEXTOF = z3.Function('GREEDY_text', z3.IntSort(), Val)


def _greedy_join_hook(ex, st, name, base, args, kwargs):
    """sep.join(<generator>): the generator's elements and their source frames become visible to the contract as JLEN / JSRC(j)"""
    if name in ('join', 'call') and args and isinstance(args[0], ArrayVal) and getattr(args[0], 'src', None) is not None:
        gen = args[0]
        ex.spec_funcs['JSRC'] = SpecFunc(lambda j: gen.src(to_int(j)), 'JSRC')
        st.ghost['JLEN'] = to_int(gen.shape[0])
        st.env['JLEN'] = to_int(gen.shape[0])
        ex.assumed.append('opaque: the decoded string is the join of the letters of the kept frames (JSRC(0..JLEN-1))')
        return z3.Const('GREEDY_decoded', Val)
    return NotImplemented


def _bag_add(ex, st, obj, *a, **k):
    st.env['ADDED_TRANSCRIPT'] = a[0]          # what is put into the bag (ghost record)
    return None


_KEPT = '(argmaxes[%(t)s] != self._blank_ind and (%(t)s == 0 or argmaxes[%(t)s] != argmaxes[%(t)s - 1]))'
CONTRACTS[(DPATH, 'GreedyDecoder.__call__')] = Contract(
    params={'self': 'obj:GreedyDecoder', 'logits': 'nd2:real', 'max_unnormalization': 'real'},
    fields={'_blank_ind': 'int', '_letters': 'val', 'symbol_separator': 'val'},
    requires=['logits.shape[0] >= 0', 'logits.shape[1] >= 1'],
    opaque=['logprobs_max_deviation', 'logsumexp'],
    ghosts={'opaque_hook': _greedy_join_hook, 'opaque:logprobs_max_deviation': 'real', 'opaque_model:logprobs_max_deviation': lambda ex, st, a, k: z3.Real('MAXDEV_logits'),
            'opaque_model:logsumexp': lambda ex, st, a, k: z3.Real('LSE_of_maxes'),
            'lib:bag_of_hypotheses.BagOfHypotheses': lambda ex, st, *a, **k: ObjRef(z3.Int(fresh_name('bag')), 'Bag'),
            'lib:bag_of_hypotheses.logsumexp': lambda ex, st, *a, **k: z3.Real('LSE_of_maxes'),
            'method:add': _bag_add},
    theory=lambda ex, st: ({'MAXDEV': z3.Real('MAXDEV_logits'), 'GREEDY_DECODED': z3.Const('GREEDY_decoded', Val)}, []),
    raises={'ValueError': 'MAXDEV > max_unnormalization'}, ensures_exc={'ValueError': 'MAXDEV > max_unnormalization'},
    ghost_at={'decoded = self.symbol_separator.join(': [
        # the joined symbols are those of the frames that survive the CTC collapse of the arg-max path, in frame order:
        # every joined element stems from a surviving frame, the frames are strictly increasing, and every surviving frame is joined
        'assert forall(lambda j: implies(0 <= j and j < JLEN, 0 <= JSRC(j) and JSRC(j) < logits.shape[0] and ' + _KEPT % {'t': 'JSRC(j)'} + '))',
        'assert forall(lambda j, j2: implies(0 <= j and j < j2 and j2 < JLEN, JSRC(j) < JSRC(j2)))',
        'assert forall(lambda t: implies(0 <= t and t < logits.shape[0] and ' + _KEPT % {'t': 't'} + ', exists(lambda j: 0 <= j and j < JLEN and JSRC(j) == t)))',
    ]},
    # the transcript put into the returned bag is that join, untouched
    ensures=['0 <= JLEN and JLEN <= logits.shape[0]', 'ADDED_TRANSCRIPT == decoded', 'decoded == GREEDY_DECODED'],
)

KEYS = [(EPATH, 'greedy_decode_ctc'), (DPATH, 'GreedyDecoder.__call__')]
