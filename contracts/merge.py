"""Sidecar contract for user_scripts/merge_ocr_results.py::merge_layouts (property C19).

Heap model: line objects are references; LINE(e, p) is the p-th line (in lines_iterator order) of engine e.
get_confidences(line) is opaque: a pure function of the four line fields it reads; its result is summarised by
SIZE (number of confidences) and MEAN (their mean).  c(e, p) = MEAN if SIZE > 0 else -10 (the code's sentinel).
"""
import z3
from pyvc.engine import Contract, LoopSpec, SpecFunc
from pyvc.sym import *

PATH = 'user_scripts/merge_ocr_results.py'
CONTRACTS = {}

LINE = z3.Function('LINE', z3.IntSort(), z3.IntSort(), z3.IntSort())
SIZE = z3.Function('CONF_SIZE', Val, Val, Val, Val, z3.IntSort())
MEAN = z3.Function('CONF_MEAN', Val, Val, Val, Val, z3.RealSort())
NPOS = z3.Int('n_positions')
READS = ['transcription', 'logits', 'characters', 'logit_coords']
COPIED = ['transcription', 'logits', 'characters']


def _page_layouts(ex, st, n):
    ln = z3.Int('len_page_layouts')
    st.assume(ln >= 0)
    f = z3.Function('LAYOUT', z3.IntSort(), z3.IntSort())
    return ArrayVal((ln,), lambda i: ObjRef(f(to_int(i)), 'PageLayout'), 'obj')


def _lines_iterator(ex, st, obj):
    return Opaque('lines_iterator', obj)


def _starcall(ex, st, f, v, node):
    """zip(*[layout.lines_iterator() for layout in page_layouts]): position p yields (LINE(0,p), ..., LINE(n-1,p))"""
    if not (isinstance(f, Opaque) and f.name == 'builtins.zip'):
        raise Unsupported('star call of %r' % (f,))
    from pyvc.arrays import as_array
    n = as_array(st, v).shape[0]
    ex.assumed.append('model: zip(*iterators) yields, for each position p < n_positions, the tuple of the p-th line of every engine (LINE(e, p))')
    return ArrayVal((NPOS,), lambda p: ArrayVal((n,), lambda e: ObjRef(LINE(to_int(e), to_int(p)), 'TextLine'), 'obj'), 'obj')


def _conf_args(ex, st, line):
    return [ex.getattr(line, f, st, None) for f in READS]


def _get_confidences(ex, st, args, kwargs):
    a = _conf_args(ex, st, args[0])
    return Record({'size': SIZE(*a), 'mean': (lambda ex2, st2: MEAN(*a))}, 'confidences')


def theory(ex, st):
    n = to_int(st.env['page_layouts'].shape[0])
    st.assume(NPOS >= 0)
    H = {f: ex.initial_field(st, f)[0] for f in READS}
    BESTC = z3.Function('BESTC', z3.IntSort(), z3.IntSort(), z3.RealSort())
    ARGB = z3.Function('ARGB', z3.IntSort(), z3.IntSort(), z3.IntSort())

    def c(e, p):
        """mean confidence of engine e's line at position p on the entry heap"""
        r = LINE(to_int(e), to_int(p))
        a = [z3.Select(H[f], r) for f in READS]
        return z3.If(SIZE(*a) > 0, MEAN(*a), z3.RealVal(-10))

    def scan_def(p, e):
        p, e = to_int(p), to_int(e)
        better = c(e - 1, p) > BESTC(p, e - 1)
        return z3.And(
            z3.Implies(e == 1, z3.And(BESTC(p, e) == c(0, p), ARGB(p, e) == 0)),
            z3.Implies(e >= 2, z3.And(BESTC(p, e) == z3.If(better, c(e - 1, p), BESTC(p, e - 1)),
                                      ARGB(p, e) == z3.If(better, e - 1, ARGB(p, e - 1)))))
    names = {
        'c': SpecFunc(c, 'c'),
        'BESTC': SpecFunc(lambda p, e: BESTC(to_int(p), to_int(e)), 'BESTC', defn=scan_def),
        'ARGB': SpecFunc(lambda p, e: ARGB(to_int(p), to_int(e)), 'ARGB', defn=scan_def),
        'LINE': SpecFunc(lambda e, p: ObjRef(LINE(to_int(e), to_int(p)), 'TextLine'), 'LINE'),
        'NPOS': NPOS,
        'isline0': SpecFunc(lambda r, p: r.r == LINE(0, to_int(p))),
    }
    # all line objects are distinct (different engines / positions never share a TextLine object)
    e1, p1, e2, p2 = z3.Ints('e1 p1 e2 p2')
    axioms = [z3.ForAll([e1, p1, e2, p2], z3.Implies(LINE(e1, p1) == LINE(e2, p2), z3.And(e1 == e2, p1 == p2)),
                        patterns=[z3.MultiPattern(LINE(e1, p1), LINE(e2, p2))])]
    return names, axioms


def _unchanged(fields, obj):
    return ' and '.join('%s.%s == old(lambda: %s.%s)' % (obj, f, obj, f) for f in fields)


# result for one position q, engines scanned up to e (e >= 1)
def RESULT(q, e):
    m = 'LINE(0, %s)' % q
    src = 'LINE(ARGB(%s, %s), %s)' % (q, e, q)
    parts = ['%s.%s == old(lambda: %s.%s)' % (m, f, src, f) for f in COPIED]
    parts.append('implies(BESTC(%s, %s) > 0, %s.transcription_confidence == BESTC(%s, %s))' % (q, e, m, q, e))
    parts.append('implies(BESTC(%s, %s) <= 0, %s.transcription_confidence == old(lambda: %s.transcription_confidence))' % (q, e, m, m))
    return ' and '.join(parts)


ARGOK = ('0 <= ARGB(%(q)s, %(e)s) and ARGB(%(q)s, %(e)s) < %(e)s and c(ARGB(%(q)s, %(e)s), %(q)s) == BESTC(%(q)s, %(e)s) and '
         'forall(lambda e2: implies(0 <= e2 and e2 < %(e)s, c(e2, %(q)s) <= BESTC(%(q)s, %(e)s))) and '
         'forall(lambda e2: implies(0 <= e2 and e2 < ARGB(%(q)s, %(e)s), c(e2, %(q)s) < BESTC(%(q)s, %(e)s)))')

ALLF = COPIED + ['transcription_confidence']
N = 'len(page_layouts)'


def frame_inv(bound):
    """every line object that is not the engine-0 line of a processed position still has its entry fields"""
    return ('forall(lambda e9, p9: implies(0 <= e9 and 0 <= p9 and not (e9 == 0 and p9 < %s), %s))'
            % (bound, _unchanged(ALLF, 'LINE(e9, p9)')))


CONTRACTS[(PATH, 'merge_layouts')] = Contract(
    params={'page_layouts': _page_layouts},
    fields={'transcription': 'val', 'logits': 'val', 'characters': 'val', 'logit_coords': 'val', 'id': 'val',
            'transcription_confidence': 'real'},
    requires=[N + ' >= 1',
              # identical line ids in all engines (otherwise the script exits)
              'forall(lambda e, p: implies(0 <= e and e < ' + N + ' and 0 <= p and p < NPOS, LINE(e, p).id == LINE(0, p).id))'],
    theory=theory, opaque=['get_confidences'],
    ghosts={'method:lines_iterator': _lines_iterator, 'starcall': _starcall, 'opaque_model:get_confidences': _get_confidences},
    frame=ALLF,
    ladder=[dict(len_page_layouts=a, n_positions=b) for a, b in ((1, 1), (2, 1), (3, 1), (2, 2))],
    ensures=[
        # per line position: fields of the first arg-max engine, maximum recorded when positive
        'forall(lambda q: implies(0 <= q and q < NPOS, ' + RESULT('q', N) + '))',
        'forall(lambda q: implies(0 <= q and q < NPOS, ' + ARGOK % {'q': 'q', 'e': N} + '))',
        frame_inv('NPOS'),
    ],
    loops={
        0: LoopSpec(counter='p', inv=[
            'forall(lambda q: implies(0 <= q and q < p, ' + RESULT('q', N) + '))',
            'forall(lambda q: implies(0 <= q and q < p, ' + ARGOK % {'q': 'q', 'e': N} + '))',
            frame_inv('p')]),
        1: LoopSpec(counter='e1', inv=[]),
        2: LoopSpec(counter='e', inv=[
            'implies(e == 0, isneginf(best_confidence) and ' + _unchanged(ALLF, 'LINE(0, p)') + ')',
            'implies(e >= 1, best_confidence == BESTC(p, e) and ' + RESULT('p', 'e') + ')',
            'implies(e >= 1, ' + ARGOK % {'q': 'p', 'e': 'e'} + ')',
            'forall(lambda q: implies(0 <= q and q < p, ' + RESULT('q', N) + '))',
            frame_inv('p + 1'),
            'merged_line is LINE(0, p)']),
    },
)
