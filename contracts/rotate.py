"""Sidecar contracts for LayoutEngine.rotate_layout (property C18, rotation clause).

np.rot90 axiom (counter-clockwise, k quarter turns) for an original image of H rows x W columns, written for points:
 k=1: rotated image has W rows x H columns; the pixel at (x', y') comes from (x, y) = (W-1-y', x')
 k=2: H x W;  (x, y) = (W-1-x', H-1-y')
 k=3: W x H;  (x, y) = (y', H-1-x')
`shape` is the shape of the ROTATED image.  The lists hold one array each (bounded in the list length, unbounded in
the number of points); the three lists are transformed consistently."""
import z3
from pyvc.engine import Contract, LoopSpec, SpecFunc
from pyvc.sym import *
from pyvc.arrays import Dim

PATH = 'pero_ocr/layout_engines/cnn_layout_engine.py'
CONTRACTS = {}


def _pts(tag):
    def make(ex, st, n):
        cnt = z3.Int('n_points_' + tag)
        st.assume(cnt >= 0)
        buf = fresh_name('buf_' + tag)
        st.store[buf] = fresh_array((cnt, 2), 'real', tag)
        ref = NDRef(buf, [Dim(None, 0, 1, cnt), Dim(None, 0, 1, 2)])
        ex.spec_funcs[tag + '0'] = ref
        return [ref]
    return make


def _shape(ex, st, n):
    r, c = z3.Int('rot_rows'), z3.Int('rot_cols')
    st.assume(z3.And(r >= 1, c >= 1))
    return (r, c, 3)


def near(a, b):
    return '(%s) - (%s) <= 1 and (%s) - (%s) <= 1' % (a, b, b, a)


def ensures_for(rot):
    out = ['len(result[0]) == 1 and len(result[1]) == 1 and len(result[2]) == 1']
    for k, tag in ((0, 'P'), (1, 'B'), (2, 'T')):
        r = 'result[%d][0]' % k
        o = tag + '0'
        if rot == 1:
            ex_x, ex_y = 'shape[0] - 1 - %s[i, 1]' % o, '%s[i, 0]' % o
        elif rot == 2:
            ex_x, ex_y = 'shape[1] - 1 - %s[i, 0]' % o, 'shape[0] - 1 - %s[i, 1]' % o
        else:
            ex_x, ex_y = '%s[i, 1]' % o, 'shape[1] - 1 - %s[i, 0]' % o
        out.append('%s.shape[0] == %s.shape[0] and %s.shape[1] == 2' % (r, o, r))
        out.append('forall(lambda i: implies(0 <= i and i < %s.shape[0], %s and %s))' % (o, near('%s[i, 0]' % r, ex_x), near('%s[i, 1]' % r, ex_y)))
    return out


KEYS = []
for rot in (1, 2, 3):
    key = (PATH, 'LayoutEngine.rotate_layout')
    CONTRACTS[(PATH, 'LayoutEngine.rotate_layout', rot)] = Contract(
        params={'p_list': _pts('P'), 'b_list': _pts('B'), 't_list': _pts('T'), 'rot': 'const:%d' % rot, 'shape': _shape},
        ensures=ensures_for(rot))


def reports(root):
    from pyvc import run as vrun
    reps = []
    for rot in (1, 2, 3):
        r = vrun.generate((PATH, 'LayoutEngine.rotate_layout'), CONTRACTS[(PATH, 'LayoutEngine.rotate_layout', rot)], {}, root)
        r.key = (PATH, 'LayoutEngine.rotate_layout[rot=%d]' % rot)
        for vc in r.vcs:
            vc.name = vc.name.replace('rotate_layout/', 'rotate_layout[rot=%d]/' % rot)
        reps.append(r)
    return reps
