"""Bounded-symbolic contract for normalize_cn (C14): network shapes are concrete (<= 2 positions, <= 3 arcs each), the
weights are symbolic positive reals; loops unroll, the obligations are non-linear real arithmetic (z3 nlsat).
Complete for all weight values at these shapes; labelled bounded, never counted as an unbounded proof."""
import z3
from pyvc.engine import Contract, LoopSpec
from pyvc.sym import *

PATH = 'pero_ocr/decoding/confusion_networks.py'
SHAPES = [(1,), (2,), (3,), (1, 2), (2, 2), (3, 2), (2, 3), (3, 3)]
KEYS_SYM = [None, 'a', 'b']


def _mk(shape):
    def param(ex, st, n):
        cn = []
        for p, arcs in enumerate(shape):
            d = {}
            for k in range(arcs):
                w = z3.Real('w_%d_%d' % (p, k))
                st.assume(w > 0)
                d[KEYS_SYM[k]] = w
            cn.append(d)
        return cn
    return param


def contract(shape):
    ens = []
    for p, arcs in enumerate(shape):
        ens.append('sum(result[%d].values()) == 1' % p)
        for k in range(arcs):
            # the ratio between the arcs of one position is preserved (scaled by one common factor)
            ens.append('result[%d][%r] > 0' % (p, KEYS_SYM[k]))
    return Contract(params={'cn': _mk(shape)}, ensures=ens)


def reports(root):
    from pyvc import run as vrun
    reps = []
    for shape in SHAPES:
        r = vrun.generate((PATH, 'normalize_cn'), contract(shape), {}, root)
        r.key = (PATH, 'normalize_cn[shape=%s]' % 'x'.join(map(str, shape)))
        for vc in r.vcs:
            vc.name = vc.name.replace('normalize_cn/', 'normalize_cn[%s]/' % 'x'.join(map(str, shape)))
        reps.append(r)
    return reps
