"""Sidecar contracts for pero_ocr/decoding/decoders.py (property C02): the per-frame recurrences of the CTC prefix beam
search and the bookkeeping that keeps the beam's prefixes pairwise distinct."""
import z3
from pyvc.engine import Contract, LoopSpec, SpecFunc
from pyvc.sym import *
from pyvc import lib

PATH = 'pero_ocr/decoding/decoders.py'
CONTRACTS = {}


def view_shape_of(st, v):
    from pyvc.arrays import as_array
    return as_array(st, v).shape[0]
DEC = 'CTCPrefixLogRawNumpyDecoder.'

_N = 'len(Pb_old)'
_C = 'len(Pc)'
NOPINF = 'forall(lambda i: implies(0 <= i and i < len(%s), not isinf(%s[i])))'

def _mask_result(ex, st, env):
    return fresh_array((to_int(env['nb_prefixes']), to_int(env['nb_chars'])), 'xreal2', 'delta')


def _neginf_field(ex, st, obj):
    ex.assumed.append('class invariant: CTCPrefixLogRawNumpyDecoder.LOG_ZERO_PROBABILITY == -inf (set in __init__, never reassigned)')
    return NINF


CONTRACTS[(PATH, 'get_continuation_mask')] = Contract(
    result=_mask_result, params={'nb_prefixes': 'int', 'nb_chars': 'int', 'last_chars': 'nd1:int', 'one': 'xreal', 'zero': 'xreal'},
    requires=['nb_prefixes >= 0', 'nb_chars >= 0', 'len(last_chars) == nb_prefixes',
              'forall(lambda i: implies(0 <= i and i < nb_prefixes, 0 <= last_chars[i] and last_chars[i] < nb_chars))'],
    ensures=['result.shape[0] == nb_prefixes', 'result.shape[1] == nb_chars',
             'forall(lambda i, j: implies(0 <= i and i < nb_prefixes and 0 <= j and j < nb_chars, '
             'result[i, j] == ite(j == last_chars[i], zero, one)))'],
)
CONTRACTS[(PATH, 'get_continuation_mask')].public_ensures = list(CONTRACTS[(PATH, 'get_continuation_mask')].ensures)

CONTRACTS[(PATH, DEC + 'compute_Pb')] = Contract(
    params={'self': 'obj:CTCPrefixLogRawNumpyDecoder', 'Pb_old': 'nd1:xreal2', 'Pnb_old': 'nd1:xreal2', 'P_blank': 'xreal'},
    requires=['len(Pnb_old) == len(Pb_old)'],
    # blank extension: (Pb + Pnb) * P(blank)
    ensures=['len(result) == len(Pb_old)',
             'forall(lambda i: implies(0 <= i and i < len(Pb_old), result[i] == logaddexp(Pb_old[i], Pnb_old[i]) + P_blank))'],
)

CONTRACTS[(PATH, DEC + 'compute_Pnb')] = Contract(
    params={'self': 'obj:CTCPrefixLogRawNumpyDecoder', 'Pnb_old': 'nd1:xreal2', 'Pb_old': 'nd1:xreal2', 'Pc': 'nd1:xreal2', 'last_chars': 'nd1:int'},
    requires=['len(Pnb_old) == ' + _N, 'len(last_chars) == ' + _N,
              'forall(lambda i: implies(0 <= i and i < ' + _N + ', 0 <= last_chars[i] and last_chars[i] < ' + _C + '))',
              NOPINF % ('Pnb_old', 'Pnb_old'), NOPINF % ('Pb_old', 'Pb_old'), NOPINF % ('Pc', 'Pc')],
    ensures=['result.shape[0] == ' + _N, 'result.shape[1] == ' + _C + ' + 1',
             # extending prefix i by character j: from blank always, from non-blank only when j differs from the last character
             'forall(lambda i, j: implies(0 <= i and i < ' + _N + ' and 0 <= j and j < ' + _C + ', '
             'result[i, j] == logaddexp(Pb_old[i] + Pc[j], ite(j == last_chars[i], -np.inf, Pnb_old[i] + Pc[j]))))',
             # keeping prefix i with its last character repeated
             'forall(lambda i: implies(0 <= i and i < ' + _N + ', result[i, ' + _C + '] == Pnb_old[i] + Pc[last_chars[i]]))'],
)

CONTRACTS[(PATH, DEC + 'compute_Plm')] = Contract(
    params={'self': 'obj:CTCPrefixLogRawNumpyDecoder', 'Plm_old': 'nd1:real', 'lm_preds': 'nd2:real'},
    fields={'_insertion_bonus': 'real'},
    requires=['lm_preds.shape[0] == len(Plm_old)'],
    ensures=['result.shape[0] == len(Plm_old)', 'result.shape[1] == lm_preds.shape[1] + 1',
             'forall(lambda i, j: implies(0 <= i and i < len(Plm_old) and 0 <= j and j < lm_preds.shape[1], '
             'result[i, j] == Plm_old[i] + lm_preds[i, j] + self._insertion_bonus))',
             'forall(lambda i: implies(0 <= i and i < len(Plm_old), result[i, lm_preds.shape[1]] == Plm_old[i]))'],
)

CONTRACTS[(PATH, DEC + 'get_reduced_Pc')] = Contract(
    params={'self': 'obj:CTCPrefixLogRawNumpyDecoder', 'Pc': 'nd1:xreal2', 'selected_chars': 'nd1:int'},
    ghosts={'CTCPrefixLogRawNumpyDecoder.LOG_ZERO_PROBABILITY': _neginf_field},
    requires=['forall(lambda j: implies(0 <= j and j < len(selected_chars), 0 <= selected_chars[j] and selected_chars[j] < len(Pc)))'],
    ensures=['len(result) == len(selected_chars) + 1', 'isneginf(result[len(selected_chars)])',
             'forall(lambda j: implies(0 <= j and j < len(selected_chars), result[j] == Pc[selected_chars[j]]))'],
)

_NB = 'len(best_inds[1])'


def _best_inds(ex, st, n):
    """best_inds: pair (prefix indices, character indices) of equal symbolic length"""
    K = z3.Int('n_best')
    st.assume(K >= 0)
    return (fresh_array((K,), 'int', 'best_l'), fresh_array((K,), 'int', 'best_c'))


def _list_result(base):
    def mk(ex, st, env):
        a = fresh_array((z3.Int(fresh_name('n_' + base)),), 'int', base)
        a.is_list = True          # a python list of ints: immutable here, truthy iff non-empty
        return a
    return mk


def _positions_contract(op):
    return Contract(
        params={'best_inds': _best_inds, 'blank_ind': 'int'},
        result=_list_result('positions'),
        ensures=['0 <= len(result) and len(result) <= ' + _NB,
                 'forall(lambda j: implies(0 <= j and j < len(result), 0 <= result[j] and result[j] < ' + _NB + ' and best_inds[1][result[j]] ' + op + ' blank_ind))',
                 'forall(lambda j, j2: implies(0 <= j and j < j2 and j2 < len(result), result[j] < result[j2]))',
                 # complete: every position whose character index passes the test is listed
                 'forall(lambda i: implies(0 <= i and i < ' + _NB + ' and best_inds[1][i] ' + op + ' blank_ind, '
                 'exists(lambda j: 0 <= j and j < len(result) and result[j] == i)))'])


CONTRACTS[(PATH, 'get_new_prefixes_positions')] = _positions_contract('!=')
CONTRACTS[(PATH, 'get_old_prefixes_positions')] = _positions_contract('==')
for _k in ('get_new_prefixes_positions', 'get_old_prefixes_positions'):
    CONTRACTS[(PATH, _k)].public_ensures = list(CONTRACTS[(PATH, _k)].ensures)

_LST = opt_codec(seq_codec(IntCodec))


def _fnp_result(ex, st, env):
    from pyvc.arrays import as_array
    n = to_int(as_array(st, env['best_inds'][1]).shape[0])
    f = z3.Function(fresh_name('A_new'), z3.IntSort(), z3.SeqSort(z3.IntSort()))
    return (ArrayVal((n,), lambda i: SeqVal(f(to_int(i)), IntCodec), 'obj'), fresh_array((n,), 'real', 'new_l_last'))


FNP_NEW = ('forall(lambda i: implies(0 <= i and i < %s and best_inds[1][i] != blank_ind, '
           '%s[i] == A_prev[best_inds[0][i]] + [best_inds[1][i]] and %s[i] == best_inds[1][i]))')
FNP_OLD = ('forall(lambda i: implies(0 <= i and i < %s and best_inds[1][i] == blank_ind, '
           '%s[i] == A_prev[best_inds[0][i]] and %s[i] == prev_l_last[best_inds[0][i]]))')
CONTRACTS[(PATH, 'find_new_prefixes')] = Contract(
    params={'prev_l_last': 'nd1:real', 'best_inds': _best_inds, 'A_prev': 'seqof:list:int', 'blank_ind': 'int'},
    result=_fnp_result, ghosts={'listvars': {'A_new': _LST}},
    requires=['len(prev_l_last) == len(A_prev)',
              'forall(lambda i: implies(0 <= i and i < ' + _NB + ', 0 <= best_inds[0][i] and best_inds[0][i] < len(A_prev)))'],
    ensures=['len(result[0]) == ' + _NB, 'len(result[1]) == ' + _NB,
             # a chosen (prefix, character) pair extends the prefix by the character ...
             FNP_NEW % (_NB, 'result[0]', 'result[1]'),
             # ... and a chosen (prefix, blank) pair keeps the prefix and its last character
             FNP_OLD % (_NB, 'result[0]', 'result[1]'),
             # element-wise view of the extension (saves the callers sequence reasoning)
             'forall(lambda i: implies(0 <= i and i < ' + _NB + ' and best_inds[1][i] != blank_ind, '
             'len(result[0][i]) == len(A_prev[best_inds[0][i]]) + 1 and result[0][i][len(A_prev[best_inds[0][i]])] == best_inds[1][i]))',
             'forall(lambda i, e: implies(0 <= i and i < ' + _NB + ' and best_inds[1][i] != blank_ind and 0 <= e and e < len(A_prev[best_inds[0][i]]), '
             'result[0][i][e] == A_prev[best_inds[0][i]][e]))',
             'forall(lambda i: implies(0 <= i and i < ' + _NB + ' and best_inds[1][i] != blank_ind, result[0][i][:-1] == A_prev[best_inds[0][i]]))'],
    loops={0: LoopSpec(counter='kk', iter_name='news',
                       modifies={'new_l_last': 'lambda i: best_inds[1][i] != blank_ind', 'A_new': 'lambda i: best_inds[1][i] != blank_ind'},
                       inv=['len(A_new) == ' + _NB, 'len(new_l_last) == ' + _NB,
                            'forall(lambda j: implies(0 <= j and j < kk, A_new[news[j]] == A_prev[best_inds[0][news[j]]] + [best_inds[1][news[j]]] '
                            'and new_l_last[news[j]] == best_inds[1][news[j]]))']),
           1: LoopSpec(counter='kk', iter_name='olds',
                       modifies={'new_l_last': 'lambda i: best_inds[1][i] == blank_ind', 'A_new': 'lambda i: best_inds[1][i] == blank_ind'},
                       inv=['len(A_new) == ' + _NB, 'len(new_l_last) == ' + _NB,
                            FNP_NEW % (_NB, 'A_new', 'new_l_last'),
                            'forall(lambda j: implies(0 <= j and j < kk, A_new[olds[j]] == A_prev[best_inds[0][olds[j]]] '
                            'and new_l_last[olds[j]] == prev_l_last[best_inds[0][olds[j]]]))'])},
)
CONTRACTS[(PATH, 'find_new_prefixes')].public_ensures = list(CONTRACTS[(PATH, 'find_new_prefixes')].ensures)

CONTRACTS[(PATH, 'find_matching')] = Contract(
    params={'elems': 'seqof:list:int', 'pattern': 'list:int'},
    result=lambda ex, st, env: fresh_array((z3.Int(fresh_name('n_match')),), 'int', 'matching'),
    ensures=['0 <= len(result) and len(result) <= len(elems)',
             'forall(lambda j: implies(0 <= j and j < len(result), 0 <= result[j] and result[j] < len(elems) and elems[result[j]] == pattern))',
             'forall(lambda j, j2: implies(0 <= j and j < j2 and j2 < len(result), result[j] < result[j2]))',
             '(len(result) < 2 or (result[0] < result[1] and result[1] < len(elems) and elems[result[1]] == pattern))',
             'forall(lambda i: implies(0 <= i and i < len(elems) and elems[i] == pattern, '
             'exists(lambda j: 0 <= j and j < len(result) and result[j] == i)))'])
CONTRACTS[(PATH, 'find_matching')].public_ensures = list(CONTRACTS[(PATH, 'find_matching')].ensures)

_NSEL = 'len(selected_chars)'
CONTRACTS[(PATH, DEC + 'get_reduced_last_chars')] = Contract(
    params={'self': 'obj:CTCPrefixLogRawNumpyDecoder', 'last_chars': 'nd1:real', 'selected_chars': 'nd1:int', 'impossible_index': 'int'},
    result=lambda ex, st, env: fresh_array((to_int(view_shape_of(st, env['last_chars'])),), 'int', 'reduced_last'),
    ensures=['len(result) == len(last_chars)',
             # the position of the last character among the selected ones, or the impossible index when it was not selected
             'forall(lambda p: implies(0 <= p and p < len(last_chars), '
             '(0 <= result[p] and result[p] < ' + _NSEL + ' and selected_chars[result[p]] == last_chars[p]) or '
             '(result[p] == impossible_index and forall(lambda j: implies(0 <= j and j < ' + _NSEL + ', selected_chars[j] != last_chars[p])))))'])
CONTRACTS[(PATH, DEC + 'get_reduced_last_chars')].public_ensures = list(CONTRACTS[(PATH, DEC + 'get_reduced_last_chars')].ensures)

_n = 'len(A_prev)'
_m = 'P_visual.shape[1]'
_PAR = 'len(A_prev[p]) > 0 and A_prev[q] == A_prev[p][:-1]'       # q holds the parent prefix of p
_RNG = '0 <= p and p < %s and 0 <= q and q < ' + _n
AJ_A1 = 'forall(lambda p, q: implies(' + _RNG + ' and ' + _PAR + ', isneginf(P_visual[q, last_chars[p]])))'
AJ_A2 = 'forall(lambda q, c: implies(0 <= q and q < ' + _n + ' and 0 <= c and c < ' + _m + ' - 1, P_visual[q, c] == %s or isneginf(P_visual[q, c])))'
AJ_A3 = ('forall(lambda q, c: implies(0 <= q and q < ' + _n + ' and 0 <= c and c < ' + _m + ' - 1 and isneginf(P_visual[q, c]) and not isneginf(%s), '
         'exists(lambda p: 0 <= p and p < %s and ' + _PAR + ' and last_chars[p] == c)))')
AJ_B1 = 'forall(lambda p, q: implies(' + _RNG + ' and ' + _PAR + ', P_visual[p, ' + _m + ' - 1] == logaddexp(%s, %s)))'
AJ_B2 = ('forall(lambda p: implies(0 <= p and p < %s and (len(A_prev[p]) == 0 or forall(lambda q: implies(0 <= q and q < ' + _n + ', A_prev[q] != A_prev[p][:-1]))), '
         'P_visual[p, ' + _m + ' - 1] == %s))')
AJ_NOPINF = 'forall(lambda q, c: implies(0 <= q and q < P_visual.shape[0] and 0 <= c and c < P_visual.shape[1], not isinf(P_visual[q, c])))'
CONTRACTS[(PATH, 'adjust_for_prefix_joining')] = Contract(
    params={'P_visual': 'nd2:xreal2', 'A_prev': 'seqof:list:int', 'last_chars': 'nd1:int'},
    result=lambda ex, st, env: None, modifies=['P_visual'],
    requires=['P_visual.shape[0] == ' + _n, 'len(last_chars) == ' + _n, _m + ' >= 2',
              'forall(lambda p: implies(0 <= p and p < ' + _n + ', 0 <= last_chars[p] and last_chars[p] < ' + _m + ' - 1))',
              # the beam holds pairwise distinct prefixes (this is what makes the run-time assert hold)
              'forall(lambda p, q: implies(0 <= p and p < q and q < ' + _n + ', A_prev[p] != A_prev[q]))',
              # the column of the impossible character carries no mass
              'forall(lambda q: implies(0 <= q and q < ' + _n + ', isneginf(P_visual[q, ' + _m + ' - 2])))',
              # two different children of one parent are reached through different columns, unless both are unreachable
              'forall(lambda p, p2: implies(0 <= p and p < ' + _n + ' and 0 <= p2 and p2 < ' + _n + ' and p != p2 and len(A_prev[p]) > 0 and len(A_prev[p2]) > 0 '
              'and A_prev[p][:-1] == A_prev[p2][:-1] and last_chars[p] == last_chars[p2], last_chars[p] == ' + _m + ' - 2))',
              AJ_NOPINF],
    no_raise=True,
    ensures=['P_visual.shape[0] == ' + _n, AJ_NOPINF,
             # the mass of "parent q extended by the last character of p" is moved to "p kept" and removed from q's row:
             AJ_A1 % _n, AJ_A2 % 'old(lambda: P_visual[q, c])', AJ_A3 % ('old(lambda: P_visual[q, c])', _n),
             AJ_B1 % (_n, 'old(lambda: P_visual[p, ' + _m + ' - 1])', 'old(lambda: P_visual[q, last_chars[p]])'),
             AJ_B2 % (_n, 'old(lambda: P_visual[p, ' + _m + ' - 1])')],
    loops={0: LoopSpec(counter='kk', ghost_init=['P0 = P_visual.copy()'], inv=[
        'P_visual.shape[0] == ' + _n + ' and P_visual.shape[1] == P0.shape[1] and P0.shape[0] == ' + _n,
        AJ_NOPINF, AJ_NOPINF.replace('P_visual[', 'P0['),
        AJ_A1 % 'kk', AJ_A2 % 'P0[q, c]', AJ_A3 % ('P0[q, c]', 'kk'),
        AJ_B1 % ('kk', 'P0[p, ' + _m + ' - 1]', 'P0[q, last_chars[p]]'), AJ_B2 % ('kk', 'P0[p, ' + _m + ' - 1]'),
        'forall(lambda p: implies(kk <= p and p < ' + _n + ', P_visual[p, ' + _m + ' - 1] == P0[p, ' + _m + ' - 1]))'])},
)

CONTRACTS[(PATH, 'adjust_for_prefix_joining')].public_ensures = list(CONTRACTS[(PATH, 'adjust_for_prefix_joining')].ensures)


def _res(shape_fn, dtype, base):
    def mk(ex, st, env):
        from pyvc.arrays import as_array
        arrs = {k: as_array(st, v) for k, v in env.items() if isinstance(v, (ArrayVal, NDRef))}
        shape = tuple(to_int(x) for x in shape_fn(arrs))
        return lib._new_buffer(st, fresh_array(shape, dtype, base), base)
    return mk


CONTRACTS[(PATH, DEC + 'compute_Pb')].result = _res(lambda a: (a['Pb_old'].shape[0],), 'xreal2', 'Pb_new')
CONTRACTS[(PATH, DEC + 'compute_Pnb')].result = _res(lambda a: (a['Pb_old'].shape[0], s_add(a['Pc'].shape[0], 1)), 'xreal2', 'Pnb_new')
CONTRACTS[(PATH, DEC + 'compute_Plm')].result = _res(lambda a: (a['Plm_old'].shape[0], s_add(a['lm_preds'].shape[1], 1)), 'real', 'Plm_new')
CONTRACTS[(PATH, DEC + 'get_reduced_Pc')].result = _res(lambda a: (s_add(a['selected_chars'].shape[0], 1),), 'xreal2', 'reduced_Pc')
for _k in ('compute_Pb', 'compute_Pnb', 'compute_Plm', 'get_reduced_Pc'):
    CONTRACTS[(PATH, DEC + _k)].public_ensures = list(CONTRACTS[(PATH, DEC + _k)].ensures)

CONTRACTS[(PATH, 'select_relevant_logits')] = Contract(
    params={'logits': 'nd1:xreal2'},
    # the default pre-selection satisfies the contract the decoder proof assumes of the configurable selector
    ensures=['forall(lambda j: implies(0 <= j and j < len(result[0]), 0 <= result[0][j] and result[0][j] < len(logits) and logits[result[0][j]] > -10))',
             'forall(lambda j, j2: implies(0 <= j and j < j2 and j2 < len(result[0]), result[0][j] < result[0][j2]))',
             'len(result[0]) <= len(logits)'])

CONTRACTS[(PATH, 'logprobs_max_deviation')] = Contract(
    params={'log_probs': 'nd2:real'},
    requires=['log_probs.shape[0] >= 1'],
    # the quantity compared with the tolerance: the largest distance of a row sum of exp(log_probs) from 1
    ensures=['forall(lambda i: implies(0 <= i and i < log_probs.shape[0], result >= ROWSUM(i) - 1 and result >= 1 - ROWSUM(i)))',
             'exists(lambda i: 0 <= i and i < log_probs.shape[0] and (result == ROWSUM(i) - 1 or result == 1 - ROWSUM(i)))'])

# ---------------------------------------------------------------------------------------------------
# the decoder loop: the beam always holds pairwise distinct prefixes

MS_PATH = 'pero_ocr/decoding/multisort.py'


def _topk_result(ex, st, env):
    k = to_int(env['k'])
    return (fresh_array((k,), 'int', 'top_rows'), fresh_array((k,), 'int', 'top_cols'))


# contract of multisort.top_k, PROVED from models of ravel / np.argpartition / np.unravel_index (pyvc.lib): for 1 <= k < a.size,
# top_k(a, k, reverse=True) returns k pairwise different cells of the 2-d array, each at least as large as every cell that is not
# returned.
CONTRACTS[(MS_PATH, 'top_k')] = Contract(
    params={'a': 'nd2:xreal2', 'k': 'int', 'reverse': 'const:True'}, result=_topk_result,
    theory=lambda ex, st: ({'NFINITE': SpecFunc(lambda x: z3.Int('n_finite_cells'), 'NFINITE')}, []),
    requires=['1 <= k', 'k < a.shape[0] * a.shape[1]', 'reverse == True'],
    lemmas=[
        # a cell whose position in the partition order is among the last k is one of the returned cells
        {'name': 'last-k-positions-are-returned',
         'stmt': 'forall(lambda r, c: implies(0 <= r and r < a.shape[0] and 0 <= c and c < a.shape[1] and PART_INV(FLAT_IDX(r, c)) >= len(flat) - k, '
                 'top_k_inds[PART_INV(FLAT_IDX(r, c)) - (len(flat) - k)] == FLAT_IDX(r, c) and '
                 'result[0][PART_INV(FLAT_IDX(r, c)) - (len(flat) - k)] == r and result[1][PART_INV(FLAT_IDX(r, c)) - (len(flat) - k)] == c))'},
        # hence a cell that is not returned sits before the pivot position
        {'name': 'unreturned-cells-precede-the-pivot',
         'stmt': 'forall(lambda r, c: implies(0 <= r and r < a.shape[0] and 0 <= c and c < a.shape[1] and '
                 'forall(lambda j2: implies(0 <= j2 and j2 < k, result[0][j2] != r or result[1][j2] != c)), PART_INV(FLAT_IDX(r, c)) < len(flat) - k))'},
        # ... so it is at most the pivot, and every returned cell is at least the pivot
        {'name': 'unreturned-cells-at-most-the-pivot',
         'stmt': 'forall(lambda r, c: implies(0 <= r and r < a.shape[0] and 0 <= c and c < a.shape[1] and PART_INV(FLAT_IDX(r, c)) < len(flat) - k, '
                 'a[r, c] <= flat[top_k_inds[0]]))'},
        {'name': 'returned-cells-at-least-the-pivot',
         'stmt': 'forall(lambda j: implies(0 <= j and j < k, flat[top_k_inds[0]] <= flat[top_k_inds[j]] and flat[top_k_inds[j]] == a[result[0][j], result[1][j]]))'},
    ],
    ensures=['len(result[0]) == k and len(result[1]) == k',
             'forall(lambda j: implies(0 <= j and j < k, 0 <= result[0][j] and result[0][j] < a.shape[0] and 0 <= result[1][j] and result[1][j] < a.shape[1]))',
             'forall(lambda j, j2: implies(0 <= j and j < j2 and j2 < k, result[0][j] != result[0][j2] or result[1][j] != result[1][j2]))',
             'forall(lambda j, r, c: implies(0 <= j and j < k and 0 <= r and r < a.shape[0] and 0 <= c and c < a.shape[1] and '
             'forall(lambda j2: implies(0 <= j2 and j2 < k, result[0][j2] != r or result[1][j2] != c)), a[r, c] <= a[result[0][j], result[1][j]]))',
             ])
# the pigeon-hole consequence of the four proved clauses (k pairwise different cells, each dominating every cell not returned, and at
# least k finite cells => no returned cell is -inf) is a counting argument outside SMT: it is stated for callers only and proved as
# lean/Pigeonhole.lean::topk_no_bot (checked by Lean in the thorough tier of C02)
PIGEONHOLE = 'implies(k <= NFINITE(a), forall(lambda j: implies(0 <= j and j < k, not isneginf(a[result[0][j], result[1][j]]))))'
CONTRACTS[(MS_PATH, 'top_k')].public_ensures = list(CONTRACTS[(MS_PATH, 'top_k')].ensures) + [PIGEONHOLE]


def _count_finite(ex, st, a, axis=None, **kw):
    """np.sum(np.isfinite(X)): an integer 0 <= NF <= X.size, visible to the contract of top_k as NFINITE(X)"""
    src = getattr(a, 'finite_of', None)
    if src is None:
        return lib.np_sum(ex, st, a, axis=axis, **kw)
    NF = z3.Int(fresh_name('n_finite'))
    st.assume(NF >= 0)
    from pyvc.arrays import as_array
    X = as_array(st, NDRef(src, a.src_dims))
    r, c = z3.Ints('r c')
    cell = to_xreal(X.get(r, c))
    size = to_int(X.shape[0]) * to_int(X.shape[1])
    # a count of finite cells: at most the size, and smaller than the size when some cell is not finite
    st.assume(NF <= size)
    st.assume(z3.Implies(z3.Exists([r, c], z3.And(r >= 0, r < to_int(X.shape[0]), c >= 0, c < to_int(X.shape[1]), z3.Or(cell.pinf, cell.ninf))),
                         NF <= size - 1))
    st.assume(z3.Implies(z3.Exists([r, c], z3.And(r >= 0, r < to_int(X.shape[0]), c >= 0, c < to_int(X.shape[1]), z3.Not(z3.Or(cell.pinf, cell.ninf)))),
                         NF >= 1))

    def nfinite(x):
        if isinstance(x, NDRef) and x.buf == src:
            return NF
        return z3.Int(fresh_name('n_finite_unknown'))
    ex.spec_funcs['NFINITE'] = SpecFunc(nfinite, 'NFINITE')
    ex.assumed.append('model: np.sum(np.isfinite(X)) is the number of finite cells of X')
    return NF


def _isfinite_tagged(ex, st, a, **kw):
    r = lib.np_isfinite(ex, st, a, **kw)
    if isinstance(a, NDRef):
        r.finite_of = a.buf
        r.src_dims = a.dims
    return r


def _selector(ex, st, obj, arr, *rest):
    """self.select_relevant_logits(row): ASSUMED contract of the configurable pre-selection: a 1-tuple holding strictly
    increasing positions of the row (the default np.nonzero(row > -10) satisfies it)"""
    from pyvc.arrays import as_array
    n = to_int(as_array(st, arr).shape[0])
    K = z3.Int(fresh_name('n_selected'))
    SEL = z3.Function(fresh_name('selected'), z3.IntSort(), z3.IntSort())
    j, j2 = z3.Ints('j j2')
    st.assume(z3.And(K >= 0, K <= n))
    st.assume(z3.ForAll([j], z3.Implies(z3.And(j >= 0, j < K), z3.And(SEL(j) >= 0, SEL(j) < n)), patterns=[SEL(j)]))
    st.assume(z3.ForAll([j, j2], z3.Implies(z3.And(j >= 0, j < j2, j2 < K), SEL(j) < SEL(j2)), patterns=[z3.MultiPattern(SEL(j), SEL(j2))]))
    ex.assumed.append('assumed contract: the pre-selection returns strictly increasing positions of the row it is given')
    return (ArrayVal((K,), lambda q: SEL(to_int(q)), 'int'),)


TRANSCRIPT = z3.Function('TRANSCRIPT', z3.SeqSort(z3.IntSort()), Val)


MAXDEV = z3.Real('MAXDEV_logits')


def _maxdev(ex, st, args, kwargs):
    return MAXDEV


def _join_hook(ex, st, name, base, args, kwargs):
    if name in ('join', 'call') and isinstance(st.env.get('prefix'), SeqVal):
        ex.assumed.append('opaque: the transcript string is a function TRANSCRIPT(prefix) of the list of symbol indices')
        return TRANSCRIPT(st.env['prefix'].s)
    return NotImplemented


def _build_boh(ex, st, args, kwargs):
    ex.assumed.append('opaque: build_boh(transcripts, scores, lm scores) builds the bag from its arguments (contracts of the bag: C03/C16)')
    return ObjRef(z3.Int(fresh_name('bag')), 'BagOfHypotheses')


def ctc_theory(ex, st):
    """CTCB(t, w) / CTCNB(t, w): log-probability that the first t frames emit prefix w and end in blank / in the last symbol of w —
    the textbook prefix-probability recurrences (Graves); CTC(w) = CTCB(T, w) (+) CTCNB(T, w).  Values are reals or -inf."""
    from pyvc.arrays import as_array
    X = as_array(st, st.env['logits'])
    blank = to_int(X.shape[1]) - 1
    SEQ = z3.SeqSort(z3.IntSort())
    Bn = z3.Function('CTCB_ninf', z3.IntSort(), SEQ, z3.BoolSort())
    Bv = z3.Function('CTCB_val', z3.IntSort(), SEQ, z3.RealSort())
    Nn = z3.Function('CTCNB_ninf', z3.IntSort(), SEQ, z3.BoolSort())
    Nv = z3.Function('CTCNB_val', z3.IntSort(), SEQ, z3.RealSort())

    def sq(w):
        return w.s if isinstance(w, SeqVal) else w

    def B(t, w):
        return XReal(False, Bn(to_int(t), sq(w)), Bv(to_int(t), sq(w)))

    def NB(t, w):
        return XReal(False, Nn(to_int(t), sq(w)), Nv(to_int(t), sq(w)))

    def last(ws):
        return ws[z3.Length(ws) - 1]

    def b_def(t, w):
        t, ws = to_int(t), sq(w)
        step = s_add(lib.s_lae(B(t - 1, ws), NB(t - 1, ws)), X.get(t - 1, blank))
        return z3.And(z3.Implies(t >= 1, to_z3(s_eq(B(t, ws), step))),
                      z3.Implies(t == 0, z3.And(Bn(0, ws) == (z3.Length(ws) != 0), Bv(0, ws) == 0)))

    def ext(t, w, c):
        # frame t+1 emits c after prefix w: from blank always, from non-blank only if w does not already end in c
        # (log domain: the product with the frame probability is distributed over the sum)
        t, ws, c = to_int(t), sq(w), to_int(c)
        xc = X.get(t, c)
        return lib.s_lae(s_add(B(t, ws), xc), ite(z3.Or(z3.Length(ws) == 0, last(ws) != c), s_add(NB(t, ws), xc), NINF))

    def nb_def(t, w):
        t, ws = to_int(t), sq(w)
        c = last(ws)
        w1 = z3.SubSeq(ws, 0, z3.Length(ws) - 1)
        step = lib.s_lae(s_add(NB(t - 1, ws), X.get(t - 1, c)), ext(t - 1, w1, c))
        return z3.And(z3.Implies(z3.And(t >= 1, z3.Length(ws) >= 1), to_z3(s_eq(NB(t, ws), step))),
                      z3.Implies(z3.Or(t == 0, z3.Length(ws) == 0), Nn(t, ws)))
    x, y, x2, y2 = z3.Reals('x y x2 y2')
    mono = (['LAE'], z3.ForAll([x, y, x2, y2], z3.Implies(z3.And(x <= x2, y <= y2), lib.LAEF(x, y) <= lib.LAEF(x2, y2)),
                               patterns=[z3.MultiPattern(lib.LAEF(x, y), lib.LAEF(x2, y2))]))
    ex.assumed.append('spec: CTCB/CTCNB are the textbook CTC prefix-probability recurrences; that CTCB(T,w) (+) CTCNB(T,w) is the log-sum over '
                      'all alignments collapsing to w is validated by specs/ctc.py against enumeration, not proved')
    ex.assumed.append('model: logaddexp is monotone in both arguments')
    return {'MAXDEV': MAXDEV, 'NFINITE': SpecFunc(lambda x_: z3.Int(fresh_name('n_finite_unknown')), 'NFINITE'),
            'CTCB': SpecFunc(B, 'CTCB', defn=b_def), 'CTCNB': SpecFunc(NB, 'CTCNB', defn=nb_def),
            'CTCEXT': SpecFunc(ext, 'CTCEXT'),
            'CTC': SpecFunc(lambda w: lib.s_lae(B(to_int(X.shape[0]), w), NB(to_int(X.shape[0]), w)), 'CTC')}, list(lib.LAE_AXIOMS) + [mono]


_np = 'len(prefixes)'
INV_DISTINCT = 'forall(lambda p, q: implies(0 <= p and p < q and q < ' + _np + ', prefixes[p] != prefixes[q]))'
_SZ = ['n', 'lenPb', 'lenPnb', 'lenlast']
INV_CHARS = ('forall(lambda p, i: implies(0 <= p and p < ' + _np + ' and 0 <= i and i < len(prefixes[p]), '
             '0 <= prefixes[p][i] and prefixes[p][i] < logits.shape[1] - 1))')
INV_LAST = 'forall(lambda p: implies(0 <= p and p < ' + _np + ' and len(prefixes[p]) > 0, last_chars[p] == prefixes[p][len(prefixes[p]) - 1]))'
CONTRACTS[(PATH, DEC + '__call__')] = Contract(
    params={'self': 'obj:CTCPrefixLogRawNumpyDecoder', 'logits': 'nd2:xreal2', 'model_eos': 'const:False', 'max_unnormalization': 'real',
            'return_h': 'const:False', 'init_h': 'const:None'},
    fields={'_lm': 'opt:val', '_k': 'int', '_blank_ind': 'int', '_lm_scale': 'real', '_letters': 'val', 'symbol_separator': 'val'},
    ghosts={'CTCPrefixLogRawNumpyDecoder.LOG_ZERO_PROBABILITY': _neginf_field, 'method:select_relevant_logits': _selector,
            'lib:np.sum': _count_finite, 'lib:np.isfinite': _isfinite_tagged,
            'truthy:_lm': True, 'listvars': {'prefixes': seq_codec(IntCodec)}, 'opaque_model:logprobs_max_deviation': _maxdev,
            'opaque_hook': _join_hook, 'opaque_model:build_boh': _build_boh},
    inline=['update_lm_things'], opaque=['logprobs_max_deviation', 'build_boh'],
    ghost_at={'total_Pnb = self.compute_Pnb(': [
        'Pnb0 = total_Pnb.copy()',
        # U1: extension of prefix l by the selected character j, before joining
        'assert forall(lambda l, j: implies(0 <= l and l < len(prefixes) and 0 <= j and j < len(selected_chars), '
        'Pnb0[l, j] <= CTCEXT(tt, prefixes[l], selected_chars[j])))',
        # U2: prefix l kept with its last character repeated, before joining
        'assert forall(lambda l: implies(0 <= l and l < len(prefixes) and len(prefixes[l]) >= 1, '
        'Pnb0[l, Pnb0.shape[1] - 1] <= CTCNB(tt, prefixes[l]) + Pc[prefixes[l][len(prefixes[l]) - 1]]))',
        'assert forall(lambda l: implies(0 <= l and l < len(prefixes) and len(prefixes[l]) == 0, isneginf(Pnb0[l, Pnb0.shape[1] - 1])))',
    ], 'adjust_for_prefix_joining(total_Pnb': [
        # U3: joining only removes mass from the extension columns
        'assert forall(lambda l, j: implies(0 <= l and l < len(prefixes) and 0 <= j and j < total_Pnb.shape[1] - 1, total_Pnb[l, j] <= Pnb0[l, j]))',
        # U4: the kept prefix after joining is bounded by its non-blank prefix probability one frame later
        'assert forall(lambda l: implies(0 <= l and l < len(prefixes) and len(prefixes[l]) == 0, isneginf(total_Pnb[l, total_Pnb.shape[1] - 1])))',
        'assert forall(lambda l: implies(0 <= l and l < len(prefixes) and len(prefixes[l]) >= 1, '
        'total_Pnb[l, total_Pnb.shape[1] - 1] <= CTCNB(tt + 1, prefixes[l])))',
    ], 'best_inds = top_k(': [
        'cells = best_inds',
        'assert len(cells[0]) >= 1',
        'assert forall(lambda j: implies(0 <= j and j < len(cells[0]), not isneginf(total_P[cells[0][j], cells[1][j]])))',
        # the column of the impossible character is never chosen
        'assert forall(lambda j: implies(0 <= j and j < len(cells[0]), cells[1][j] != total_P.shape[1] - 2))',
        # a chosen extension never re-creates a prefix that is already in the beam (its mass was moved there by adjust_for_prefix_joining)
        'assert forall(lambda j, p: implies(0 <= j and j < len(cells[0]) and 0 <= p and p < len(prefixes) and cells[1][j] < total_P.shape[1] - 2 '
        'and len(prefixes[p]) > 0 and prefixes[cells[0][j]] == prefixes[p][:-1], prefixes[p][len(prefixes[p]) - 1] != selected_chars[cells[1][j]]))',
    ], 'best_inds = (best_inds[0],': [
        # the chosen cells translated to characters: blank (keep) or a real, selected character
        'assert forall(lambda j: implies(0 <= j and j < len(best_inds[1]), best_inds[1][j] == self._blank_ind or '
        '(0 <= best_inds[1][j] and best_inds[1][j] < logits.shape[1] - 1)))',
    ]},
    theory=ctc_theory,
    raises={'ValueError': 'MAXDEV > max_unnormalization'}, ensures_exc={'ValueError': 'MAXDEV > max_unnormalization'},
    requires=['self._lm is None', 'self._k >= 1', 'logits.shape[1] >= 1', 'self._blank_ind == logits.shape[1] - 1',
              # no +inf log-probability (implied by the normalisation check, which is opaque here)
              'forall(lambda t, c: implies(0 <= t and t < logits.shape[0] and 0 <= c and c < logits.shape[1], not isinf(logits[t, c])))',
              # ASSUMPTION on the input: blank has non-zero probability in every frame (otherwise a frame can leave no finite candidate)
              'forall(lambda t: implies(0 <= t and t < logits.shape[0], not isneginf(logits[t, logits.shape[1] - 1])))'],
    ensures=[INV_DISTINCT, INV_CHARS, 'len(Pom) == ' + _np,
             # never over-counts: the visual score of a returned prefix is at most its CTC log-probability
             'forall(lambda p: implies(0 <= p and p < ' + _np + ', Pom[p] <= CTC(prefixes[p])))'],
    loops={0: LoopSpec(counter='tt', types={'Plm': 'none', 'h_prev': 'none'}, inv=[
        ('n', _np + ' >= 1'), ('lenPb', 'len(Pb) == ' + _np), ('lenPnb', 'len(Pnb) == ' + _np), ('lenlast', 'len(last_chars) == ' + _np),
        ('nopinfPb', NOPINF % ('Pb', 'Pb')), ('nopinfPnb', NOPINF % ('Pnb', 'Pnb')),
        # every prefix of the beam has non-zero probability
        ('alive', 'forall(lambda p: implies(0 <= p and p < ' + _np + ', not (isneginf(Pb[p]) and isneginf(Pnb[p]))))'),
        ('distinct', INV_DISTINCT), ('last', INV_LAST), ('chars', INV_CHARS),
        ('tt', 'tt <= logits.shape[0]'),
        ('ubPb', 'forall(lambda p: implies(0 <= p and p < ' + _np + ', Pb[p] <= CTCB(tt, prefixes[p])))'),
        ('ubPnb', 'forall(lambda p: implies(0 <= p and p < ' + _np + ', Pnb[p] <= CTCNB(tt, prefixes[p])))')],
        uses={'distinct': _SZ + ['distinct', 'last'], 'last': _SZ + ['last'], 'chars': _SZ + ['chars'],
              'alive': _SZ + ['alive', 'nopinfPb', 'nopinfPnb'], 'nopinfPb': _SZ + ['nopinfPb', 'nopinfPnb'], 'nopinfPnb': _SZ + ['nopinfPb', 'nopinfPnb']})},
)

# ---------------------------------------------------------------------------------------------------
# language-model bookkeeping (property C03, first clause): the LM is a family of uninterpreted functions

LM_ADV = z3.Function('LM_advance', Val, z3.IntSort(), Val)            # state after reading one more symbol
LM_LP = z3.Function('LM_logprob', Val, z3.IntSort(), z3.RealSort())    # score of a symbol in a state
LM_EOS = z3.Function('LM_eos', Val, z3.RealSort())
LM_H0 = z3.Const('LM_initial_state', Val)
NLM = z3.Int('n_lm_symbols')


def _lm_hook(ex, st, name, base, args, kwargs):
    """ASSUMED contract of the language-model object: initial_h / log_probs / advance_h0 / eos_scores act item-wise on a batch of
    states (no interaction between the items of a batch) and are deterministic functions of the state (and the symbol)"""
    from pyvc.arrays import as_array
    if name == 'initial_h':
        ex.assumed.append('assumed LM contract: initial_h(1) returns one initial state')
        return lib._new_buffer(st, ArrayVal((1,), lambda i: LM_H0, 'val'), 'h0')
    if name == 'log_probs':
        h = as_array(st, args[0])
        ex.assumed.append('assumed LM contract: log_probs(h)[p, c] is a function of the state h[p] and the symbol c (item-wise), with one column per non-blank symbol')
        return lib._new_buffer(st, ArrayVal((h.shape[0], NLM), lambda p, c: LM_LP(h.get(p), to_int(c)), 'real'), 'lm_preds')
    if name == 'advance_h0':
        cs, hs = as_array(st, args[0]), as_array(st, args[1])
        ex.emit(st, 'shape', to_z3(s_eq(cs.shape[0], hs.shape[0])), None, 'advance_h0: one symbol per state')
        ex.assumed.append('assumed LM contract: advance_h0(x, h)[p] is a function of the state h[p] and the symbol x[p] (item-wise)')
        return lib._new_buffer(st, ArrayVal((hs.shape[0],), lambda p: LM_ADV(hs.get(p), to_int(cs.get(p))), 'val'), 'h_adv')
    if name == 'eos_scores':
        h = as_array(st, args[0])
        ex.assumed.append('assumed LM contract: eos_scores(h)[p] is a function of the state h[p]')
        return lib._new_buffer(st, ArrayVal((h.shape[0],), lambda p: LM_EOS(h.get(p)), 'real'), 'eos')
    return _join_hook(ex, st, name, base, args, kwargs)


def _ulm_result(ex, st, env):
    from pyvc.arrays import as_array
    n = to_int(as_array(st, env['best_inds_l'][1]).shape[0])
    return (lib._new_buffer(st, fresh_array((n,), 'val', 'h_new'), 'h_new'),
            lib._new_buffer(st, fresh_array((n, NLM), 'real', 'lm_preds_new'), 'lm_preds_new'))


_NBL = 'len(best_inds_l[1])'
CONTRACTS[(PATH, 'update_lm_things')] = Contract(
    params={'lm': 'val', 'h_prev': 'nd1:val', 'lm_preds': 'nd2:real', 'best_inds_l': _best_inds, 'blank_ind': 'int'},
    ghosts={'opaque_hook': _lm_hook, 'truthy_val': True}, result=_ulm_result,
    theory=lambda ex, st: ({'LM_ADV': SpecFunc(lambda h, c: LM_ADV(h, to_int(c))), 'LM_LP': SpecFunc(lambda h, c: LM_LP(h, to_int(c))), 'NLM': NLM}, []),
    requires=['lm_preds.shape[0] == len(h_prev)', 'lm_preds.shape[1] == NLM', 'NLM >= 0',
              'forall(lambda i: implies(0 <= i and i < ' + _NBL + ', 0 <= best_inds_l[0][i] and best_inds_l[0][i] < len(h_prev)))'],
    ensures=['len(result[0]) == ' + _NBL, 'result[1].shape[0] == ' + _NBL + ' and result[1].shape[1] == NLM',
             # a new prefix gets the advanced state of its parent and that state's predictions ...
             'forall(lambda i: implies(0 <= i and i < ' + _NBL + ' and best_inds_l[1][i] != blank_ind, '
             'result[0][i] == LM_ADV(h_prev[best_inds_l[0][i]], best_inds_l[1][i])))',
             'forall(lambda i, c: implies(0 <= i and i < ' + _NBL + ' and best_inds_l[1][i] != blank_ind and 0 <= c and c < NLM, '
             'result[1][i, c] == LM_LP(LM_ADV(h_prev[best_inds_l[0][i]], best_inds_l[1][i]), c)))',
             # ... a kept prefix keeps its state and predictions
             'forall(lambda i: implies(0 <= i and i < ' + _NBL + ' and best_inds_l[1][i] == blank_ind, result[0][i] == h_prev[best_inds_l[0][i]]))',
             'forall(lambda i, c: implies(0 <= i and i < ' + _NBL + ' and best_inds_l[1][i] == blank_ind and 0 <= c and c < NLM, '
             'result[1][i, c] == lm_preds[best_inds_l[0][i], c]))'],
)
CONTRACTS[(PATH, 'update_lm_things')].public_ensures = list(CONTRACTS[(PATH, 'update_lm_things')].ensures)

def lm_theory(ex, st):
    """HSTATE(w): the LM state reached from the start state by reading w;  LMS(w): the LM's own score of w — the sum over the
    symbols of w of (score of the symbol in the state reached before it + insertion bonus)"""
    names, axioms = ctc_theory(ex, st)
    SEQ = z3.SeqSort(z3.IntSort())
    HS = z3.Function('LM_state_of', SEQ, Val)
    LMSf = z3.Function('LM_score_of', SEQ, z3.RealSort())
    bonus = ex.getattr(st.env['self'], '_insertion_bonus', st, None)
    sq = lambda w: w.s if isinstance(w, SeqVal) else w
    last = lambda ws: ws[z3.Length(ws) - 1]
    init = lambda ws: z3.SubSeq(ws, 0, z3.Length(ws) - 1)

    def hs_def(w):
        ws = sq(w)
        return z3.And(z3.Implies(z3.Length(ws) == 0, HS(ws) == LM_H0),
                      z3.Implies(z3.Length(ws) >= 1, HS(ws) == LM_ADV(HS(init(ws)), last(ws))))

    def lms_def(w):
        ws = sq(w)
        return z3.And(z3.Implies(z3.Length(ws) == 0, LMSf(ws) == 0),
                      z3.Implies(z3.Length(ws) >= 1, LMSf(ws) == LMSf(init(ws)) + LM_LP(HS(init(ws)), last(ws)) + bonus))
    names.update({'HSTATE': SpecFunc(lambda w: HS(sq(w)), 'HSTATE', defn=hs_def), 'LMS': SpecFunc(lambda w: LMSf(sq(w)), 'LMS', defn=lms_def),
                  'LM_ADV': SpecFunc(lambda h, c: LM_ADV(h, to_int(c))), 'LM_LP': SpecFunc(lambda h, c: LM_LP(h, to_int(c))), 'LM_EOS': SpecFunc(lambda h: LM_EOS(h)), 'NLM': NLM})
    return names, axioms


import copy as _copy
_base = CONTRACTS[(PATH, DEC + '__call__')]
_lmc = _copy.copy(_base)
_lmc.params = dict(_base.params, model_eos='bool', return_h='bool')
_lmc.fields = dict(_base.fields, _insertion_bonus='real')
_lmc.ghosts = dict(_base.ghosts, opaque_hook=_lm_hook)
_lmc.inline = set()
_lmc.theory = lm_theory
_lmc.requires = ['self._lm is not None', 'NLM == logits.shape[1] - 1'] + [r for r in _base.requires if r != 'self._lm is None']
_lmc.ensures = list(_base.ensures) + [
    'len(Plm) == ' + _np,
    # the LM score of every returned prefix is the LM's own score of it (+ the end-of-line score when requested), whatever the route
    'forall(lambda p: implies(0 <= p and p < ' + _np + ', Plm[p] == LMS(prefixes[p]) + ite(model_eos, LM_EOS(HSTATE(prefixes[p])), 0)))',
    'forall(lambda p: implies(0 <= p and p < ' + _np + ', h_prev[p] == HSTATE(prefixes[p])))',
]
_lmc.ghost_at = dict(_base.ghost_at)
_lmc.ghost_at['idx_of_best = np.argmax('] = [
    # the state handed on for the next line is the state of the hypothesis maximising visual score + scale * LM score
    'assert 0 <= idx_of_best and idx_of_best < ' + _np,
    'assert forall(lambda p: implies(0 <= p and p < ' + _np + ', Pom[p] + Plm[p] * self._lm_scale <= Pom[idx_of_best] + Plm[idx_of_best] * self._lm_scale))',
    'assert h_prev[idx_of_best] == HSTATE(prefixes[idx_of_best])',
]
_l0 = _base.loops[0]
_lmc.loops = {0: LoopSpec(counter='tt', inv=list(zip(_l0.inv_names, _l0.inv)) + [
    ('lenPlm', 'len(Plm) == ' + _np), ('lenh', 'len(h_prev) == ' + _np),
    ('shapelm', 'lm_preds.shape[0] == ' + _np + ' and lm_preds.shape[1] == NLM'),
    ('hstate', 'forall(lambda p: implies(0 <= p and p < ' + _np + ', h_prev[p] == HSTATE(prefixes[p])))'),
    ('lmpreds', 'forall(lambda p, c: implies(0 <= p and p < ' + _np + ' and 0 <= c and c < NLM, lm_preds[p, c] == LM_LP(h_prev[p], c)))'),
    ('plm', 'forall(lambda p: implies(0 <= p and p < ' + _np + ', Plm[p] == LMS(prefixes[p])))')],
    uses=dict(_l0.uses, hstate=_SZ + ['lenh', 'hstate'], lmpreds=_SZ + ['lenh', 'shapelm', 'lmpreds'],
              plm=_SZ + ['lenPlm', 'lenh', 'shapelm', 'hstate', 'lmpreds', 'plm']))}
CONTRACTS[(PATH, DEC + '__call__', 'lm')] = _lmc

def _lad(names, sizes=(1, 2, 3)):
    return [dict((n, v) for n in names) for v in sizes]


# ground-instance ladders (refutation of changed code only): every size symbol of the function is pinned
_LADDERS = {
    'get_continuation_mask': [dict(nb_prefixes=a, nb_chars=b, last_chars_shape0=a) for a, b in ((1, 1), (2, 2), (2, 3))],
    DEC + 'compute_Pb': _lad(['Pb_old_shape0', 'Pnb_old_shape0']),
    DEC + 'compute_Pnb': [dict(Pb_old_shape0=a, Pnb_old_shape0=a, last_chars_shape0=a, Pc_shape0=b) for a, b in ((1, 1), (2, 2), (2, 3))],
    DEC + 'compute_Plm': [dict(Plm_old_shape0=a, lm_preds_shape0=a, lm_preds_shape1=b) for a, b in ((1, 1), (2, 2))],
    DEC + 'get_reduced_Pc': [dict(Pc_shape0=a, selected_chars_shape0=b) for a, b in ((1, 1), (2, 1), (3, 2))],
    DEC + 'get_reduced_last_chars': [dict(last_chars_shape0=a, selected_chars_shape0=b) for a, b in ((1, 1), (2, 1), (2, 2))],
    'get_new_prefixes_positions': _lad(['n_best']), 'get_old_prefixes_positions': _lad(['n_best']),
    'find_new_prefixes': [dict(n_best=a, len_A_prev=b, prev_l_last_shape0=b) for a, b in ((1, 1), (2, 1), (2, 2), (3, 2))],
    'find_matching': _lad(['len_elems']),
    'adjust_for_prefix_joining': [dict(len_A_prev=a, P_visual_shape0=a, last_chars_shape0=a, P_visual_shape1=b) for a, b in ((1, 2), (2, 2), (2, 3), (3, 3))],
}
for _k, _v in _LADDERS.items():
    CONTRACTS[(PATH, _k)].ladder = _v

KEYS = [(MS_PATH, 'top_k')] + [(PATH, k) for k in ('select_relevant_logits', 'logprobs_max_deviation', 'get_new_prefixes_positions', 'get_old_prefixes_positions', 'find_new_prefixes', 'find_matching',
                             'adjust_for_prefix_joining', DEC + '__call__', DEC + 'get_reduced_last_chars', 'get_continuation_mask',
                             DEC + 'compute_Pb', DEC + 'compute_Pnb', DEC + 'get_reduced_Pc')]
# language-model bookkeeping (C03)
KEYS_LM = [(PATH, DEC + 'compute_Plm'), (PATH, 'update_lm_things'), (PATH, DEC + '__call__', 'lm')]
