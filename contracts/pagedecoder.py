"""Non-interference obligations for PageDecoder.process_page (property C08), generated from the real source.

mutable attributes M = attributes of the class assigned outside __init__ (found syntactically on every run).
(a) RESET: for every attribute in M that the line loop may read, either its value at the loop head is independent of the
    value it had when process_page was entered (it is *carried* across lines but reset per page), or it is put in the set U
    of history-dependent attributes (statistics counters).
(b) FLOW: one iteration of the loop, executed symbolically from an arbitrary head state: the transcription written to the
    line, the carried attributes after the iteration and every branch condition are invariant under replacing the head
    values of the attributes in U (and the clock) by arbitrary other values.
(a)+(b) give by induction over the lines: transcriptions of a page are a function of the page and the immutable
configuration only.  Opaque calls (decoder, LM, logits preparation) are pure functions of their arguments (A6).
"""
import ast
import z3
from pyvc import extract, sym, run as vrun
from pyvc.engine import Contract, LoopSpec, Exec, State, VC, Outcome
from pyvc.sym import *

PP = 'pero_ocr/document_ocr/page_parser.py'
CLS = 'PageDecoder'

NONEMPTY = z3.Function('STR_nonempty', Val, z3.BoolSort())
NLINES = z3.Int('n_lines')
LINE = z3.Function('PAGE_LINE', z3.IntSort(), z3.IntSort())


def class_node(root):
    module, src = extract.parse_module(PP, root)
    for n in module.body:
        if isinstance(n, ast.ClassDef) and n.name == CLS:
            return n
    raise KeyError(CLS)


def mutable_attrs(cls):
    """attributes assigned (self.X = / self.X op=) in any method other than __init__"""
    out = {}
    for m in cls.body:
        if isinstance(m, ast.FunctionDef) and m.name != '__init__':
            for n in ast.walk(m):
                tg = n.targets if isinstance(n, ast.Assign) else ([n.target] if isinstance(n, (ast.AugAssign, ast.AnnAssign)) else [])
                for t in tg:
                    for e in ast.walk(t):
                        if isinstance(e, ast.Attribute) and isinstance(e.value, ast.Name) and e.value.id == 'self' and isinstance(e.ctx, ast.Store):
                            out.setdefault(e.attr, set()).add(m.name)
    return out


def init_attrs(cls):
    out = set()
    for m in cls.body:
        if isinstance(m, ast.FunctionDef) and m.name == '__init__':
            for n in ast.walk(m):
                if isinstance(n, ast.Attribute) and isinstance(n.value, ast.Name) and n.value.id == 'self' and isinstance(n.ctx, ast.Store):
                    out.add(n.attr)
    return out


def frame_scan(root):
    """every class of the page-processing stages: attributes assigned outside __init__, and module-level RNG reads"""
    res = {}
    for path in ('pero_ocr/document_ocr/page_parser.py', 'pero_ocr/decoding/decoders.py', 'pero_ocr/decoding/lm_wrapper.py',
                 'pero_ocr/layout_engines/layout_helpers.py', 'pero_ocr/layout_engines/cnn_layout_engine.py'):
        try:
            module, src = extract.parse_module(path, root)
        except Exception:
            continue
        for n in module.body:
            if isinstance(n, ast.ClassDef):
                m = {k: sorted(v) for k, v in mutable_attrs(n).items()}
                if m:
                    res['%s::%s' % (path, n.name)] = m
        rng = sorted({ast.unparse(c.func) for c in ast.walk(module) if isinstance(c, ast.Call) and isinstance(c.func, ast.Attribute)
                      and ast.unparse(c.func).startswith(('random.', 'np.random.'))})
        if rng:
            res['%s::<module RNG reads>' % path] = rng
    return res


FIELD_SORTS = {'last_h': 'opt:val', 'last_line': 'opt:val', 'lines_examined': 'int', 'lines_decoded': 'int',
               'seconds_decoding': 'real', 'line_confidence_threshold': 'opt:real', 'continue_lines': 'bool', 'decoder': 'val',
               'transcription': 'opt:val', 'logits': 'opt:val', 'id': 'val'}


def _lines_iterator(ex, st, obj):
    return ArrayVal((NLINES,), lambda i: ObjRef(LINE(to_int(i)), 'TextLine'), 'obj')


def _decode_line(ex, st, obj, *args):
    return ex.call_inline((PP, CLS + '.decode_line'), [obj] + list(args), {}, st, None)


def _opaque_hook(ex, st, name, base, args, kwargs):
    if name == 'call' and 'return_h' in kwargs:
        # decoder(logits, return_h=True, init_h=h) -> (hypotheses, last_h)
        zargs = ex.opaque_args([base] + list(args) + [kwargs[k] for k in sorted(kwargs)])
        f1 = z3.Function('OPQ_decoder_hyps', *[a.sort() for a in zargs], Val)
        f2 = z3.Function('OPQ_decoder_state', *[a.sort() for a in zargs], Val)
        ex.assumed.append('opaque: the decoder is a pure function of (logits, init_h)')
        return (f1(*zargs), f2(*zargs))
    return NotImplemented


def _line_confident(ex, st, args, kwargs):
    zargs = ex.opaque_args(args)
    f = z3.Function('OPQ_line_confident_enough', *[a.sort() for a in zargs], z3.BoolSort())
    return f(*zargs)


def _prepare(ex, st, args, kwargs):
    zargs = ex.opaque_args([ex.getattr(args[0], 'logits', st, None)])
    return z3.Function('OPQ_prepare_dense_logits', *[a.sort() for a in zargs], Val)(*zargs)


def make_contract():
    return Contract(
        params={'self': 'obj:PageDecoder', 'page_layout': 'obj:PageLayout', 'line': 'obj:TextLine'},
        fields=dict(FIELD_SORTS), inline=['decode_line'], opaque=['line_confident_enough', 'prepare_dense_logits'],
        ghosts={'method:lines_iterator': _lines_iterator, 'inline_method:decode_line': (PP, CLS + '.decode_line'), 'opaque_hook': _opaque_hook,
                'opaque_model:line_confident_enough': _line_confident, 'opaque_model:prepare_dense_logits': _prepare,
                'truthy:last_line': lambda payload: NONEMPTY(payload), 'truthy:last_h': True},
        loops={})


def flat(v):
    if isinstance(v, OptVal):
        # the payload of an optional value is irrelevant while it is None
        return [v.is_none] + [z3.If(v.is_none, z3.Const('NIL', t.sort()), t) for t in flat(v.some)]
    if isinstance(v, ObjRef):
        return [v.r]
    if isinstance(v, XReal):
        return [v.pinf, v.ninf, v.val]
    if is_z3(v):
        return [v]
    if v is None or isinstance(v, (bool, int, float, str)):
        return []
    if isinstance(v, tuple):
        return [x for y in v for x in flat(y)]
    raise Unsupported('cannot flatten %r' % (v,))


def heap_consts(st, fields):
    out = []
    for f in fields:
        if f in st.heap:
            arr = st.heap[f][0]
            out += list(arr) if isinstance(arr, tuple) else [arr]
    return out


def reports(root):
    sym.reset_names()
    rep = vrun.FnReport((PP, CLS + '.process_page'))
    try:
        info = extract.get_function(PP, CLS + '.process_page', root)
        rep.info = info
        cls = class_node(root)
        mut = mutable_attrs(cls)
        M = sorted(mut)
        ex = Exec(info, make_contract(), {}, name=CLS + '.process_page')
        st = State()
        self_obj = ObjRef(z3.Int('self'), CLS)
        page = ObjRef(z3.Int('page_layout'), 'PageLayout')
        st.env = {'self': self_obj, 'page_layout': page}
        st.assume(NLINES >= 0)
        for f in M:
            ex.getattr(self_obj, f, st, None)          # materialise the entry heap arrays of the mutable attributes
        entry_consts = heap_consts(st, M)
        ex.entry = st.copy()
        body = info.node.body
        loops = [i for i, s in enumerate(body) if isinstance(s, ast.For)]
        if len(loops) != 1:
            raise Unsupported('process_page is expected to contain exactly one top-level line loop (found %d)' % len(loops))
        pre, loop, post = body[:loops[0]], body[loops[0]], body[loops[0] + 1:]
        outs = ex.exec_block([s for s in pre if not (isinstance(s, ast.Expr) and isinstance(s.value, ast.Constant))], st)
        if len(outs) != 1 or outs[0][1] is not None:
            raise Unsupported('statements before the line loop branch or return')
        head = outs[0][0]
        primes = [(c, z3.Const(c.decl().name() + '__other', c.sort())) for c in entry_consts]
        # which mutable attributes does the loop body (incl. decode_line) read?
        dl = extract.get_function(PP, CLS + '.decode_line', root)
        reads = set()
        for tree in (loop, dl.node):
            for n in ast.walk(tree):
                if isinstance(n, ast.Attribute) and isinstance(n.value, ast.Name) and n.value.id == 'self' and isinstance(n.ctx, ast.Load):
                    reads.add(n.attr)
        carried, U = [], []
        vcs = []
        for f in M:
            v = flat(ex.getattr(self_obj, f, head, None))
            dep = [t for t in v if not z3.eq(z3.simplify(z3.substitute(t, *primes)), z3.simplify(t))]
            if not dep:
                carried.append(f)
                vc = VC('%s.process_page/reset:%s@L%d' % (CLS, f, loop.lineno), 'reset', list(head.pc), z3.BoolVal(True), loop.lineno, rep.name,
                        'value of self.%s at the head of the line loop does not depend on the state the decoder had on entry' % f)
                vc.result, vc.solver, vc.ms = 'unsat', 'simplifier', 0
                vcs.append(vc)
            else:
                U.append(f)
        rep.extra = {'mutable_attributes': {k: sorted(v) for k, v in mut.items()}, 'carried_and_reset': carried, 'history_dependent': U}
        # (b) one arbitrary iteration from an arbitrary head state
        it = State()
        it.env = {'self': self_obj, 'page_layout': page}
        line = ObjRef(z3.Int('line'), 'TextLine')
        for f in M:
            ex.getattr(self_obj, f, it, None)
        u_consts = heap_consts(it, U)
        ex.entry = it.copy()
        ex.assign(loop.target, line, it)
        paths = ex.exec_block(loop.body, it)
        per_attr = {f: [] for f in sorted(reads & set(M)) if f in U}
        for k, (s2, oc) in enumerate(paths):
            clocks = []
            seen = set()
            todo = list(s2.pc)
            outs_terms = flat(ex.getattr(line, 'transcription', s2, None))
            for f in carried:
                outs_terms += flat(ex.getattr(self_obj, f, s2, None))
            # clock symbols
            stack = list(s2.pc) + outs_terms
            while stack:
                t = stack.pop()
                if t.get_id() in seen:
                    continue
                seen.add(t.get_id())
                if z3.is_const(t) and t.decl().kind() == z3.Z3_OP_UNINTERPRETED and t.decl().name().startswith('clock!'):
                    clocks.append(t)
                stack.extend(t.children())
            subs = [(c, z3.Const(c.decl().name() + '__other', c.sort())) for c in u_consts + clocks]
            pc = z3.And(*s2.pc) if s2.pc else z3.BoolVal(True)
            pc2 = z3.substitute(pc, *subs) if subs else pc
            vcs.append(VC('%s.process_page/flow-control#%d@L%d' % (CLS, k, loop.lineno), 'flow-control', [pc], pc2, loop.lineno, rep.name,
                          'branch conditions of the iteration do not depend on %s or the clock' % (U,)))
            for j, t in enumerate(outs_terms):
                t2 = z3.substitute(t, *subs) if subs else t
                vcs.append(VC('%s.process_page/flow-output#%d.%d@L%d' % (CLS, k, j, loop.lineno), 'flow-output', [pc, pc2], t == t2, loop.lineno, rep.name,
                              'transcription / carried LM state after the iteration do not depend on %s or the clock' % (U,)))
            for f in per_attr:
                # does the value self.<f> had at the head of the loop (left over from the previous page) reach a branch
                # condition or an output of this iteration?
                subs_f = [(c, z3.Const(c.decl().name() + '__other', c.sort())) for c in heap_consts(it, [f])]
                pc_f = z3.substitute(pc, *subs_f) if subs_f else pc
                same = [t == (z3.substitute(t, *subs_f) if subs_f else t) for t in outs_terms]
                per_attr[f].append(z3.Implies(pc, z3.And(pc_f, *same)))
            if oc is not None and oc[0] not in (Outcome.CONTINUE,):
                raise Unsupported('loop body leaves the loop (%s)' % oc[0])
        # every history-dependent attribute that is read must be shown not to flow: that is what the flow obligations do;
        # a carried attribute that is NOT reset is the C08 defect:
        for f, goals in per_attr.items():
            vc = VC('%s.process_page/reset:%s@L%d' % (CLS, f, loop.lineno), 'reset', [], z3.And(*goals) if goals else z3.BoolVal(True),
                    loop.lineno, rep.name,
                    'self.%s still holds the value from the previous page at the head of the line loop and is read there: that value '
                    'reaches neither a branch condition nor a transcription / carried LM state (else it must be reset per page)' % f)
            vc.model = {'attribute': f, 'depends_on': 'entry value of self.%s' % f}
            vcs.append(vc)
        for v in vcs:
            for i, g in enumerate([v.goal]):
                if v.result is None and z3.is_true(z3.simplify(g)):
                    v.result, v.solver, v.ms = 'unsat', 'simplifier', 0
        rep.vcs = vcs
        rep.assumed = sorted(set(ex.assumed))
        rep.paths = len(paths)
    except Unsupported as e:
        rep.unsupported = str(e)
    except KeyError as e:
        rep.unsupported = 'extraction failed: %s' % e
    return [rep]
