"""Slice-mode proof for PageLayout.to_altoxml_string (property C06): the print space is the bounding box of the text blocks and
the four margins tile the rest of the page.

What is executed (mechanically selected from the real source on every run):
  * the statement that initialises print_space_top/left/bottom/right,
  * the loop `for b, block in enumerate(self.regions)` reduced to the statements that assign one of the tracked variables (the
    get_hwvh(...) unpacking and the `if b == 0: ... else: ...` fold) — every other statement of the loop body is dropped after a
    syntactic check that it assigns none of the tracked variables and contains no return (XML construction, the per-line loop),
  * the statements after the loop that compute the print-space box and set the attributes of the margins / the print space
    (`X.set(name, value)` is recorded; `str(v)` / '{}'.format(v) are replaced by v: the attribute value is the integer).
get_hwvh(block.polygon) is replaced by its assumed contract: (height, width, vpos, hpos) with height, width >= 0."""
import ast
import z3
from pyvc import extract, sym, run as vrun, lib
from pyvc.engine import Contract, Exec, State, LoopSpec
from pyvc.sym import *

PATH = 'pero_ocr/core/layout.py'
FN = 'PageLayout.to_altoxml_string'
TRACKED = {'print_space_top', 'print_space_left', 'print_space_bottom', 'print_space_right',
           'text_block_height', 'text_block_width', 'text_block_vpos', 'text_block_hpos'}
ELEMS = ['top_margin', 'left_margin', 'right_margin', 'bottom_margin', 'print_space']

NB = z3.Int('n_blocks')


def _block_functions(sort, suffix):
    return tuple(z3.Function('BLOCK_%s%s' % (nm, suffix), z3.IntSort(), sort) for nm in ('height', 'width', 'vpos', 'hpos'))


class _Unformat(ast.NodeTransformer):
    """str(v) -> v ;  '{}'.format(v) -> v"""

    def visit_Call(self, node):
        self.generic_visit(node)
        if isinstance(node.func, ast.Name) and node.func.id == 'str' and len(node.args) == 1:
            return node.args[0]
        if (isinstance(node.func, ast.Attribute) and node.func.attr == 'format' and isinstance(node.func.value, ast.Constant)
                and node.func.value.value == '{}' and len(node.args) == 1):
            return node.args[0]
        return node


def _assigned(stmt):
    out = set()
    for n in ast.walk(stmt):
        if isinstance(n, ast.Name) and isinstance(n.ctx, (ast.Store, ast.Del)):
            out.add(n.id)
    return out


def reports(root):
    # pass 1: real-valued block coordinates (bounding box); pass 2: integer-valued coordinates (integer attributes tile the page)
    return [_report(root, 'real'), _report(root, 'int'), _label_report(root)]


def _report(root, kind):
    sym.reset_names()
    BH, BW, BV, BP = _block_functions(z3.RealSort() if kind == 'real' else z3.IntSort(), '' if kind == 'real' else '_i')
    rep = vrun.FnReport((PATH, FN + '[print space, %s coordinates]' % kind))
    try:
        info = extract.get_function(PATH, FN, root)
        rep.info = info
        body = info.node.body
        loop = next((s for s in body if isinstance(s, ast.For) and ast.unparse(s.iter) == 'enumerate(self.regions)'), None)
        if loop is None:
            raise Unsupported('loop over enumerate(self.regions) not found')
        k = body.index(loop)
        init = [s for s in body[:k] if _assigned(s) & TRACKED]
        kept = [s for s in loop.body if _assigned(s) & TRACKED]
        # a kept statement may read a local that is computed by a plain assignment of the same loop body (a hoisted
        # sub-expression): that assignment belongs to the slice as well
        while True:
            read = {n.id for s in kept for n in ast.walk(s) if isinstance(n, ast.Name) and isinstance(n.ctx, ast.Load)}
            more = [s for s in loop.body if s not in kept and isinstance(s, ast.Assign) and len(s.targets) == 1
                    and isinstance(s.targets[0], ast.Name) and s.targets[0].id in read]
            if not more:
                break
            kept = [s for s in loop.body if s in kept or s in more]
        dropped = [s for s in loop.body if s not in kept]
        # `kept` statements may assign only tracked names / loop targets; dropped ones must not touch the tracked names nor return
        for s in dropped:
            if any(isinstance(n, ast.Return) for n in ast.walk(s)):
                raise Unsupported('a dropped statement of the block loop returns (line %d)' % s.lineno)
            if any(isinstance(n, (ast.Break, ast.Continue)) for n in ast.iter_child_nodes(s)):
                raise Unsupported('a dropped statement of the block loop leaves the iteration (line %d)' % s.lineno)
        tail = []
        for s in body[k + 1:]:
            src = ast.unparse(s)
            if _assigned(s) & {'print_space_vpos', 'print_space_hpos', 'print_space_height', 'print_space_width'}:
                tail.append(s)
            elif isinstance(s, ast.Expr) and isinstance(s.value, ast.Call) and isinstance(s.value.func, ast.Attribute) \
                    and s.value.func.attr == 'set' and isinstance(s.value.func.value, ast.Name) and s.value.func.value.id in ELEMS:
                tail.append(_Unformat().visit(ast.parse(src).body[0]))
        if not init or len(kept) < 2 or len(tail) < 10:
            raise Unsupported('print-space statements not found (init %d, loop %d, tail %d)' % (len(init), len(kept), len(tail)))

        attrs = {}

        def rec_set(ex, st, obj, key, value):
            attrs[(ELEM_OF[str(obj.r)], key)] = value
            return None

        def hwvh(ex, st, args, kwargs):
            b = args[0]
            return (BH(b), BW(b), BV(b), BP(b))
        new_loop = ast.For(target=loop.target, iter=loop.iter, body=kept, orelse=[], lineno=loop.lineno, col_offset=0)
        ast.fix_missing_locations(new_loop)
        inv = [
            'implies(kk == 0, print_space_top == 0 and print_space_left == 0 and print_space_bottom == 0 and print_space_right == 0)',
            'implies(kk >= 1, forall(lambda b: implies(0 <= b and b < kk, print_space_top <= BV(b) and print_space_left <= BP(b) and '
            'print_space_bottom >= BV(b) + BH(b) and print_space_right >= BP(b) + BW(b))))',
            'implies(kk >= 1, exists(lambda b: 0 <= b and b < kk and print_space_top == BV(b)))',
            'implies(kk >= 1, exists(lambda b: 0 <= b and b < kk and print_space_left == BP(b)))',
            'implies(kk >= 1, exists(lambda b: 0 <= b and b < kk and print_space_bottom == BV(b) + BH(b)))',
            'implies(kk >= 1, exists(lambda b: 0 <= b and b < kk and print_space_right == BP(b) + BW(b)))']
        con = Contract(params={}, opaque=['get_hwvh'], ghosts={'opaque_model:get_hwvh': hwvh, 'method:set': rec_set,
                                                               'PageLayout.regions': lambda ex, st, obj: ArrayVal((NB,), lambda i: Record({'polygon': to_int(i)}, 'block'), 'obj'),
                                                               'PageLayout.page_size': lambda ex, st, obj: (z3.Int('page_height'), z3.Int('page_width'))},
                       loops={0: LoopSpec(counter='kk', types={x: kind for x in TRACKED}, inv=inv)})
        ex = Exec(info, con, {}, name=FN + '[print space, %s]' % kind)
        ex.loop_nodes[id(new_loop)] = 0
        ex.spec_funcs.update({'BV': lib._spec(lambda b: BV(to_int(b))), 'BP': lib._spec(lambda b: BP(to_int(b))),
                              'BH': lib._spec(lambda b: BH(to_int(b))), 'BW': lib._spec(lambda b: BW(to_int(b))), 'NB': NB})
        st = State()
        st.assume(NB >= 0)
        b_ = z3.Int('b')
        st.assume(z3.ForAll([b_], z3.And(BH(b_) >= 0, BW(b_) >= 0), patterns=[BH(b_)]))
        st.assume(z3.ForAll([b_], z3.And(BH(b_) >= 0, BW(b_) >= 0), patterns=[BW(b_)]))
        st.env['self'] = ObjRef(z3.Int('self'), 'PageLayout')
        ELEM_OF = {}
        for nm in ELEMS:
            r = z3.Int('elem_' + nm)
            ELEM_OF[str(r)] = nm
            st.env[nm] = ObjRef(r, 'Element')
        ex.entry = st.copy()
        outs = ex.exec_block(init + [new_loop] + tail, st)
        if len(outs) != 1 or outs[0][1] is not None:
            raise Unsupported('the print-space slice branches (%d paths)' % len(outs))
        s2 = outs[0][0]
        for (el, key), v in attrs.items():
            s2.env['%s_%s' % (el, key)] = v
        need = [('top_margin', 'HEIGHT'), ('bottom_margin', 'VPOS'), ('bottom_margin', 'HEIGHT'), ('left_margin', 'WIDTH'), ('right_margin', 'HPOS'),
                ('right_margin', 'WIDTH'), ('print_space', 'HEIGHT'), ('print_space', 'WIDTH'), ('print_space', 'VPOS'), ('print_space', 'HPOS')]
        missing = [x for x in need if x not in attrs]
        if missing:
            raise Unsupported('attributes never set: %r' % (missing,))
        last = tail[-1]
        # (1) the print space is the bounding box of the text blocks (an empty box at the origin when there is none)
        for i, e in enumerate([
                'implies(NB == 0, print_space_vpos == 0 and print_space_hpos == 0 and print_space_height == 0 and print_space_width == 0)',
                'implies(NB >= 1, forall(lambda b: implies(0 <= b and b < NB, print_space_vpos <= BV(b) and print_space_hpos <= BP(b) and '
                'print_space_vpos + print_space_height >= BV(b) + BH(b) and print_space_hpos + print_space_width >= BP(b) + BW(b))))',
                'implies(NB >= 1, exists(lambda b: 0 <= b and b < NB and print_space_vpos == BV(b)))',
                'implies(NB >= 1, exists(lambda b: 0 <= b and b < NB and print_space_hpos == BP(b)))',
                'implies(NB >= 1, exists(lambda b: 0 <= b and b < NB and print_space_vpos + print_space_height == BV(b) + BH(b)))',
                'implies(NB >= 1, exists(lambda b: 0 <= b and b < NB and print_space_hpos + print_space_width == BP(b) + BW(b)))',
                'print_space_height >= 0 and print_space_width >= 0']):
            ex.emit(s2, 'post#bbox.%d' % i, ex.eval_spec(e, s2), last, e)
            s2.assume(ex.eval_spec(e, s2, role='hyp'))       # sequential cut: proved above, usable below
        # (2) every recorded geometry attribute is an integer (int(...) is applied at the call site)
        nonint = sorted('%s.%s' % k for k, v in attrs.items() if not (isinstance(v, int) or (is_z3(v) and z3_kind(v) == 'int') or (isinstance(v, str) and v.isdigit())))
        vc = ex.emit(s2, 'post#int-attributes', z3.BoolVal(not nonint), last, 'all margin / print-space attributes are integers: %s' % (nonint or 'yes'))
        # (3) for integer block coordinates the margins and the print space tile the page
        if kind == 'int':
            s3 = s2.copy()
            for i, e in enumerate([
                    'top_margin_HEIGHT == print_space_VPOS and print_space_VPOS + print_space_HEIGHT == bottom_margin_VPOS',
                    'bottom_margin_VPOS + bottom_margin_HEIGHT == page_height',
                    'left_margin_WIDTH == print_space_HPOS and print_space_HPOS + print_space_WIDTH == right_margin_HPOS',
                    'right_margin_HPOS + right_margin_WIDTH == page_width',
                    'print_space_VPOS == print_space_vpos and print_space_HPOS == print_space_hpos and print_space_HEIGHT == print_space_height '
                    'and print_space_WIDTH == print_space_width']):
                s3.env['page_height'], s3.env['page_width'] = z3.Int('page_height'), z3.Int('page_width')
                ex.emit(s3, 'post#tiling.%d' % i, ex.eval_spec(e, s3), last, e + '   [integer block coordinates]')
        rep.vcs = ex.vcs
        rep.vacuous = list(ex.vacuous)
        rep.axioms = ex.axioms
        rep.assumed = sorted(set(ex.assumed + [
            'slice mode: %d statements of the block loop dropped after the syntactic check that they assign none of %s' % (len(dropped), sorted(TRACKED)),
            'assumed contract: get_hwvh(polygon) = (height, width, vpos, hpos) with height, width >= 0 (max - min of the coordinates)',
            'str(v) / "{}".format(v) of an integer is the integer (the attribute value is compared as a number)']))
        rep.paths = 1
    except (KeyError, Unsupported) as e:
        rep.unsupported = str(e)
    return rep


# ---------------------------------------------------------------------------------------------------
# slice 3: the transcription -> label mapping that feeds align_text (the labels must be class indices below the blank)

def _label_report(root):
    """The statements `chars = ...`, `char_to_num = dict(zip(line.characters, chars))`, `blank_idx = ...`, `label = []` and the
    loop `for item in line.transcription` that fills `label` are taken from the real source (first occurrence inside
    to_altoxml_string) and executed from an arbitrary line: characters = arbitrary table of n symbols, transcription = arbitrary
    sequence of m symbols, logits.shape[1] = arbitrary C >= 1.  dict(zip(keys, range(n))) is modelled as: key present iff it
    occurs in the table, value = a position of the key in the table (python: the last one)."""
    sym.reset_names()
    rep = vrun.FnReport((PATH, FN + '[label mapping]'))
    try:
        info = extract.get_function(PATH, FN, root)
        rep.info = info
        loop = None
        for n in ast.walk(info.node):
            if isinstance(n, ast.For) and ast.unparse(n.iter) == 'line.transcription' and \
                    any(isinstance(c, ast.Call) and isinstance(c.func, ast.Attribute) and c.func.attr == 'append'
                        and isinstance(c.func.value, ast.Name) and c.func.value.id == 'label' for c in ast.walk(n)):
                loop = n
                break
        if loop is None:
            raise Unsupported('the loop that fills `label` from line.transcription was not found')
        parent = next(p for p in ast.walk(info.node) if loop in getattr(p, 'body', []))
        k = parent.body.index(loop)
        # backward slice of the names the loop reads, over the plain assignments that precede it in the same block
        needed = {n.id for n in ast.walk(loop) if isinstance(n, ast.Name) and isinstance(n.ctx, ast.Load)} - {'line'}
        pre = []
        for s in reversed(parent.body[:k]):
            if isinstance(s, ast.Assign) and len(s.targets) == 1 and isinstance(s.targets[0], ast.Name) and s.targets[0].id in needed:
                pre.insert(0, s)
                needed |= {n.id for n in ast.walk(s.value) if isinstance(n, ast.Name)} - {'line'}
        n_, m_, C_ = z3.Int('n_characters'), z3.Int('len_transcription'), z3.Int('n_classes')
        CH = z3.Function('characters', z3.IntSort(), Sym)
        TR = z3.Function('transcription', z3.IntSort(), Sym)
        HAS = z3.Function('IN_TABLE', Sym, z3.BoolSort())
        IDX = z3.Function('TABLE_INDEX', Sym, z3.IntSort())

        def mkdict(ex, st, *a, **kw):
            ex.assumed.append('model: dict(zip(characters, range(n))): a symbol is a key iff it occurs in the table; its value is a position of it in the table')
            return lib.DictVal(lambda x: HAS(x), lambda x: IDX(x))
        con = Contract(params={}, ghosts={'lib:builtins.dict': mkdict, 'seqvars': {'label': IntCodec}},
                       loops={0: LoopSpec(counter='kk', inv=[
                           'len(label) == kk',
                           'forall(lambda j: implies(0 <= j and j < kk, label[j] == LABEL_OF(j)))'])})
        ex = Exec(info, con, {}, name=FN + '[label mapping]')
        ex.loop_nodes[id(loop)] = 0
        st = State()
        st.assume(z3.And(n_ >= 0, m_ >= 0, C_ >= 1))
        x = z3.Const('x', Sym)
        kq = z3.Int('kq')
        st.assume(z3.ForAll([x], z3.Implies(HAS(x), z3.And(IDX(x) >= 0, IDX(x) < n_, CH(IDX(x)) == x)), patterns=[IDX(x)]))
        st.assume(z3.ForAll([kq], z3.Implies(z3.And(kq >= 0, kq < n_), HAS(CH(kq))), patterns=[CH(kq)]))
        line = Record({'characters': ArrayVal((n_,), lambda i: CH(to_int(i)), 'sym'),
                       'transcription': ArrayVal((m_,), lambda i: TR(to_int(i)), 'sym'),
                       'logits': Record({'shape': (z3.Int('n_frames'), C_)}, 'matrix')}, 'TextLine')
        st.env['line'] = line
        blank = C_ - 1
        ex.spec_funcs['LABEL_OF'] = lib._spec(lambda j: z3.If(z3.And(HAS(TR(to_int(j))), IDX(TR(to_int(j))) < blank), IDX(TR(to_int(j))), z3.IntVal(0)))
        ex.spec_funcs['M'] = m_
        ex.spec_funcs['BLANK'] = blank
        ex.entry = st.copy()
        outs = ex.exec_block(pre + [loop], st)
        if len(outs) != 1 or outs[0][1] is not None:
            raise Unsupported('the label slice branches (%d paths)' % len(outs))
        s2 = outs[0][0]
        posts = [('post#0', 'len(label) == M', 'one label per character of the transcription'),
                 ('post#1', 'forall(lambda j: implies(0 <= j and j < M, label[j] == LABEL_OF(j)))',
                  'a character of the table below the blank is mapped to its index, every other character to 0'),
                 ('post#2', 'forall(lambda j: implies(0 <= j and j < M and BLANK >= 1, 0 <= LABEL_OF(j) and LABEL_OF(j) < BLANK))',
                  'that value is a class index below the blank (what align_text requires of its labels)')]
        cut = []
        for nm, text, note in posts:
            ex.emit(s2, nm, ex.eval_spec(text, s2), loop, note, extra_hyps=cut)
            cut = cut + [to_z3(ex.eval_spec(text, s2, role='hyp'))]
        rep.vcs = ex.vcs
        rep.axioms = ex.axioms
        rep.assumed = sorted(set(ex.assumed)) + ['slice: %d statements before the loop + the loop, taken from the real source; `line` is an arbitrary line' % len(pre)]
        rep.paths = 1
    except Unsupported as e:
        rep.unsupported = str(e)
    except KeyError as e:
        rep.unsupported = 'extraction failed: %s' % e
    return rep
