"""Sidecar contract for EngineLineCropper.reverse_line_mapping (property C10): the x position of every crop column is the
piecewise-linear inverse of the arc-length table at the sampled arc length — with uniformly spaced samples (np.linspace in the
caller) the columns advance uniformly ALONG the baseline."""
import z3
from pyvc.engine import Contract, LoopSpec, SpecFunc
from pyvc.sym import *

PATH = 'pero_ocr/core/crop_engine.py'
CONTRACTS = {}

_n = 'len(forward_mapping)'
_F, _P, _X = 'forward_mapping', 'sample_positions', 'sampled_values'
# column k lies in segment p of the table (arc length between node p-1 and node p) and is interpolated linearly between the x
# positions of the two nodes; a sample exactly at the first node takes the first x position
SEG = ('(({P}[%(k)s] == {F}[0] and %(r)s[%(k)s] == {X}[0]) or exists(lambda p: 1 <= p and p < {n} and {F}[p - 1] < {P}[%(k)s] and {P}[%(k)s] <= {F}[p] and '
       '%(r)s[%(k)s] == (1 - ({P}[%(k)s] - {F}[p - 1]) / ({F}[p] - {F}[p - 1])) * {X}[p - 1] + (({P}[%(k)s] - {F}[p - 1]) / ({F}[p] - {F}[p - 1])) * {X}[p]))'
       ).format(P=_P, F=_F, X=_X, n=_n)

WIT = ('((%(p)s == 0 and {P}[%(k)s] == {F}[0] and %(r)s[%(k)s] == {X}[0]) or (1 <= %(p)s and %(p)s < {n} and {F}[%(p)s - 1] < {P}[%(k)s] and {P}[%(k)s] <= {F}[%(p)s] and '
       '%(r)s[%(k)s] == (1 - ({P}[%(k)s] - {F}[%(p)s - 1]) / ({F}[%(p)s] - {F}[%(p)s - 1])) * {X}[%(p)s - 1] + (({P}[%(k)s] - {F}[%(p)s - 1]) / ({F}[%(p)s] - {F}[%(p)s - 1])) * {X}[%(p)s]))'
       ).format(P=_P, F=_F, X=_X, n=_n)

CONTRACTS[(PATH, 'EngineLineCropper.reverse_line_mapping')] = Contract(
    params={'self': 'obj:EngineLineCropper', 'forward_mapping': 'nd1:real', 'sample_positions': 'nd1:real', 'sampled_values': 'nd1:real'},
    requires=[_n + ' >= 2', 'len(sampled_values) == ' + _n,
              # the arc-length table is strictly increasing (every source step has positive length)
              'forall(lambda k, l: implies(0 <= k and k < l and l < ' + _n + ', forward_mapping[k] < forward_mapping[l]))',
              # the samples are non-decreasing and lie within the table (np.linspace(0, total length, count))
              'forall(lambda i: implies(0 <= i and i < len(sample_positions), forward_mapping[0] <= sample_positions[i] and sample_positions[i] <= forward_mapping[' + _n + ' - 1]))',
              'forall(lambda i, j: implies(0 <= i and i <= j and j < len(sample_positions), sample_positions[i] <= sample_positions[j]))'],
    ensures=['len(result) == len(sample_positions)',
             'forall(lambda k: implies(0 <= k and k < len(sample_positions), ' + SEG % {'k': 'k', 'r': 'result'} + '))'],
    ghost_at={
        'd = forward_mapping[forward_position] - ': [
            'assert sample_positions[i] <= forward_mapping[forward_position] and (forward_position == 0 or forward_mapping[forward_position - 1] < sample_positions[i])',
            'assert implies(forward_position == 0, sample_positions[i] == forward_mapping[0] and d == forward_mapping[0] - forward_mapping[' + _n + ' - 1] and d < 0)',
            'assert implies(forward_position >= 1, d == forward_mapping[forward_position] - forward_mapping[forward_position - 1] and d > 0)'],
        'da = (sample_positions[i] - ': [
            'assert implies(forward_position == 0, da * d == d)',
            'assert implies(forward_position == 0, da == 1)',
            'assert implies(forward_position >= 1, da == (sample_positions[i] - forward_mapping[forward_position - 1]) / (forward_mapping[forward_position] - forward_mapping[forward_position - 1]))'],
        'backward_mapping[i] = (1 - da) * sampled_values[': [
            'assert implies(forward_position == 0, backward_mapping[i] == sampled_values[0])',
            'assert implies(forward_position >= 1, backward_mapping[i] == (1 - (sample_positions[i] - forward_mapping[forward_position - 1]) / (forward_mapping[forward_position] - forward_mapping[forward_position - 1])) * sampled_values[forward_position - 1] '
            '+ ((sample_positions[i] - forward_mapping[forward_position - 1]) / (forward_mapping[forward_position] - forward_mapping[forward_position - 1])) * sampled_values[forward_position])',
            'assert ' + WIT % {'k': 'i', 'r': 'backward_mapping', 'p': 'forward_position'}],
    },
    loops={0: LoopSpec(counter='ii', ghost_init=['seg = np.zeros(sample_positions.shape, np.int32)'], ghost_post=['seg[i] = forward_position'], inv=[
        'len(backward_mapping) == len(sample_positions)', '0 <= forward_position and forward_position < ' + _n,
        'forward_position == 0 or (ii >= 1 and forward_mapping[forward_position - 1] < sample_positions[ii - 1])',
        'len(seg) == len(sample_positions)',
        # seg[k]: the table segment in which sample k was found (ghost witness of the existential in the postcondition)
        'forall(lambda k: implies(0 <= k and k < ii, ' + WIT % {'k': 'k', 'r': 'backward_mapping', 'p': 'seg[k]'} + '))']),
           1: LoopSpec(counter='ww', inv=[
        '0 <= forward_position and forward_position < ' + _n,
        'forward_position == 0 or forward_mapping[forward_position - 1] < sample_positions[i]'],
        variant=_n + ' - forward_position')},
)
CONTRACTS[(PATH, 'EngineLineCropper.reverse_line_mapping')].ladder = [
    dict(forward_mapping_shape0=a, sampled_values_shape0=a, sample_positions_shape0=b) for a, b in ((2, 1), (2, 2), (3, 2), (3, 3))]

KEYS = [(PATH, 'EngineLineCropper.reverse_line_mapping')]
