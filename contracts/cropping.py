"""Sidecar contract for EngineLineCropper.reverse_line_mapping (property C10): the x position of every crop column is the
piecewise-linear inverse of the arc-length table at the sampled arc length — with uniformly spaced samples (np.linspace in the
caller) the columns advance uniformly ALONG the baseline."""
import z3
from pyvc.engine import Contract, LoopSpec, SpecFunc
from pyvc.sym import *

PATH = 'pero_ocr/core/crop_engine.py'
CONTRACTS = {}

_n = 'len(forward_mapping)'
_F, _P, _X = 'forward_mapping', 'sample_positions', 'sampled_values'
# column k lies in segment p of the table (arc length between node p-1 and node p) and is interpolated linearly between the x
# positions of the two nodes; a sample exactly at the first node takes the first x position
SEG = ('(({P}[%(k)s] == {F}[0] and %(r)s[%(k)s] == {X}[0]) or exists(lambda p: 1 <= p and p < {n} and {F}[p - 1] < {P}[%(k)s] and {P}[%(k)s] <= {F}[p] and '
       '%(r)s[%(k)s] == (1 - ({P}[%(k)s] - {F}[p - 1]) / ({F}[p] - {F}[p - 1])) * {X}[p - 1] + (({P}[%(k)s] - {F}[p - 1]) / ({F}[p] - {F}[p - 1])) * {X}[p]))'
       ).format(P=_P, F=_F, X=_X, n=_n)

WIT = ('((%(p)s == 0 and {P}[%(k)s] == {F}[0] and %(r)s[%(k)s] == {X}[0]) or (1 <= %(p)s and %(p)s < {n} and {F}[%(p)s - 1] < {P}[%(k)s] and {P}[%(k)s] <= {F}[%(p)s] and '
       '%(r)s[%(k)s] == (1 - ({P}[%(k)s] - {F}[%(p)s - 1]) / ({F}[%(p)s] - {F}[%(p)s - 1])) * {X}[%(p)s - 1] + (({P}[%(k)s] - {F}[%(p)s - 1]) / ({F}[%(p)s] - {F}[%(p)s - 1])) * {X}[%(p)s]))'
       ).format(P=_P, F=_F, X=_X, n=_n)

CONTRACTS[(PATH, 'EngineLineCropper.reverse_line_mapping')] = Contract(
    params={'self': 'obj:EngineLineCropper', 'forward_mapping': 'nd1:real', 'sample_positions': 'nd1:real', 'sampled_values': 'nd1:real'},
    requires=[_n + ' >= 2', 'len(sampled_values) == ' + _n,
              # the arc-length table is strictly increasing (every source step has positive length)
              'forall(lambda k, l: implies(0 <= k and k < l and l < ' + _n + ', forward_mapping[k] < forward_mapping[l]))',
              # the samples are non-decreasing and lie within the table (np.linspace(0, total length, count))
              'forall(lambda i: implies(0 <= i and i < len(sample_positions), forward_mapping[0] <= sample_positions[i] and sample_positions[i] <= forward_mapping[' + _n + ' - 1]))',
              'forall(lambda i, j: implies(0 <= i and i <= j and j < len(sample_positions), sample_positions[i] <= sample_positions[j]))'],
    ensures=['len(result) == len(sample_positions)',
             'forall(lambda k: implies(0 <= k and k < len(sample_positions), ' + SEG % {'k': 'k', 'r': 'result'} + '))'],
    ghost_at={
        'd = forward_mapping[forward_position] - ': [
            'assert sample_positions[i] <= forward_mapping[forward_position] and (forward_position == 0 or forward_mapping[forward_position - 1] < sample_positions[i])',
            'assert implies(forward_position == 0, sample_positions[i] == forward_mapping[0] and d == forward_mapping[0] - forward_mapping[' + _n + ' - 1] and d < 0)',
            'assert implies(forward_position >= 1, d == forward_mapping[forward_position] - forward_mapping[forward_position - 1] and d > 0)'],
        'da = (sample_positions[i] - ': [
            'assert implies(forward_position == 0, da * d == d)',
            'assert implies(forward_position == 0, da == 1)',
            'assert implies(forward_position >= 1, da == (sample_positions[i] - forward_mapping[forward_position - 1]) / (forward_mapping[forward_position] - forward_mapping[forward_position - 1]))'],
        'backward_mapping[i] = (1 - da) * sampled_values[': [
            'assert implies(forward_position == 0, backward_mapping[i] == sampled_values[0])',
            'assert implies(forward_position >= 1, backward_mapping[i] == (1 - (sample_positions[i] - forward_mapping[forward_position - 1]) / (forward_mapping[forward_position] - forward_mapping[forward_position - 1])) * sampled_values[forward_position - 1] '
            '+ ((sample_positions[i] - forward_mapping[forward_position - 1]) / (forward_mapping[forward_position] - forward_mapping[forward_position - 1])) * sampled_values[forward_position])',
            'assert ' + WIT % {'k': 'i', 'r': 'backward_mapping', 'p': 'forward_position'}],
    },
    loops={0: LoopSpec(counter='ii', ghost_init=['seg = np.zeros(sample_positions.shape, np.int32)'], ghost_post=['seg[i] = forward_position'], inv=[
        'len(backward_mapping) == len(sample_positions)', '0 <= forward_position and forward_position < ' + _n,
        'forward_position == 0 or (ii >= 1 and forward_mapping[forward_position - 1] < sample_positions[ii - 1])',
        'len(seg) == len(sample_positions)',
        # seg[k]: the table segment in which sample k was found (ghost witness of the existential in the postcondition)
        'forall(lambda k: implies(0 <= k and k < ii, ' + WIT % {'k': 'k', 'r': 'backward_mapping', 'p': 'seg[k]'} + '))']),
           1: LoopSpec(counter='ww', inv=[
        '0 <= forward_position and forward_position < ' + _n,
        'forward_position == 0 or forward_mapping[forward_position - 1] < sample_positions[i]'],
        variant=_n + ' - forward_position')},
)
CONTRACTS[(PATH, 'EngineLineCropper.reverse_line_mapping')].ladder = [
    dict(forward_mapping_shape0=a, sampled_values_shape0=a, sample_positions_shape0=b) for a, b in ((2, 1), (2, 2), (3, 2), (3, 3))]

KEYS = [(PATH, 'EngineLineCropper.reverse_line_mapping')]
LOCK_EXTRA = [(PATH, 'EngineLineCropper.get_crop_inputs')]


# ------------------------------------------------------------------------------------------------------------------------------
# Slice-mode obligations for EngineLineCropper.get_crop_inputs (property C10): the vertical band, the width, and the frame.
# The statements of the real function that compute `vertical_map`, `scale` and `horizontal_sample_count` from the heights (their
# backward slice over the top-level statements, plus every statement that may write through an alias of the `line_heights`
# argument) are executed symbolically for ARBITRARY positive heights, configured scale, target height and arc-length table.
# Dropped: the rotation, the interpolant, the normals (trigonometry / scipy - bounded tier only).
import ast
from pyvc import extract, sym, run as vrun
from pyvc.engine import Exec, State
from pyvc.arrays import select_concrete, Dim

_INPUTS = {'self', 'np', 'math', 'target_height', 'mapping_x_to_line_pos', 'baseline'}
_WANTED = ('vertical_map', 'scale', 'horizontal_sample_count')
_ALIAS_FUNCS = {'asarray', 'asanyarray', 'atleast_1d', 'ravel', 'squeeze', 'reshape'}
_ALIAS_METHODS = {'view', 'reshape', 'ravel', 'squeeze'}


def _names(node):
    return {n.id for n in ast.walk(node) if isinstance(n, ast.Name)}


def _written(s):
    """names bound or written through by a top-level statement"""
    out = set()
    for n in ast.walk(s):
        if isinstance(n, (ast.Assign, ast.AugAssign, ast.AnnAssign)):
            for t in (n.targets if isinstance(n, ast.Assign) else [n.target]):
                for m in ast.walk(t):
                    if isinstance(m, ast.Name):
                        out.add(m.id)
        elif isinstance(n, ast.Expr) and isinstance(n.value, ast.Call) and isinstance(n.value.func, ast.Attribute):
            out |= _names(n.value.func.value)                 # x.sort(), x.fill(..): may write x
    return out


def _may_alias(value, aliases):
    if isinstance(value, ast.Name):
        return value.id in aliases
    if isinstance(value, ast.Call):
        f = value.func
        if isinstance(f, ast.Attribute) and f.attr in _ALIAS_FUNCS and isinstance(f.value, ast.Name) and f.value.id in ('np', 'numpy') and value.args:
            return _may_alias(value.args[0], aliases)
        if isinstance(f, ast.Attribute) and f.attr in _ALIAS_METHODS:
            return _may_alias(f.value, aliases)
        return False
    if isinstance(value, ast.Attribute) and value.attr == 'T':
        return _may_alias(value.value, aliases)
    if isinstance(value, ast.Subscript):
        return _may_alias(value.value, aliases)
    return False


def band_statements(body):
    aliases = {'line_heights'}
    for s in body:                                           # names that may refer to the caller's heights object
        if isinstance(s, ast.Assign) and _may_alias(s.value, aliases):
            aliases |= {t.id for t in s.targets if isinstance(t, ast.Name)}
    needed = set(_WANTED) | aliases
    picked = []
    for s in reversed(body):
        if isinstance(s, ast.Return):
            continue
        if _written(s) & needed:
            picked.insert(0, s)
            needed |= _names(s) - _INPUTS
    return picked


def _band_report(root, variant):
    sym.reset_names()
    rep = vrun.FnReport((PATH, 'EngineLineCropper.get_crop_inputs[band,%s heights]' % variant))
    try:
        info = extract.get_function(PATH, 'EngineLineCropper.get_crop_inputs', root)
        rep.info = info
        stmts = band_statements(info.node.body)
        for w in ('vertical_map', 'horizontal_sample_count'):
            if not any(w in _written(s) for s in stmts):
                raise Unsupported('no top-level assignment to `%s` found' % w)
        has_scale = any('scale' in _written(s) for s in stmts)          # the local factor is an intermediate: it may be renamed / inlined
        if variant == 'array':
            lh = 'nd1:real'
        else:
            lh = lambda ex, st, n: [z3.Real('h_asc'), z3.Real('h_desc')]
        con = Contract(params={'self': 'obj:EngineLineCropper', 'baseline': 'nd2:real', 'line_heights': lh, 'target_height': 'int'}, fields={'scale': 'real', 'line_height': 'int'})
        ex = Exec(info, con, {}, name=rep.name)
        st = State()
        ex.bind_params(st, info.node)
        tbl = fresh_name('buf_table')
        m = z3.Int('table_len')
        st.store[tbl] = fresh_array((m,), 'real', 'mapping_x_to_line_pos')
        st.env['mapping_x_to_line_pos'] = NDRef(tbl, [Dim(None, 0, 1, m)])
        orig = st.store[st.env['line_heights'].buf] if variant == 'array' else None
        st.env['H'] = orig if variant == 'array' else ArrayVal((2,), lambda i: select_concrete(list(st.env['line_heights_0']), i, None), 'real')
        ex.entry = st.copy()
        for h in ('table_len >= 1', 'target_height >= 2', 'self.scale > 0', 'H[0] > 0', 'H[1] > 0', 'mapping_x_to_line_pos[table_len - 1] >= 0') + \
                 (('len(line_heights) == 2',) if variant == 'array' else ()):
            st.env['table_len'] = m
            st.assume(ex.eval_spec(h, st, role='hyp'))
        outs = ex.exec_block(stmts, st)
        if not outs:
            raise Unsupported('no feasible path through the band statements')
        last = stmts[-1]
        for s2, oc in outs:
            s2.env['table_len'] = m
            s2.env['H'] = st.env['H']
            lo, hi = '(-(H[0] * self.scale))', '(H[1] * self.scale)'
            ex.emit(s2, 'band#0', ex.eval_spec('vertical_map.shape[0] == target_height and vertical_map.shape[1] == 1', s2), last, 'one row offset per crop row')
            ex.emit(s2, 'band#1', ex.eval_spec('vertical_map[0, 0] == %s' % lo, s2), last, 'first row: the (scaled) ascender height above the baseline')
            ex.emit(s2, 'band#2', ex.eval_spec('vertical_map[target_height - 1, 0] == %s' % hi, s2), last, 'last row: the (scaled) descender height below the baseline')
            ex.emit(s2, 'band#3', ex.eval_spec('forall(lambda r: implies(0 < r and r < target_height - 1, vertical_map[r, 0] == %s + r * ((%s - %s) / (target_height - 1))))' % (lo, hi, lo), s2),
                    last, 'rows run linearly in between')
            if has_scale:
                ex.emit(s2, 'band#4', ex.eval_spec('scale == target_height / (H[0] * self.scale + H[1] * self.scale)', s2), last, 'target height over scaled line height')
            ex.emit(s2, 'band#5', ex.eval_spec('horizontal_sample_count == int(mapping_x_to_line_pos[table_len - 1] * (target_height / (H[0] * self.scale + H[1] * self.scale)))', s2),
                    last, 'width = baseline length x target height / scaled line height (truncated)')
            if variant == 'array':
                s2.env['caller_heights'] = NDRef(st.env['line_heights_0'].buf, [Dim(None, 0, 1, 2)])
                ex.emit(s2, 'frame#0', ex.eval_spec('caller_heights[0] == H[0] and caller_heights[1] == H[1]', s2), last, "the caller's heights array is left unchanged")
        rep.vcs = ex.vcs
        rep.assumed = sorted(set(ex.assumed + ['slice mode: rotation, interpolant and normals are dropped (bounded tier); the arc-length table is an arbitrary non-empty real array; '
                                               'float rounding ignored (A2); a write through a reshape()/view of the heights is not tracked']))
        rep.paths = len(outs)
    except (KeyError, Unsupported) as e:
        rep.unsupported = str(e)
    return rep


def reports(root):
    return [_band_report(root, 'array'), _band_report(root, 'list')]
