"""Sidecar contract for PageLayout.sort_regions_by_reading_order (property C01, reading-order clause)."""
import z3
from pyvc.engine import Contract, LoopSpec, SpecFunc
from pyvc.sym import *
from pyvc import lib

PATH = 'pero_ocr/core/layout.py'
CONTRACTS = {}

NREG = z3.Int('n_regions')
REG = z3.Function('REGION', z3.IntSort(), z3.IntSort())
HAS = z3.Function('RO_has', Val, z3.BoolSort())
GET = z3.Function('RO_index', Val, z3.IntSort())


def _regions(ex, st, obj):
    st.assume(NREG >= 0)
    return ArrayVal((NREG,), lambda i: ObjRef(REG(to_int(i)), 'RegionLayout'), 'obj')


def _reading_order(ex, st, obj):
    """dict region id (str) -> index; an object that is not a string is never a key"""
    def has(k):
        return HAS(k) if (is_z3(k) and k.sort() == Val) else False
    return lib.DictVal(has, lambda k: GET(k))


def theory(ex, st):
    H_id = ex.initial_field(st, 'id')[0]

    def K(r):
        rid = z3.Select(H_id, r.r)
        return XReal(z3.Not(HAS(rid)), False, z3.ToReal(GET(rid)))
    return {'K': SpecFunc(K, 'K'), 'NREG': NREG,
            'OLD': SpecFunc(lambda i: ObjRef(REG(to_int(i)), 'RegionLayout'), 'OLD')}, []


CONTRACTS[(PATH, 'PageLayout.sort_regions_by_reading_order')] = Contract(
    params={'self': 'obj:PageLayout'}, fields={'regions': 'py', 'reading_order': 'py', 'id': 'val'},
    ghosts={'pyinit:regions': _regions, 'pyinit:reading_order': _reading_order}, theory=theory,
    ensures=[
        'len(self.regions) == NREG',
        # the same region objects, each once (permutation given by the model of sorted())
        'forall(lambda i: implies(0 <= i and i < NREG, self.regions[i] is OLD(SORT_PERM(i)) and 0 <= SORT_PERM(i) and SORT_PERM(i) < NREG))',
        'forall(lambda i, j: implies(0 <= i and i < j and j < NREG, SORT_PERM(i) != SORT_PERM(j)))',
        # ordered by K(r) = reading_order[r.id] if listed else +inf  (the property's order; unlisted regions last)
        'forall(lambda i, j: implies(0 <= i and i < j and j < NREG, K(self.regions[i]) <= K(self.regions[j])))',
        # stable
        'forall(lambda i, j: implies(0 <= i and i < j and j < NREG and K(self.regions[i]) == K(self.regions[j]), SORT_PERM(i) < SORT_PERM(j)))',
    ],
)
KEYS = list(CONTRACTS)
