"""Slice-mode obligation for assign_lines_to_regions (property C11): the bounding-box pre-filter.
The two statements that compute `candidates` are extracted from the real source and executed symbolically from arbitrary
min/max arrays (n x 2 for the lines, m x 2 for the regions; column 0 = x, column 1 = y)."""
import ast
import z3
from pyvc import extract, sym, run as vrun, lib
from pyvc.engine import Contract, Exec, State
from pyvc.sym import *
from pyvc.arrays import as_array, Dim

PATH = 'pero_ocr/layout_engines/layout_helpers.py'
LOCK_EXTRA = [(PATH, 'assign_lines_to_regions')]


def reports(root):
    sym.reset_names()
    rep = vrun.FnReport((PATH, 'assign_lines_to_regions[candidates]'))
    try:
        info = extract.get_function(PATH, 'assign_lines_to_regions', root)
        rep.info = info
        # backward slice of `candidates` over the top-level assignments, down to the four bounding-box arrays
        inputs = {'min_line', 'max_line', 'min_region', 'max_region', 'np'}
        body = info.node.body
        last = max([i for i, s in enumerate(body) if isinstance(s, ast.Assign) and any(isinstance(t, ast.Name) and t.id == 'candidates' for t in s.targets)],
                   default=None)
        if last is None:
            raise Unsupported('no assignment to `candidates` found')
        needed, stmts = {'candidates'}, []
        for s in reversed(body[:last + 1]):
            if isinstance(s, ast.Assign) and len(s.targets) == 1 and isinstance(s.targets[0], ast.Name) and s.targets[0].id in needed:
                stmts.insert(0, s)
                needed |= {n.id for n in ast.walk(s.value) if isinstance(n, ast.Name)} - inputs
        ex = Exec(info, Contract(params={}), {}, name='assign_lines_to_regions[candidates]')
        st = State()
        n, m = z3.Int('n_lines'), z3.Int('n_regions')
        st.assume(z3.And(n >= 0, m >= 0))
        for name, rows in (('min_line', n), ('max_line', n), ('min_region', m), ('max_region', m)):
            buf = fresh_name('buf_' + name)
            st.store[buf] = fresh_array((rows, 2), 'real', name)
            st.env[name] = NDRef(buf, [Dim(None, 0, 1, rows), Dim(None, 0, 1, 2)])
        ex.entry = st.copy()
        # boxes are well formed
        for lo, hi, cnt in (('min_line', 'max_line', 'n_lines'), ('min_region', 'max_region', 'n_regions')):
            st.assume(ex.eval_spec('forall(lambda i, c: implies(0 <= i and 0 <= c and c < 2, %s[i, c] <= %s[i, c]))' % (lo, hi), st, role='hyp'))
        outs = ex.exec_block(stmts, st)
        for s2, oc in outs:
            s2.env['n_lines'], s2.env['n_regions'] = n, m
            ex.emit(s2, 'post#0', ex.eval_spec('candidates.shape[0] == n_lines and candidates.shape[1] == n_regions', s2), stmts[-1], 'shape of the candidate matrix')
            overlap = ('max_line[l, 0] > min_region[r, 0] and min_line[l, 0] < max_region[r, 0] and '
                       'max_line[l, 1] > min_region[r, 1] and min_line[l, 1] < max_region[r, 1]')
            e = 'forall(lambda l, r: implies(0 <= l and l < n_lines and 0 <= r and r < n_regions and %s, candidates[l, r]))' % overlap
            ex.emit(s2, 'post#1', ex.eval_spec(e, s2), stmts[-1], 'boxes overlapping with positive area are candidates')
            # the filter is not vacuous: boxes separated along both axes are rejected
            sep = ('max_line[l, 0] <= min_region[r, 0] and max_line[l, 1] <= min_region[r, 1]')
            e2 = 'forall(lambda l, r: implies(0 <= l and l < n_lines and 0 <= r and r < n_regions and %s, not candidates[l, r]))' % sep
            ex.emit(s2, 'post#2', ex.eval_spec(e2, s2), stmts[-1], 'boxes separated along both axes are not candidates')
        rep.vcs = ex.vcs
        rep.assumed = sorted(set(ex.assumed + ['slice mode: min/max arrays are arbitrary well-formed boxes (float32 rounding ignored, A2)']))
        rep.paths = len(outs)
    except (KeyError, Unsupported) as e:
        rep.unsupported = str(e)
    return [rep]
