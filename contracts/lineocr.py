"""Sidecar contracts for pero_ocr/ocr_engine/line_ocr_engine.py (property C15: stitching split lines).

Strings are z3 sequences of opaque symbols; a logits matrix is a z3 sequence of opaque rows (only the row
structure matters: slicing rows and concatenating along axis 0)."""
import z3
from pyvc.engine import Contract, LoopSpec, SpecFunc
from pyvc.sym import *
from contracts import seqalign

PATH = 'pero_ocr/ocr_engine/line_ocr_engine.py'
CONTRACTS = {}
REGISTRY = dict(seqalign.CONTRACTS)

FBO_BEST = ('((best_overlap == 0 and best_cer == 1 and forall(lambda j: implies(1 <= j and j <= %(k)s, cers[j] >= 1))) or '
            '(1 <= best_overlap and best_overlap <= %(k)s and best_cer == cers[best_overlap] and best_cer < 1 and '
            'forall(lambda j: implies(1 <= j and j <= %(k)s, cers[j] >= best_cer)) and '
            'forall(lambda j: implies(1 <= j and j < best_overlap, cers[j] > best_cer))))')

CONTRACTS[(PATH, 'find_best_overlap')] = Contract(
    params={'text1': 'list:sym', 'text2': 'list:sym'},
    ensures=['0 <= result', 'result <= len(text1)', 'result <= len(text2)'],
    public_ensures=['0 <= result', 'result <= len(text1)', 'result <= len(text2)'],
    result=lambda ex, st, env: z3.Int(fresh_name('overlap')),
    loops={0: LoopSpec(counter='k', types={'best_cer': 'real'},
                       ghost_init=['cers = np.zeros(max_overlap + 2)'], ghost_post=['cers[i] = cer'],
                       inv=['0 <= best_overlap', 'best_overlap <= k', 'best_overlap <= max_overlap',
                            'max_overlap <= len(text1)', 'max_overlap <= len(text2)', 'best_cer <= 1',
                            'len(cers) == max_overlap + 2', FBO_BEST % {'k': 'k'}])},
)
CONTRACTS[(PATH, 'find_best_overlap')].ensures.append(
    # cers[j]: the character error rate computed for overlap length j (ghost record).  The detected overlap is the FIRST length whose
    # error rate is minimal, provided that minimum is below 1; parts without any partially matching suffix/prefix pair have overlap 0
    FBO_BEST % {'k': 'max_overlap'})

HALF_UP = '(last_o + 1) // 2'
STEP = ('implies(k >= 1, result_transcription == gprev[:len(gprev) - ' + HALF_UP + '] + gpart[last_o // 2:])')
STEP_L = ('implies(k >= 1, result_logits == gprev_l[:len(gprev_l) - ' + HALF_UP + '] + gpart_l[last_o // 2:])')

CONTRACTS[(PATH, 'merge_transcriptions_and_logits')] = Contract(
    params={'transcription_parts': 'seqof:list:sym', 'logits_parts': 'seqof:list:val'},
    requires=['len(transcription_parts) >= 1', 'len(logits_parts) == len(transcription_parts)',
              # logits of at least as many rows as characters
              'forall(lambda j: implies(0 <= j and j < len(transcription_parts), '
              'len(logits_parts[j]) >= len(transcription_parts[j])))'],
    ghosts={'listvars': {'logits_parts_shrinked': seq_codec(ValCodec)}},
    ensures=[
        # exactly one logits row per merged character
        'len(result[1]) == len(result[0])',
        # length = sum of the part lengths minus the detected overlaps (gsum is that sum, maintained as ghost)
        'len(result[0]) == gsum',
        # last step: the result is the accumulated text less ceil(o/2) characters, followed by the last part less
        # floor(o/2) characters; o = detected overlap (0 <= o <= both lengths).  With one part: the part itself.
        'implies(len(transcription_parts) == 1, result[0] == transcription_parts[0])',
        'implies(len(transcription_parts) >= 2, result[0] == gprev[:len(gprev) - (last_o + 1) // 2] + '
        'transcription_parts[len(transcription_parts) - 1][last_o // 2:])',
        'implies(len(transcription_parts) >= 2, 0 <= last_o and last_o <= len(gprev) and '
        'last_o <= len(transcription_parts[len(transcription_parts) - 1]))',
        # two parts: begins with the first part less at most half of the overlap
        'implies(len(transcription_parts) == 2, gprev == transcription_parts[0])',
        # no overlap detected at the last step: plain concatenation
        'implies(len(transcription_parts) >= 2 and last_o == 0, result[0] == gprev + '
        'transcription_parts[len(transcription_parts) - 1])',
    ],
    loops={
        0: LoopSpec(counter='k', inv=[
            'len(logits_parts_shrinked) == k',
            'forall(lambda j: implies(0 <= j and j < k, logits_parts_shrinked[j] == '
            'logits_parts[j][:len(transcription_parts[j])]))']),
        1: LoopSpec(counter='k',
                    ghost_init=['gsum = len(transcription_parts[0])', 'last_o = 0', 'gprev = transcription_parts[0]',
                                'gpart = transcription_parts[0]', 'gprev_l = logits_parts_shrinked[0]',
                                'gpart_l = logits_parts_shrinked[0]'],
                    ghost_pre=['gprev = result_transcription', 'gprev_l = result_logits', 'gpart = transcription',
                               'gpart_l = logits'],
                    ghost_post=['gsum = gsum + len(transcription) - overlap', 'last_o = overlap'],
                    inv=['len(result_logits) == len(result_transcription)',
                         'len(result_transcription) == gsum',
                         STEP, STEP_L,
                         'implies(k >= 1, gpart == transcription_parts[k])',
                         'implies(k == 1, gprev == transcription_parts[0])',
                         'implies(k == 0, result_transcription == transcription_parts[0])',
                         'implies(k >= 1, 0 <= last_o and last_o <= len(gprev) and last_o <= len(gpart))']),
    },
)
REGISTRY.update(CONTRACTS)
