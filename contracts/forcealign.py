"""Sidecar contracts for pero_ocr/core/force_alignment.py (property C05)."""
import z3
from pyvc.engine import Contract, LoopSpec, SpecFunc
from pyvc.sym import *

PATH = 'pero_ocr/core/force_alignment.py'
CONTRACTS = {}

CONTRACTS[(PATH, 'initial_cost')] = Contract(
    params={'nb_states': 'int'},
    raises={'ValueError': 'nb_states < 2'}, ensures_exc={'ValueError': 'nb_states < 2'},
    ensures=['len(result) == nb_states', 'result[0] == 0', 'result[1] == 0',
             'forall(lambda s: implies(2 <= s and s < nb_states, isinf(result[s])))'],
)

CONTRACTS[(PATH, 'final_cost')] = Contract(
    params={'nb_states': 'int'},
    raises={'ValueError': 'nb_states < 2'}, ensures_exc={'ValueError': 'nb_states < 2'},
    ensures=['len(result) == nb_states', 'result[nb_states - 1] == 0', 'result[nb_states - 2] == 0',
             'forall(lambda s: implies(0 <= s and s < nb_states - 2, isinf(result[s])))'],
)

CONTRACTS[(PATH, 'complete_state_seq')] = Contract(
    params={'non_blanks': 'seq:int', 'blank_symbol': 'int'},
    raises={'ValueError': 'exists(lambda q: 0 <= q and q < len(non_blanks) and non_blanks[q] == blank_symbol)'},
    ensures_exc={'ValueError': 'exists(lambda q: 0 <= q and q < len(non_blanks) and non_blanks[q] == blank_symbol)'},
    ensures=['len(result[0]) == 2 * len(non_blanks) + 1', 'len(result[1]) == 2 * len(non_blanks) + 1',
             'forall(lambda q: implies(0 <= q and q < len(non_blanks), result[0][2 * q + 1] == non_blanks[q]))',
             'forall(lambda q: implies(0 <= q and q <= len(non_blanks), result[0][2 * q] == blank_symbol))',
             'forall(lambda q: implies(0 <= q and q < len(non_blanks), result[1][2 * q + 1] == q))',
             'forall(lambda q: implies(0 <= q and q <= len(non_blanks), result[1][2 * q] == -1))'],
)

_S = '(2 * len(elements) + 1)'
ALLOWED = ('(b == a or b == a + 1 or (b == a + 2 and a % 2 == 1 and a < ' + _S + ' - 2 and '
           'elements[a // 2] != elements[a // 2 + 1]))')
CONTRACTS[(PATH, 'hmm_trans_from_string')] = Contract(
    params={'elements': 'seq:int'},
    raises={'ValueError': 'len(elements) < 1'}, ensures_exc={'ValueError': 'len(elements) < 1'},
    ensures=['result.shape[0] == ' + _S, 'result.shape[1] == ' + _S,
             # stay, advance by one, skip a blank only between different labels; everything else is forbidden (+inf)
             'forall(lambda a, b: implies(0 <= a and a < ' + _S + ' and 0 <= b and b < ' + _S + ' and ' + ALLOWED + ', result[a, b] == 0))',
             'forall(lambda a, b: implies(0 <= a and a < ' + _S + ' and 0 <= b and b < ' + _S + ' and not ' + ALLOWED + ', isinf(result[a, b])))'],
    loops={0: LoopSpec(counter='r', modifies={'desired': 'lambda a, b: a < r'}, inv=[
        'nb_states == ' + _S, 'last_nonblank_state == nb_states - 2', 'desired.shape[0] == nb_states', 'desired.shape[1] == nb_states',
        'forall(lambda a, b: implies(0 <= a and a < r and 0 <= b and b < nb_states and ' + ALLOWED + ', desired[a, b] == 0))',
        'forall(lambda a, b: implies(0 <= a and a < nb_states and 0 <= b and b < nb_states and (a >= r or not ' + ALLOWED + '), isinf(desired[a, b])))'])},
)



def _positions(ex, st, n):
    """np.where(A != inf): two index arrays of equal length"""
    K = z3.Int('n_transitions')
    st.assume(K >= 0)
    rows = z3.Function('pos_rows', z3.IntSort(), z3.IntSort())
    cols = z3.Function('pos_cols', z3.IntSort(), z3.IntSort())
    return (ArrayVal((K,), lambda q: rows(to_int(q)), 'int'), ArrayVal((K,), lambda q: cols(to_int(q)), 'int'))


_K = 'len(positions[0])'
UPD_LE = ('forall(lambda s, q: implies(0 <= s and s < len(act_cost) and 0 <= q and q < %s and positions[1][q] == s, '
          '%s[s] <= act_cost[positions[0][q]] + column_frame[s]))')
UPD_WIT = ('forall(lambda s: implies(0 <= s and s < len(act_cost) and not isinf(%s[s]), 0 <= wit[s] and wit[s] < %s and '
           'positions[1][wit[s]] == s and %s[s] == positions[0][wit[s]] and %s[s] == act_cost[%s[s]] + column_frame[s]))')
CONTRACTS[(PATH, 'compute_update')] = Contract(
    params={'positions': _positions, 'column_frame': 'nd1:xreal', 'act_cost': 'nd1:xreal'},
    requires=['len(column_frame) == len(act_cost)',
              'forall(lambda q: implies(0 <= q and q < ' + _K + ', 0 <= positions[0][q] and positions[0][q] < len(act_cost) '
              'and 0 <= positions[1][q] and positions[1][q] < len(act_cost)))'],
    ensures=['len(result[0]) == len(act_cost)', 'len(result[1]) == len(act_cost)',
             # one min-plus step: no allowed transition into s is cheaper than result[0][s] ...
             UPD_LE % (_K, 'result[0]'),
             # ... and a finite result[0][s] is attained by the transition from result[1][s] (an allowed predecessor)
             UPD_WIT % ('result[0]', _K, 'result[1]', 'result[0]', 'result[1]')],
    loops={0: LoopSpec(counter='kk',
                       ghost_init=['wit = np.zeros(act_cost.shape, np.int32)'],
                       ghost_pre=['g_upd = act_cost[j] + column_frame[i] < new_cost[i]'],
                       ghost_post=['wit[i] = kk if g_upd else wit[i]'],
                       inv=['len(new_cost) == len(act_cost)', 'len(backpointers) == len(act_cost)', 'len(wit) == len(act_cost)',
                            UPD_LE % ('kk', 'new_cost'),
                            UPD_WIT % ('new_cost', 'kk', 'backpointers', 'new_cost', 'backpointers')])},
)

_T = 'backpointers.shape[0]'
CONTRACTS[(PATH, 'backtrack')] = Contract(
    params={'backpointers': 'nd2:int', 'final_state': 'int'},
    requires=[_T + ' >= 1', '0 <= final_state and final_state < backpointers.shape[1]',
              'forall(lambda t, s: implies(1 <= t and t < ' + _T + ' and 0 <= s and s < backpointers.shape[1], '
              '0 <= backpointers[t, s] and backpointers[t, s] < backpointers.shape[1]))'],
    ghosts={'listvars': {'states_from_end': IntCodec}},
    ensures=['len(result) == ' + _T, 'result[' + _T + ' - 1] == final_state',
             # the path follows the back-pointers: state at frame t-1 is the recorded predecessor of the state at frame t
             'forall(lambda t: implies(1 <= t and t < ' + _T + ', result[t - 1] == backpointers[t, result[t]]))',
             'forall(lambda t: implies(0 <= t and t < ' + _T + ', 0 <= result[t] and result[t] < backpointers.shape[1]))'],
    loops={0: LoopSpec(counter='kk', inv=[
        'len(states_from_end) == kk + 1', 'states_from_end[0] == final_state', 'act_state == states_from_end[kk]',
        '0 <= act_state and act_state < backpointers.shape[1]',
        'forall(lambda q: implies(0 <= q and q <= kk, 0 <= states_from_end[q] and states_from_end[q] < backpointers.shape[1]))',
        'forall(lambda q: implies(1 <= q and q <= kk, states_from_end[q] == backpointers[' + _T + ' - q, states_from_end[q - 1]]))'])},
)

KEYS = [(PATH, k) for k in ('initial_cost', 'final_cost', 'complete_state_seq', 'hmm_trans_from_string', 'compute_update', 'backtrack')]
