"""Sidecar contracts for pero_ocr/core/force_alignment.py (property C05)."""
import z3
from pyvc.engine import Contract, LoopSpec, SpecFunc
from pyvc.sym import *

PATH = 'pero_ocr/core/force_alignment.py'
CONTRACTS = {}

def _cost_result(ex, st, env):
    return fresh_array((to_int(env['nb_states']),), 'xreal', 'cost')


def _pub(con):
    con.public_ensures = list(con.ensures)
    return con


CONTRACTS[(PATH, 'initial_cost')] = Contract(
    params={'nb_states': 'int'}, result=_cost_result,
    raises={'ValueError': 'nb_states < 2'}, ensures_exc={'ValueError': 'nb_states < 2'},
    ensures=['len(result) == nb_states', 'result[0] == 0', 'result[1] == 0',
             'forall(lambda s: implies(2 <= s and s < nb_states, isinf(result[s])))'],
)

CONTRACTS[(PATH, 'final_cost')] = Contract(
    params={'nb_states': 'int'}, result=_cost_result,
    raises={'ValueError': 'nb_states < 2'}, ensures_exc={'ValueError': 'nb_states < 2'},
    ensures=['len(result) == nb_states', 'result[nb_states - 1] == 0', 'result[nb_states - 2] == 0',
             'forall(lambda s: implies(0 <= s and s < nb_states - 2, isinf(result[s])))'],
)

CONTRACTS[(PATH, 'complete_state_seq')] = Contract(
    params={'non_blanks': 'seq:int', 'blank_symbol': 'int'},
    raises={'ValueError': 'exists(lambda q: 0 <= q and q < len(non_blanks) and non_blanks[q] == blank_symbol)'},
    ensures_exc={'ValueError': 'exists(lambda q: 0 <= q and q < len(non_blanks) and non_blanks[q] == blank_symbol)'},
    ensures=['len(result[0]) == 2 * len(non_blanks) + 1', 'len(result[1]) == 2 * len(non_blanks) + 1',
             'forall(lambda q: implies(0 <= q and q < len(non_blanks), result[0][2 * q + 1] == non_blanks[q]))',
             'forall(lambda q: implies(0 <= q and q <= len(non_blanks), result[0][2 * q] == blank_symbol))',
             'forall(lambda q: implies(0 <= q and q < len(non_blanks), result[1][2 * q + 1] == q))',
             'forall(lambda q: implies(0 <= q and q <= len(non_blanks), result[1][2 * q] == -1))',
             # the same, indexed by state
             'forall(lambda s: implies(0 <= s and s < 2 * len(non_blanks) + 1, result[0][s] == (blank_symbol if s % 2 == 0 else non_blanks[s // 2])))',
             'forall(lambda s: implies(0 <= s and s < 2 * len(non_blanks) + 1, result[1][s] == (-1 if s % 2 == 0 else s // 2)))'],
)

_S = '(2 * len(elements) + 1)'
ALLOWED = ('(b == a or b == a + 1 or (b == a + 2 and a % 2 == 1 and a < ' + _S + ' - 2 and '
           'elements[a // 2] != elements[a // 2 + 1]))')
CONTRACTS[(PATH, 'hmm_trans_from_string')] = Contract(
    params={'elements': 'seq:int'},
    raises={'ValueError': 'len(elements) < 1'}, ensures_exc={'ValueError': 'len(elements) < 1'},
    ensures=['result.shape[0] == ' + _S, 'result.shape[1] == ' + _S,
             # stay, advance by one, skip a blank only between different labels; everything else is forbidden (+inf)
             'forall(lambda a, b: implies(0 <= a and a < ' + _S + ' and 0 <= b and b < ' + _S + ' and ' + ALLOWED + ', result[a, b] == 0))',
             'forall(lambda a, b: implies(0 <= a and a < ' + _S + ' and 0 <= b and b < ' + _S + ' and not ' + ALLOWED + ', isinf(result[a, b])))'],
    loops={0: LoopSpec(counter='r', modifies={'desired': 'lambda a, b: a < r'}, inv=[
        'nb_states == ' + _S, 'last_nonblank_state == nb_states - 2', 'desired.shape[0] == nb_states', 'desired.shape[1] == nb_states',
        'forall(lambda a, b: implies(0 <= a and a < r and 0 <= b and b < nb_states and ' + ALLOWED + ', desired[a, b] == 0))',
        'forall(lambda a, b: implies(0 <= a and a < nb_states and 0 <= b and b < nb_states and (a >= r or not ' + ALLOWED + '), isinf(desired[a, b])))'])},
)



def _positions(ex, st, n):
    """np.where(A != inf): two index arrays of equal length"""
    K = z3.Int('n_transitions')
    st.assume(K >= 0)
    rows = z3.Function('pos_rows', z3.IntSort(), z3.IntSort())
    cols = z3.Function('pos_cols', z3.IntSort(), z3.IntSort())
    return (ArrayVal((K,), lambda q: rows(to_int(q)), 'int'), ArrayVal((K,), lambda q: cols(to_int(q)), 'int'))


_K = 'len(positions[0])'
UPD_LE = ('forall(lambda s, q: implies(0 <= s and s < len(act_cost) and 0 <= q and q < %s and positions[1][q] == s, '
          '%s[s] <= act_cost[positions[0][q]] + column_frame[s]))')
UPD_WIT = ('forall(lambda s: implies(0 <= s and s < len(act_cost) and not isinf(%s[s]), 0 <= wit[s] and wit[s] < %s and '
           'positions[1][wit[s]] == s and %s[s] == positions[0][wit[s]] and %s[s] == act_cost[%s[s]] + column_frame[s]))')
def _update_result(ex, st, env):
    from pyvc.arrays import as_array
    n = to_int(as_array(st, env['act_cost']).shape[0])
    env['wit'] = fresh_array((n,), 'int', 'wit')
    return (fresh_array((n,), 'xreal', 'new_cost'), fresh_array((n,), 'int', 'backpointers'))


def _backtrack_result(ex, st, env):
    from pyvc.arrays import as_array, view_shape
    bp = env['backpointers']
    T = view_shape(bp)[0] if isinstance(bp, NDRef) else bp.shape[0]
    return fresh_array((to_int(T),), 'int', 'path')


CONTRACTS[(PATH, 'compute_update')] = Contract(
    params={'positions': _positions, 'column_frame': 'nd1:xreal', 'act_cost': 'nd1:xreal'}, result=_update_result,
    requires=['len(column_frame) == len(act_cost)',
              'forall(lambda q: implies(0 <= q and q < ' + _K + ', 0 <= positions[0][q] and positions[0][q] < len(act_cost) '
              'and 0 <= positions[1][q] and positions[1][q] < len(act_cost)))'],
    ensures=['len(result[0]) == len(act_cost)', 'len(result[1]) == len(act_cost)',
             'forall(lambda s: implies(0 <= s and s < len(act_cost), 0 <= result[1][s] and result[1][s] < len(act_cost)))',
             # one min-plus step: no allowed transition into s is cheaper than result[0][s] ...
             UPD_LE % (_K, 'result[0]'),
             # ... and a finite result[0][s] is attained by the transition from result[1][s] (an allowed predecessor)
             UPD_WIT % ('result[0]', _K, 'result[1]', 'result[0]', 'result[1]')],
    loops={0: LoopSpec(counter='kk',
                       ghost_init=['wit = np.zeros(act_cost.shape, np.int32)'],
                       ghost_pre=['g_upd = act_cost[j] + column_frame[i] < new_cost[i]'],
                       ghost_post=['wit[i] = kk if g_upd else wit[i]'],
                       inv=['len(new_cost) == len(act_cost)', 'len(backpointers) == len(act_cost)', 'len(wit) == len(act_cost)',
                            'forall(lambda s: implies(0 <= s and s < len(act_cost), 0 <= backpointers[s] and backpointers[s] < len(act_cost)))',
                            UPD_LE % ('kk', 'new_cost'),
                            UPD_WIT % ('new_cost', 'kk', 'backpointers', 'new_cost', 'backpointers')])},
)

_T = 'backpointers.shape[0]'
CONTRACTS[(PATH, 'backtrack')] = Contract(
    params={'backpointers': 'nd2:int', 'final_state': 'int'}, result=_backtrack_result,
    requires=[_T + ' >= 1', '0 <= final_state and final_state < backpointers.shape[1]',
              'forall(lambda t, s: implies(1 <= t and t < ' + _T + ' and 0 <= s and s < backpointers.shape[1], '
              '0 <= backpointers[t, s] and backpointers[t, s] < backpointers.shape[1]))'],
    ghosts={'listvars': {'states_from_end': IntCodec}},
    ensures=['len(result) == ' + _T, 'result[' + _T + ' - 1] == final_state',
             # the path follows the back-pointers: state at frame t-1 is the recorded predecessor of the state at frame t
             'forall(lambda t: implies(1 <= t and t < ' + _T + ', result[t - 1] == backpointers[t, result[t]]))',
             'forall(lambda t: implies(0 <= t and t < ' + _T + ', 0 <= result[t] and result[t] < backpointers.shape[1]))'],
    loops={0: LoopSpec(counter='kk', inv=[
        'len(states_from_end) == kk + 1', 'states_from_end[0] == final_state', 'act_state == states_from_end[kk]',
        '0 <= act_state and act_state < backpointers.shape[1]',
        'forall(lambda q: implies(0 <= q and q <= kk, 0 <= states_from_end[q] and states_from_end[q] < backpointers.shape[1]))',
        'forall(lambda q: implies(1 <= q and q <= kk, states_from_end[q] == backpointers[' + _T + ' - q, states_from_end[q - 1]]))'])},
)

for _k in ('initial_cost', 'final_cost', 'compute_update', 'backtrack'):
    _pub(CONTRACTS[(PATH, _k)])


def _css_result(ex, st, env):
    from pyvc.arrays import as_array
    n = to_int(as_array(st, env['non_blanks']).shape[0])
    return (fresh_array((2 * n + 1,), 'int', 'all_states'), fresh_array((2 * n + 1,), 'int', 'char_sequence'))


def _hmm_result(ex, st, env):
    from pyvc.arrays import as_array
    n = to_int(as_array(st, env['elements']).shape[0])
    return fresh_array((2 * n + 1, 2 * n + 1), 'xreal', 'A')


CONTRACTS[(PATH, 'complete_state_seq')].result = _css_result
CONTRACTS[(PATH, 'hmm_trans_from_string')].result = _hmm_result
for _k in ('complete_state_seq', 'hmm_trans_from_string'):
    _pub(CONTRACTS[(PATH, _k)])


# ---------------------------------------------------------------------------------------------------
# viterbi_align: the DP invariant act_cost = V(t, .) with V characterised by the Bellman conditions

def viterbi_theory(ex, st):
    from pyvc.arrays import as_array
    return bellman_theory(as_array(st, st.env['neg_logits']), as_array(st, st.env['A']))


def bellman_theory(X, A):
    S = to_int(A.shape[0])
    Vp = z3.Function('V_inf', z3.IntSort(), z3.IntSort(), z3.BoolSort())
    Vv = z3.Function('V_val', z3.IntSort(), z3.IntSort(), z3.RealSort())
    W = z3.Function('V_argmin', z3.IntSort(), z3.IntSort(), z3.IntSort())

    def V(t, s):
        return XReal(Vp(to_int(t), to_int(s)), False, Vv(to_int(t), to_int(s)))

    def allowed(j, s):
        return z3.Not(to_xreal(A.get(to_int(j), to_int(s))).pinf)
    t, s, j, t2 = z3.Ints('t s j t2')
    inr = lambda a: z3.And(a >= 0, a < S)
    init = lambda a: XReal(z3.Not(z3.Or(a == 0, a == 1)), False, 0)
    axioms = [
        # V(0, s) = initial cost + first frame
        (['V_inf', 'V_val'], z3.ForAll([s], z3.Implies(inr(s), to_z3(s_eq(V(0, s), s_add(init(s), X.get(0, s))))), patterns=[Vp(0, s)])),
        # V(t, s) is a lower bound of every allowed predecessor + frame cost ...
        (['V_inf', 'V_val'], z3.ForAll([t, t2, s, j], z3.Implies(z3.And(t >= 1, t2 == t - 1, inr(s), inr(j), allowed(j, s)),
                                                                  to_z3(s_le(V(t, s), s_add(V(t2, j), X.get(t, s))))),
                                      patterns=[z3.MultiPattern(Vp(t, s), Vp(t2, j))])),
        # ... and, when finite, attained by the allowed predecessor W(t, s)
        (['V_inf', 'V_val'], z3.ForAll([t, s], z3.Implies(z3.And(t >= 1, inr(s), z3.Not(Vp(t, s))),
                                                           z3.And(inr(W(t, s)), allowed(W(t, s), s),
                                                                  to_z3(s_eq(V(t, s), s_add(V(t - 1, W(t, s)), X.get(t, s)))))),
                                      patterns=[Vp(t, s)])),
    ]
    # an ARBITRARY allowed state path Q (an uninterpreted function: whatever is proved about it holds for every such path) and
    # its accumulated cost PCOST(t) = initial cost of Q(0) + sum of the frame costs along Q up to frame t
    Q = z3.Function('ANY_PATH', z3.IntSort(), z3.IntSort())
    Pp = z3.Function('ANY_PATH_cost_inf', z3.IntSort(), z3.BoolSort())
    Pv = z3.Function('ANY_PATH_cost_val', z3.IntSort(), z3.RealSort())
    T = to_int(X.shape[0])
    u = z3.Int('u')

    def PC(t_):
        return XReal(Pp(to_int(t_)), False, Pv(to_int(t_)))

    def pc_def(t_):
        t_ = to_int(t_)
        return z3.And(z3.Implies(t_ == 0, to_z3(s_eq(PC(0), s_add(init(Q(0)), X.get(0, Q(0)))))),
                      z3.Implies(t_ >= 1, to_z3(s_eq(PC(t_), s_add(PC(t_ - 1), X.get(t_, Q(t_)))))))
    # "Q is an allowed state path" is a HYPOTHESIS of the statements about Q (never an axiom: for a transition matrix without any
    # allowed path an axiom would be contradictory and make every proof of this function vacuous)
    qvalid = z3.And(z3.ForAll([u], z3.Implies(z3.And(u >= 0, u < T), inr(Q(u))), patterns=[Q(u)]),
                    z3.ForAll([u], z3.Implies(z3.And(u >= 1, u < T), allowed(Q(u - 1), Q(u))), patterns=[Q(u)]))
    return {'V': SpecFunc(V, 'V'), 'allowed': SpecFunc(allowed, 'allowed'), 'QVALID': SpecFunc(lambda: qvalid, 'QVALID'),
            'Q': SpecFunc(lambda t_: Q(to_int(t_)), 'Q'), 'PCOST': SpecFunc(PC, 'PCOST', defn=pc_def)}, axioms


def _where_allowed(ex, st, cond, *rest, **kw):
    """np.where(A != np.inf) for a 2-d array: (rows, cols) enumerating exactly the finite entries (A3, assumed)"""
    from pyvc.arrays import as_array
    c = as_array(st, cond)
    K = z3.Int(fresh_name('n_allowed'))
    st.assume(K >= 0)
    rows = z3.Function(fresh_name('allowed_rows'), z3.IntSort(), z3.IntSort())
    cols = z3.Function(fresh_name('allowed_cols'), z3.IntSort(), z3.IntSort())
    idx = z3.Function(fresh_name('allowed_index'), z3.IntSort(), z3.IntSort(), z3.IntSort())
    q, a, b = z3.Ints('q a b')
    n0, n1 = to_int(c.shape[0]), to_int(c.shape[1])
    st.assume(z3.ForAll([q], z3.Implies(z3.And(q >= 0, q < K), z3.And(rows(q) >= 0, rows(q) < n0, cols(q) >= 0, cols(q) < n1,
                                                                    to_z3(truthy(c.get(rows(q), cols(q)))))), patterns=[rows(q)]))
    st.assume(z3.ForAll([q], z3.Implies(z3.And(q >= 0, q < K), z3.And(rows(q) >= 0, rows(q) < n0, cols(q) >= 0, cols(q) < n1,
                                                                    to_z3(truthy(c.get(rows(q), cols(q)))))), patterns=[cols(q)]))
    from pyvc import lib as _lib
    cell = to_z3(truthy(c.get(a, b)))
    pats = [idx(a, b)] + _lib.infer_patterns(cell, [a, b])       # also triggered by a read of the mask cell itself
    st.assume(z3.ForAll([a, b], z3.Implies(z3.And(a >= 0, a < n0, b >= 0, b < n1, cell),
                                           z3.And(idx(a, b) >= 0, idx(a, b) < K, rows(idx(a, b)) == a, cols(idx(a, b)) == b)),
                        patterns=pats))
    ex.spec_funcs['allowed_index'] = SpecFunc(lambda a_, b_: idx(to_int(a_), to_int(b_)))
    ex.assumed.append('model: np.where(mask) of a 2-d mask returns index arrays enumerating exactly the true cells')
    return (ArrayVal((K,), lambda i: rows(to_int(i)), 'int'), ArrayVal((K,), lambda i: cols(to_int(i)), 'int'))


_TT = 'neg_logits.shape[0]'
_SS = 'A.shape[0]'
BPOK = ('forall(lambda t, s: implies(1 <= t and t <= %s and 0 <= s and s < ' + _SS + ', 0 <= backpointers[t, s] and backpointers[t, s] < ' + _SS + '))')
BPOPT = ('forall(lambda t, s: implies(1 <= t and t <= %s and 0 <= s and s < ' + _SS + ' and not isinf(V(t, s)), allowed(backpointers[t, s], s) and '
         'V(t, s) == V(t - 1, backpointers[t, s]) + neg_logits[t, s]))')
CONTRACTS[(PATH, 'viterbi_align')] = Contract(
    params={'neg_logits': 'nd2:xreal', 'A': 'nd2:xreal'}, theory=viterbi_theory, ghosts={'lib:np.where': _where_allowed},
    requires=[_TT + ' >= 1', _SS + ' >= 2', 'A.shape[1] == ' + _SS, 'neg_logits.shape[1] == ' + _SS],
    raises={'ValueError': 'isinf(V(' + _TT + ' - 1, ' + _SS + ' - 1)) and isinf(V(' + _TT + ' - 1, ' + _SS + ' - 2))'},
    ensures_exc={'ValueError': 'isinf(V(' + _TT + ' - 1, ' + _SS + ' - 1)) and isinf(V(' + _TT + ' - 1, ' + _SS + ' - 2))'},
    lemmas=[
        # walking back from the final state every state on the path has finite optimal cost
        {'name': 'path-finite', 'var': 'u', 'lo': '0', 'hi': _TT + ' - 1', 'direction': 'down',
         'stmt': '0 <= result[u] and result[u] < ' + _SS + ' and not isinf(V(u, result[u]))'},
        # V is a lower bound of the accumulated cost of EVERY allowed state path (Q is arbitrary): Bellman => minimum
        {'name': 'V-is-lower-bound-of-every-path', 'var': 'u', 'lo': '0', 'hi': _TT + ' - 1', 'direction': 'up',
         'stmt': 'implies(QVALID(), V(u, Q(u)) <= PCOST(u))'},
    ],
    ensures=['len(result) == ' + _TT,
             'forall(lambda t: implies(0 <= t and t < ' + _TT + ', 0 <= result[t] and result[t] < ' + _SS + '))',
             # ends in one of the two final states, the cheaper one
             '(result[' + _TT + ' - 1] == ' + _SS + ' - 1 or result[' + _TT + ' - 1] == ' + _SS + ' - 2)',
             'V(' + _TT + ' - 1, result[' + _TT + ' - 1]) <= V(' + _TT + ' - 1, ' + _SS + ' - 1) and V(' + _TT + ' - 1, result[' + _TT + ' - 1]) <= V(' + _TT + ' - 1, ' + _SS + ' - 2)',
             # every step of the path is an allowed transition and realises the Bellman optimum: the path is optimal
             'forall(lambda t: implies(1 <= t and t < ' + _TT + ', allowed(result[t - 1], result[t]) and '
             'V(t, result[t]) == V(t - 1, result[t - 1]) + neg_logits[t, result[t]]))',
             # it starts in one of the two initial states
             '(result[0] == 0 or result[0] == 1)',
             # minimum cost: no allowed state path that ends in a final state is cheaper than the returned one (whose accumulated
             # cost is V at its last state, by the previous clauses)
             'implies(QVALID() and (Q(' + _TT + ' - 1) == ' + _SS + ' - 1 or Q(' + _TT + ' - 1) == ' + _SS + ' - 2), '
             'V(' + _TT + ' - 1, result[' + _TT + ' - 1]) <= PCOST(' + _TT + ' - 1))'],
    loops={0: LoopSpec(counter='kk', modifies={'backpointers': 'lambda t, s: 1 <= t and t <= kk'}, inv=[
        'len(act_cost) == ' + _SS, 'backpointers.shape[0] == ' + _TT + ' and backpointers.shape[1] == ' + _SS,
        # the two halves of act_cost = V(kk, .) are separate obligations (each needs one Bellman condition); the equality
        # then follows by the sequential cut
        'forall(lambda s: implies(0 <= s and s < ' + _SS + ', V(kk, s) <= act_cost[s]))',
        'forall(lambda s: implies(0 <= s and s < ' + _SS + ', act_cost[s] <= V(kk, s)))',
        'forall(lambda s: implies(0 <= s and s < ' + _SS + ', act_cost[s] == V(kk, s)))',
        BPOK % 'kk', BPOPT % 'kk'])},
)

# ---------------------------------------------------------------------------------------------------
# force_align: composition — the returned symbol sequence is the labelling of a minimum-cost allowed state path of the CTC
# topology over the labels, and it collapses to the labels

def _va_result(ex, st, env):
    from pyvc.arrays import as_array
    return fresh_array((to_int(as_array(st, env['neg_logits']).shape[0]),), 'int', 'state_path')


CONTRACTS[(PATH, 'viterbi_align')].result = _va_result
_pub(CONTRACTS[(PATH, 'viterbi_align')])


def force_theory(ex, st):
    """the Bellman specification over the EXPANDED costs X'[t, s] = neg_logprobs[t, symbol of state s] and the CTC transition
    structure A' of the labels (0 where allowed, +inf elsewhere); NEV(t): number of collapse events (a non-blank symbol that
    differs from its predecessor) in frames 0..t of the returned symbol sequence"""
    from pyvc.arrays import as_array
    NL = as_array(st, st.env['neg_logprobs'])
    SY = as_array(st, st.env['symbols_seq'])
    blank = to_int(st.env['blank_symbol'])
    n = to_int(SY.shape[0])
    S = 2 * n + 1

    def cs(s_):
        s_ = to_int(s_)
        return z3.If(s_ % 2 == 0, blank, SY.get(s_ / 2))

    def allowed(a, b):
        a, b = to_int(a), to_int(b)
        return z3.Or(b == a, b == a + 1, z3.And(b == a + 2, a % 2 == 1, a < S - 2, SY.get(a / 2) != SY.get(a / 2 + 1)))
    X = ArrayVal((NL.shape[0], S), lambda t_, s_: NL.get(t_, cs(s_)), 'xreal')
    A = ArrayVal((S, S), lambda a, b: XReal(z3.Not(allowed(a, b)), False, 0), 'xreal')
    names, axioms = bellman_theory(X, A)
    NEVf = z3.Function('N_collapse_events', z3.IntSort(), z3.IntSort())

    def res(t_):
        return to_int(as_array(ex_state[0], ex_state[0].env['result']).get(to_int(t_)))
    ex_state = [st]

    def event(t_):
        t_ = to_int(t_)
        return z3.And(res(t_) != blank, z3.Or(t_ == 0, res(t_) != res(t_ - 1)))

    def nev_def(t_):
        t_ = to_int(t_)
        one = z3.If(event(t_), 1, 0)
        return z3.And(z3.Implies(t_ == 0, NEVf(0) == one), z3.Implies(t_ >= 1, NEVf(t_) == NEVf(t_ - 1) + one))

    def NEV(ex_, st_, t_):
        ex_state[0] = st_
        if ex_.pending_defs:
            ex_.pending_defs[-1].append(nev_def(t_))
        return NEVf(to_int(t_))

    def EVENT(ex_, st_, t_):
        ex_state[0] = st_
        return event(t_)
    # the same notion on the state path (used by the positions variant): frame t enters a label state
    NEVS = z3.Function('N_label_entries', z3.IntSort(), z3.IntSort())

    def pth(t_):
        return to_int(as_array(ex_state[0], ex_state[0].env['original_align']).get(to_int(t_)))

    def sevent(t_):
        t_ = to_int(t_)
        return z3.And(pth(t_) % 2 == 1, z3.Or(t_ == 0, pth(t_) != pth(t_ - 1)))

    def nevs_def(t_):
        t_ = to_int(t_)
        one = z3.If(sevent(t_), 1, 0)
        return z3.And(z3.Implies(t_ == 0, NEVS(0) == one), z3.Implies(t_ >= 1, NEVS(t_) == NEVS(t_ - 1) + one))

    def NEVSTATE(ex_, st_, t_):
        ex_state[0] = st_
        if ex_.pending_defs:
            ex_.pending_defs[-1].append(nevs_def(t_))
        return NEVS(to_int(t_))

    def SEVENT(ex_, st_, t_):
        ex_state[0] = st_
        return sevent(t_)
    # WIT(u, i): the frame <= u at which the (i+1)-th label was entered (explicit witness, so that no existential has to be carried
    # through the induction)
    WITF = z3.Function('ENTRY_FRAME', z3.IntSort(), z3.IntSort(), z3.IntSort())

    def wit_def(u_, i_):
        u_, i_ = to_int(u_), to_int(i_)
        return z3.And(z3.Implies(u_ <= 0, WITF(u_, i_) == 0),
                      z3.Implies(u_ >= 1, WITF(u_, i_) == z3.If(z3.And(sevent(u_), NEVS(u_) == i_ + 1), u_, WITF(u_ - 1, i_))))

    def WIT(ex_, st_, u_, i_):
        ex_state[0] = st_
        if ex_.pending_defs:
            ex_.pending_defs[-1].extend([wit_def(u_, i_), nevs_def(u_)])
        return WITF(to_int(u_), to_int(i_))
    names.update({'CS': SpecFunc(cs, 'CS'), 'NEV': NEV, 'EVENT': EVENT, 'NSTATES': S, 'NEVS': NEVSTATE, 'SEVENT': SEVENT, 'WIT': WIT})
    return names, axioms


_T2 = 'neg_logprobs.shape[0]'
_S2 = '(2 * len(symbols_seq) + 1)'
CONTRACTS[(PATH, 'force_align')] = Contract(
    params={'neg_logprobs': 'nd2:xreal', 'symbols_seq': 'seq:int', 'blank_symbol': 'int', 'return_seq_positions': 'const:False'},
    theory=force_theory, inline=['expand_logits'],
    requires=[_T2 + ' >= 1', 'len(symbols_seq) >= 1',
              '0 <= blank_symbol and blank_symbol < neg_logprobs.shape[1]',
              'forall(lambda q: implies(0 <= q and q < len(symbols_seq), 0 <= symbols_seq[q] and symbols_seq[q] < neg_logprobs.shape[1] and symbols_seq[q] != blank_symbol))',
              # an alignment of finite cost exists (otherwise viterbi_align raises ValueError: proved in its own contract)
              'not (isinf(V(' + _T2 + ' - 1, ' + _S2 + ' - 1)) and isinf(V(' + _T2 + ' - 1, ' + _S2 + ' - 2)))'],
    ghost_at={
        'A = hmm_trans_from_string(symbols_seq)': [
            # the transition matrix built by the code is the CTC topology the specification is stated over
            'assert A.shape[0] == ' + _S2 + ' and A.shape[1] == ' + _S2,
            'assert forall(lambda a, b: implies(0 <= a and a < ' + _S2 + ' and 0 <= b and b < ' + _S2 + ', isinf(A[a, b]) == (not allowed(a, b))))'],
        'expanded_logits = expand_logits(neg_logprobs, complete_seq)': [
            'assert expanded_logits.shape[0] == ' + _T2 + ' and expanded_logits.shape[1] == ' + _S2,
            'assert forall(lambda t, s: implies(0 <= t and t < ' + _T2 + ' and 0 <= s and s < ' + _S2 + ', expanded_logits[t, s] == neg_logprobs[t, CS(s)]))'],
    },
    lemmas=[
        # the number of collapse events up to frame u is the number of labels the state path has entered: (state + 1) // 2
        {'name': 'collapse-follows-the-states', 'var': 'u', 'lo': '0', 'hi': _T2 + ' - 1', 'direction': 'up',
         'stmt': '0 <= original_align[u] and original_align[u] < ' + _S2 + ' and NEV(u) == (original_align[u] + 1) // 2'},
    ],
    ensures=['len(result) == ' + _T2,
             # one symbol per frame: the symbol of the state the optimal path is in
             'forall(lambda t: implies(0 <= t and t < ' + _T2 + ', result[t] == CS(original_align[t])))',
             # collapses to the labels: exactly len(labels) collapse events, and the e-th event emits the e-th label
             'NEV(' + _T2 + ' - 1) == len(symbols_seq)',
             'forall(lambda t: implies(0 <= t and t < ' + _T2 + ' and EVENT(t), result[t] == symbols_seq[(original_align[t] - 1) // 2]))',
             # minimum cost over all allowed state paths (hence over all alignments, which are exactly those paths)
             'implies(QVALID() and (Q(' + _T2 + ' - 1) == ' + _S2 + ' - 1 or Q(' + _T2 + ' - 1) == ' + _S2 + ' - 2), '
             'V(' + _T2 + ' - 1, original_align[' + _T2 + ' - 1]) <= PCOST(' + _T2 + ' - 1))'],
)

import copy as _copy
_fa = CONTRACTS[(PATH, 'force_align')]
_fp = _copy.copy(_fa)
_fp.params = dict(_fa.params, return_seq_positions='const:True')
_fp.lemmas = [
    # the state path never goes back ...
    {'name': 'path-is-monotone', 'var': 'u', 'lo': '0', 'hi': _T2 + ' - 1', 'direction': 'up',
     'stmt': '0 <= original_align[u] and original_align[u] < ' + _S2 + ' and forall(lambda v: implies(0 <= v and v <= u, original_align[v] <= original_align[u]))'},
    # ... the number of label entries so far is the number of labels the current state has reached ...
    {'name': 'entries-follow-the-states', 'var': 'u', 'lo': '0', 'hi': _T2 + ' - 1', 'direction': 'up',
     'stmt': 'NEVS(u) == (original_align[u] + 1) // 2'},
    # ... and it grows by at most one per frame, so every count 1..NEVS(u) was reached by an entering frame
    {'name': 'every-label-is-entered', 'var': 'u', 'lo': '0', 'hi': _T2 + ' - 1', 'direction': 'up',
     'stmt': 'forall(lambda i: implies(0 <= i and i < NEVS(u), 0 <= WIT(u, i) and WIT(u, i) <= u and SEVENT(WIT(u, i)) and NEVS(WIT(u, i)) == i + 1))'},
    # hence label i owns the frame WIT(T-1, i)
    {'name': 'entry-frame-carries-the-label',
     'stmt': 'forall(lambda i: implies(0 <= i and i < len(symbols_seq), 0 <= WIT(' + _T2 + ' - 1, i) and WIT(' + _T2 + ' - 1, i) < ' + _T2 + ' and '
             'original_align[WIT(' + _T2 + ' - 1, i)] == 2 * i + 1))'},
]
# the variant used by align_text: per frame the index of the label the optimal state belongs to, -1 in blank states
_fp.ensures = ['len(result) == ' + _T2,
               'forall(lambda t: implies(0 <= t and t < ' + _T2 + ', result[t] == (-1 if original_align[t] % 2 == 0 else original_align[t] // 2)))',
               'forall(lambda t: implies(0 <= t and t < ' + _T2 + ', -1 <= result[t] and result[t] < len(symbols_seq)))',
               # label indices never decrease along the frames (blank frames aside) ...
               'forall(lambda t, t2: implies(0 <= t and t <= t2 and t2 < ' + _T2 + ' and result[t] >= 0 and result[t2] >= 0, result[t] <= result[t2]))',
               # ... and every label owns at least one frame
               'forall(lambda i: implies(0 <= i and i < len(symbols_seq), 0 <= WIT(' + _T2 + ' - 1, i) and WIT(' + _T2 + ' - 1, i) < ' + _T2 + ' and '
               'result[WIT(' + _T2 + ' - 1, i)] == i))']
def _fa_result(ex, st, env):
    from pyvc.arrays import as_array
    r = fresh_array((to_int(as_array(st, env['neg_logprobs']).shape[0]),), 'int', 'frame_labels')
    r.is_list = True
    return r


_fp.result = _fa_result
# what callers may use: the clauses that do not mention the callee's local state path (the witness clause in its existential form)
_fp.public_ensures = [_fp.ensures[0], _fp.ensures[2], _fp.ensures[3],
                      'forall(lambda i: implies(0 <= i and i < len(symbols_seq), exists(lambda t: 0 <= t and t < ' + _T2 + ' and result[t] == i)))']
CONTRACTS[(PATH, 'force_align', 'positions')] = _fp

# ---------------------------------------------------------------------------------------------------
# align_text: for every character the most confident frame of its block; positions strictly increasing

def _at_theory(ex, st):
    st.env = dict(st.env)
    st.env['symbols_seq'] = st.env['transcription']
    names, _axioms = force_theory(ex, st)
    # align_text is proved from the contract of force_align alone: the defining axioms of the Bellman value function (4-variable
    # quantifiers with div / mod) are not needed here, and with them in the context z3's matching occasionally ran away on
    # obligations that otherwise take 20 ms
    return names, []


_n3 = 'len(transcription)'
AT_BLOCK = ('forall(lambda i: implies(0 <= i and i < %s, 0 <= char_positions[i] and char_positions[i] < ' + _T2 + ' and '
            'logit_characters[char_positions[i]] == i and '
            'forall(lambda t: implies(0 <= t and t < ' + _T2 + ' and logit_characters[t] == i, max_probs[t] <= max_probs[char_positions[i]]))))')
CONTRACTS[(PATH, 'align_text')] = Contract(
    params={'neg_logprobs': 'nd2:xreal', 'transcription': 'nd1:int', 'blank_symbol': 'int'},
    theory=_at_theory,
    requires=[_T2 + ' >= 1', _n3 + ' >= 1', '0 <= blank_symbol and blank_symbol < neg_logprobs.shape[1]',
              'forall(lambda q: implies(0 <= q and q < ' + _n3 + ', 0 <= transcription[q] and transcription[q] < neg_logprobs.shape[1] and transcription[q] != blank_symbol))',
              'not (isinf(V(' + _T2 + ' - 1, 2 * ' + _n3 + ')) and isinf(V(' + _T2 + ' - 1, 2 * ' + _n3 + ' - 1)))'],
    ensures=['len(result) == ' + _n3,
             # every character is placed on a frame of its own block, the one where the network is most confident ...
             AT_BLOCK.replace('char_positions', 'result') % _n3,
             # ... and the positions are strictly increasing
             'forall(lambda i, i2: implies(0 <= i and i < i2 and i2 < ' + _n3 + ', result[i] < result[i2]))'],
    loops={0: LoopSpec(counter='kk', inv=['len(char_positions) == ' + _n3, AT_BLOCK % 'kk'])},
    # why the block of character i is not empty (two small steps instead of one search through the np.nonzero model)
    ghost_at={'seq_positions = np.nonzero(': [
        'assert exists(lambda t: 0 <= t and t < ' + _T2 + ' and logit_characters[t] == i)',
        'assert len(seq_positions) >= 1']},
)

KEYS = [(PATH, k) for k in ('initial_cost', 'final_cost', 'complete_state_seq', 'hmm_trans_from_string', 'compute_update', 'backtrack', 'viterbi_align', 'force_align', 'align_text')] + [(PATH, 'force_align', 'positions')]
